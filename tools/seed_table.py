#!/usr/bin/env python3
"""Renders the table of seeded changes (seeded/*/meta.json) as markdown: tools/seed_table.py > docs/SEEDED.md"""
import glob, json, os
V = os.path.dirname(os.path.dirname(os.path.abspath(__file__)))
NOTES = {
 "C09-1": "missed at first; caught after the firstEver ghost and the directed history Dir_PendReadd (publish, omit, re-publish 30 d after the first sighting) were added",
 "C16-2": "missed at first (gated schedules serialise each call); caught by the free-running histories judged by Trace_LinMap.tla",
 "C16-3": "missed at first; caught by Trace_LinMap.tla's quiescent Len = reachable entries",
 "C04-3": "missed at first; caught after negative answers got their second lifetime source from the RRSIG expiration as well as the SOA minimum",
 "C04-2": "missed at first; caught after alias chains ending in a (bare) denial were added (Sim_LeaseAnswerNeg.cfg)",
 "C01-1": "missed at first (the tampered referral was always the TLD's, whose DS a parent DS authenticates); caught after the tamper position rootref (the root's referral for the signed parent) was added to Dnssec.tla and the replay",
 "C01-2": "missed at first; caught after the tampering kind fakedname (forged CNAME vouched for by an unsigned ancestor DNAME in the authority section) was added",
 "C02-3": "missed by C02 (whose replay feeds the verifiers directly, below the resolver's signer-zone filter); caught by C01 after the tampering kind foreigndeny (denial 'proved' by unsigned NSEC records of the parent zone, zone served by its parent's server) was added",
 "C11-1": "missed by C11 at first, caught by C10; C11 now runs one engine shape of the UDP job walk (Trace_UdpJob: AtMostOneSend, ReleaseOnce) itself",
 "C03-1": "missed by C03 and C19 at first; caught by C19 after Ecs.tla got a sixth client whose /24 is the zero-extension of other clients' /16 announcement",
 "C05-1": "missed at first (needs an alias entry validated and its separately cached target not); caught by C06 after the Lease.tla histories were replayed with per-entry AD and judged by the clause 'AD only if every piece of a composed reply was validated' (message, byte and wire-born routes)",
 "C06-2": "missed at first; caught after the AD discipline was judged on replies synthesised from an RFC 8020 cut (EcsDenial.tla driver on the real edns+cache handlers, wire-born with direct pack)",
 "C06-3": "missed by C06, caught by C10 after the per-request OPT hygiene tier (job-owned edns writer slot in UdpSlab/TcpConn, cookie provenance on every reply)",
 "C07-1": "missed at first; caught after the two-question pre-datagram (twoq) was added to Bailiwick.tla and the replay",
 "C07-2": "missed at first (IPv6 glue was not exercised); caught after the out6 glue kind (AAAA glue for an out-of-zone NS host, IPv6 access on)",
 "C10-2": "missed at first; caught after reply size classes (small / large / huge) were added to TcpConn.tla and scripted pipelined orders are played on TCP and DoT",
 "C10-3": "missed at first; caught after the per-request OPT hygiene tier",
 "C12-1": "missed at first; caught after the minimisation-fallback stress case (root mishandles minimised probes; ever-deeper referrals below) was added to the topology tier",
 "C12-3": "missed for a long time (at the reply level an answer and a SERVFAIL are both legal); caught by the ObjLoop tier, which counts the operations per validation object through the production ledger adapter: 3 digests for one DS under max_dnskey_candidates=2",
 "C13-1": "missed at first; caught by the zone-failure pipeline tier (ZoneFail.tla over N-server zones, oracle from the scripted servers' own logs)",
 "C13-2": "missed at first; caught by the alias-completion failure outcome in the request-level tier",
 "C17-3": "missed at first; caught after the default-chain gate replay switched the client limiter on and sends a denied source a changing cookie",
 "C19-1": "missed at first; caught by EcsDenial.tla + replay (wire-born ECS request with forwarding off must not consume or create a shared cut)",
 "C19-2": "missed at first (one invalid setting was replayed: forward_v4 out of range); caught after four invalid configurations rotate through the Serve replay",
 "C19-3": "missed at first; caught after the scripted authority puts NSID / COOKIE+EDE options in front of the subnet option of its reply",
 "C20-1": "missed at first (a translated non-embedding was booked as drift); now a violation: an ip6.arpa name is translated only if it is the RFC 6052 embedding of the address it maps to",
 "C20-2": "missed at first; caught after stacked EDE options (an unrelated EDE in front of the DNSSEC one) were added to the decision-table replay",
 "C20-3": "missed at first; caught after the configuration with the operator prefix listed before the well-known one (both2)",
 "C08-1": "missed at first; caught after the slowns shape (un-glued NS host whose address lookup outlasts the lease, directly below the root) was added to the pipeline tier",
 "C08-2": "missed at first; caught after the pipeline tier got wire-born client queries and background refresh (threshold 90 %) as scenario shapes",
 "C18-r2-1": "missed at first (the gated replay lets a writer past the lock gate only when saveMu is free, so nobody ever waited on it); caught by the BlQueue tier: writers really park on saveMu (runtime.Stack detection), the hoisted-check counter-examples of the model reproduce on the real code",
 "C16-r2-1": "missed at first (the limiter store was exercised only through the rate limiter's semantics); caught by LimStore.tla + replay: in the sampled eviction regime (> 1000 entries) the key just written must still be mapped",
 "C06-r2-1": "missed by C06 (its three entries build a fresh writer per query), caught by C10's per-request OPT hygiene (job-owned edns writer slot)",
 "C06-r2-2": "missed by C06, caught by C10 (TcpConn: every reply byte is the own query's)",
 "C03-r2-2": "a revert of fix 4abbbcb: missed by C03 (whose replay does not drive the prefetch worker), caught by C19 (Prefetch.tla ECS refresh tier)",
 "C10-r2-2": "missed at first (size CLASSES never land on the byte boundary of the drain buffer); caught after exact-size answers (reply length a function of the name) put the last pipelined frame at free-1, free, free+1 and free+2 bytes",
 "C01-r2-3": "missed at first (the foreign signer evil.test. shares no text with the victim's zone); caught after the sibling was renamed ne.test., a textual but not label-wise suffix of zone.test.",
 "C01-r2-1": "missed at first; caught after the question kind whost and the tampering wildforeign (wildcard expansion replayed over an existing name, next-closer 'denied' by an unsigned NSEC of the parent zone)",
 "C04-r2-1": "missed at first (the denial-proof cache was outside Lease.tla); caught by the DenialProof tier: an older long-lived NSEC + a later short SOA entry, the synthesised reply must not outlive the SOA piece",
 "C08-r2-1": "missed at first; caught by the AliasLease tier (an alias in a stable zone whose chase is served from a cached denial of a leased zone; asked again after the lease ended and the parent re-pointed)",
 "C13-r2-2": "missed at first; caught by the FailEcs tier (SingleProbe: a /0 ECS client and a plain client elect two probes after the backoff)",
 "C13-r2-3": "missed at first; caught by the FailEcs tier (NoUpstreamInBackoff: followers of a leader that failed for their ECS audience each go upstream)",
 "C06-r2-3": "missed at first; caught by the ServeEngine tier (a negative answer signed only in authority, cached, then served from bytes to a DO=0 client through the real UDP/TCP engines)",
 "C05-r2-3": "missed by C05 at first, caught by C10; C05 now catches it through the ServeEngine tier (engine entry == decoded entry)",
 "C05-r2-1": "missed by C05 (no ECS query below an RFC 8020 cut in its families), caught by C19 (EcsDenial.tla: a wire-born ECS query must not consume a shared cut)",
 "C01-r2-2": "missed by C01 and C04, caught by C06 (ComposedAD: AD only if every piece of a composed reply was validated, wire chase)",
 "C02-r2-1": "missed at first (one ordinary data type, so neighbouring bitmaps never differed); caught after TXT joined the type universe and zone wildtypes (wildcard {A}, covering owner {TXT}) was added",
 "C02-r3-1": "missed at first (both cache models had an atomic lookup: no admission ever fell between a lookup's snapshot and its answer); caught by DenialProof.tla Race = TRUE: the real lookup held after the snapshot capture (index clock seam / production BeginNSEC3Hash), the asked type or name created on the live zone, another client's validated answer makes the index tombstone the ring, the released lookup must give up",
 "C02-r2-2": "missed at first; caught by the HashMemo tier (two validations of one request tree want the same NSEC3 digest, the first parked inside BeginNSEC3Hash: the second must wait, not read an empty digest)",
 "C07-r2-1": "missed at first; caught by the DelegAssembly tier (query B answered through the provisional server set while query A is parked resolving a glue-less NS host)",
 "C07-r2-2": "missed at first (one stray datagram per exchange); caught after the pre-datagram kind flood (twelve wrong-ID datagrams echoing the right question)",
 "C11-r2-2": "missed by C11, caught by C13 (a capacity shed is request-local: never recorded, never served to others)",
 "C11-r2-3": "missed at first (no reply was ever refused by the kernel); caught by C10 and C11 after bursts holding a destination the kernel refuses (raw-socket source port 0): nobody may see a second copy",
 "C19-r2-2": "missed at first (the refresh scenario only used a shared entry); caught after the scoped variants: a hit on an entry stored under an ECS scope must not reach upstream in the background",
 "C20-r2-1": "missed at first; caught after one case in three is served as the worker's replay pass (Chain.SetReplay)",
 "C20-r2-3": "missed at first; caught after the well-known prefix is also configured as the fallback of an omitted / all-unusable prefix list",
}
rows = []
for p in sorted(glob.glob(os.path.join(V, "seeded", "*", "meta.json"))):
    m = json.load(open(p))
    name = os.path.basename(os.path.dirname(p))
    det = m.get("detected_by") or []
    runs = ", ".join("%s:%s" % (r["check"], {0: "green", 1: "RED", 2: "fault"}.get(r["exit"], r["exit"])) for r in m.get("checks_run", []))
    rows.append((name, m.get("property"), m.get("title", "").replace("|", "/"), (m.get("needs_to_manifest") or "").replace("|", "/").replace("\n", " ")[:220],
                 ", ".join(det) if det else "**missed**", NOTES.get(name, m.get("strengthened", "")), runs))
print("# Seeded changes (independent sub-agents; each confirmed by tools/confirm_seed.sh)\n")
print("Every change compiles, passes the repository's own suite, and comes with a demonstration that fails with it and passes")
print("without it (`seeded/<id>/demo`, `demo.cmd`). `tools/try_seed.sh seeded/<id> <check>` re-runs a check against it.\n")
print("| id | property | change | needs, to manifest | caught by (quick tier) | note |")
print("|---|---|---|---|---|---|")
for r in rows:
    print("| %s | %s | %s | %s | %s | %s |" % (r[0], r[1], r[2], r[3], r[4], r[5]))
n = len(rows); d = sum(1 for r in rows if "missed" not in r[4])
print("\n%d changes kept, %d caught by the registered quick checks." % (n, d))
