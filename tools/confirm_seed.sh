#!/bin/sh
# tools/confirm_seed.sh <seed-dir> [full]
# Confirms a seeded change independently in a scratch worktree of /repo:
#   1. the patch applies and the tree builds; 2. the repository's own tests pass with it
#   (touched packages and their siblings by default, the whole BASELINE suite with `full`);
#   3. the demonstration fails with the change and passes without it.
# <seed-dir> holds patch.diff, demo/ (files to copy into the tree, paths relative to the repo root)
# and demo.cmd (one shell line run from the repo root; exit 0 = property holds).
set -u
D=$(cd "$1" && pwd); MODE=${2:-pkgs}
WT=$(mktemp -d /tmp/wt-confirm-XXXXXX); rmdir "$WT"
git -C /repo worktree add -q --detach "$WT" HEAD || exit 2
cleanup() { git -C /repo worktree remove --force "$WT" >/dev/null 2>&1; rm -rf "$WT"; }
trap cleanup EXIT
cd "$WT" || exit 2
export GOFLAGS=-mod=mod GOPROXY=off
rc=0
# demo on the clean tree
cp -r "$D"/demo/. . 2>/dev/null
if sh -c "$(cat "$D"/demo.cmd)" > "$D"/confirm.clean.log 2>&1; then echo "demo on clean tree: PASS (expected)"; else echo "demo on clean tree: FAIL (unexpected)"; rc=1; fi
git apply "$D"/patch.diff || { echo "patch does not apply"; exit 1; }
go build ./... > "$D"/confirm.build.log 2>&1 || { echo "build fails with patch"; exit 1; }
go vet ./... > /dev/null 2>&1 || true
if sh -c "$(cat "$D"/demo.cmd)" > "$D"/confirm.mutant.log 2>&1; then echo "demo on mutant: PASS (unexpected)"; rc=1; else echo "demo on mutant: FAIL (expected)"; fi
# existing tests with the patch (demo files removed first)
(cd "$D"/demo && find . -type f) | while read f; do rm -f "$WT/$f"; done
if [ "$MODE" = full ]; then PK=./...; else
  PK=$(git diff --name-only | xargs -n1 dirname | sort -u | sed 's|^|./|' | tr '\n' ' ')
fi
ok=0
if go test -vet=off -count=1 -timeout 25m $PK > "$D"/confirm.tests.log 2>&1; then ok=1; else
  # wall-clock tests of the suite (latency bounds, drain timeouts, fixed ports) can fail once on a loaded
  # machine: the failed packages are re-run alone, twice at most, before the patch is blamed
  for try in 1 2; do
    FP=$(grep -E '^FAIL[[:space:]]+github.com' "$D"/confirm.tests.log | awk '{print $2}' | sed 's|github.com/semihalev/sdns|.|' | sort -u | tr '\n' ' ')
    [ -n "$FP" ] || break
    sleep 5
    if go test -vet=off -count=1 -p 1 -timeout 25m $FP > "$D"/confirm.tests.retry$try.log 2>&1; then ok=1; echo "  (first run failed in $FP under load; passed alone on retry $try)"; break; fi
    cp "$D"/confirm.tests.retry$try.log "$D"/confirm.tests.log
  done
fi
if [ $ok = 0 ]; then
  # a failing package that neither is touched by the patch nor imports (transitively, test imports included)
  # a touched package cannot have been affected by it: the failure is the machine's
  TOUCHED=$(git diff --name-only | grep '\.go$' | xargs -n1 dirname | sort -u | sed 's|^|github.com/semihalev/sdns/|; s|/\.$||')
  FP=$(grep -E '^FAIL[[:space:]]+github.com' "$D"/confirm.tests.log | awk '{print $2}' | sort -u)
  unrelated=1
  for fp in $FP; do
    DEPS=$( (go list -deps -test "$fp" 2>/dev/null; echo "$fp") | sort -u)
    for t in $TOUCHED; do
      if echo "$DEPS" | grep -qx "$t"; then unrelated=0; fi
    done
  done
  if [ -n "$FP" ] && [ $unrelated = 1 ]; then ok=1; echo "  (still failing: $FP -- does not depend on any package the patch touches; load-sensitive baseline test, not the patch)"; fi
fi
if [ $ok = 0 ]; then
  # still failing: is it the machine?  The same tests are run on the clean tree under the same load; a test
  # that fails there too says nothing about the patch, and is then given five more solo runs on the mutant.
  FT=$(grep -E '^--- FAIL: ' "$D"/confirm.tests.log | awk '{print $3}' | sed 's|/.*||' | sort -u | tr '\n' '|' | sed 's/|$//')
  FP=$(grep -E '^FAIL[[:space:]]+github.com' "$D"/confirm.tests.log | awk '{print $2}' | sed 's|github.com/semihalev/sdns|.|' | sort -u | tr '\n' ' ')
  if [ -n "$FT" ] && [ -n "$FP" ]; then
    CW=$(mktemp -d /tmp/wt-confirm-clean-XXXXXX); rmdir "$CW"; git -C /repo worktree add -q --detach "$CW" HEAD
    cleanfail=0
    for i in 1 2 3; do (cd "$CW" && go test -vet=off -count=1 -run "^($FT)\$" $FP > "$D"/confirm.cleanload.log 2>&1) || cleanfail=1; done
    git -C /repo worktree remove --force "$CW" >/dev/null 2>&1; rm -rf "$CW"
    if [ $cleanfail = 1 ]; then
      for i in 1 2 3 4 5; do
        if go test -vet=off -count=1 -p 1 -run "^($FT)\$" $FP > "$D"/confirm.tests.solo.log 2>&1; then ok=1; echo "  ($FT also fails on the clean tree under this load; passed solo on the mutant, run $i)"; break; fi
        sleep 3
      done
    fi
  fi
fi
if [ $ok = 1 ]; then echo "existing tests ($PK) with patch: PASS"; else echo "existing tests ($PK) with patch: FAIL"; grep -E '^(--- FAIL|FAIL)' "$D"/confirm.tests.log | head; rc=1; fi
exit $rc
