#!/usr/bin/env python3
"""Regenerates /verif/MANIFEST.json from the table below (single source)."""
import json, os, subprocess
ROOT = os.path.dirname(os.path.dirname(os.path.abspath(__file__)))

CLAIMED = {
 "C16": dict(
   technique="TLA+ spec (ProbeMap.tla, SegCache.tla) model-checked with TLC; every labelled edge of the TLC state graph and simulated behaviours replayed on the real UInt64Map; TLC-chosen writer schedules forced on the real cache.Cache through verif gate points and the recorded executions validated by TLC against Trace_W2.tla",
   text="TLC exhausts the open-addressing table model (all ops, growth 8->16, wrap-around clusters; all ideal-slot assignments in the thorough tier) and every interleaving of 2-3 SetWithCap writers + Del/CAS/CAD over 2-3 segments for capacities 1..3, checking map refinement, no-dup/reachability, occupancy bound, never-evict-self, one-lock-at-a-time, quiescent length and termination. Conformance binds it to the code in both directions: spec->code replay with layout-exact comparison and code->spec trace validation of gated real executions, with the property predicates evaluated on the real state after every step.",
   design_ref="2.1",
   note="Assumes the per-segment table refines a map (established by ProbeMap on <=16 slots; larger tables only through the gated runs' random keys); real keys are searched to land on the model's ideal slots/segments; schedules are serialised by the gate so lock-free windows inside one gate-to-gate step are not interleaved."),
 "C05": dict(
   technique="TLA+ spec Serve.tla (two transcriptions of the entry half: WirePass / MsgPass) model-checked with TLC (PathsAgree as an action property over four packet families); TLC-simulated behaviours concretised to packet bytes and replayed through three identically configured real servers (ServeRaw strict slots, ServeMsg, ServeRawInline+ServeRawReplay) with decoded-reply, upstream-invocation and follow-up comparison",
   text="TLC checks in the model that the wire pass and the decoded pass agree on outcome and side effects for every packet of the admission, shaping, cookie/limiter and ECS families over short histories; the replay judges the real code by the property's own equivalence (decoded replies equal up to compression/case, same drop/reject decision, same upstream calls, same later-visible cache state).",
   design_ref="2.9",
   note="Byte-level packet universe sampled per abstract class (2-4 variants), not enumerated; TTLs compared with 1 s tolerance; option order and record order inside a section are not compared; schedules are out of scope (sequential by the statement)."),
 "C06": dict(
   technique="TLA+ spec Serve.tla model-checked with TLC (ReplyContract, OneToken action properties; a regression config with the pre-fix CancelWithRcode must fail); TLC-simulated behaviours concretised and replayed through the real default chain on three entries, the reply contract evaluated on the raw bytes of every reply",
   text="The contract clauses of the statement (QR/ID/opcode echo, question echo, no OPT unless asked, no DNSSEC RRs unless DO/RRSIG, AD discipline, no ECS/keepalive/foreign options, cookie only against a cookie, UDP size or bare TC, ingress verdicts) are invariants of the model and are evaluated byte-level on every real reply for every generated (config, history, packet, upstream content).",
   design_ref="2.9",
   note="UDP/TCP and the shared ServeMsg entry are exercised; DoT/DoH/DoQ framing is not (their replies are produced by the same chain entered through ServeMsg); engine header verdicts are checked through the engine's own acceptHeader (overlay shim), not through sockets."),
 "C19": dict(
   technique="TLA+ specs Serve.tla (ecs and cookies families: EcsForwarded / NeverEcsToClient) and Ecs.tla (forwarding clamp, scoped storage, audience: EcsLeavesOnlyIfAllowed, ScopedAudience, NeverTooSpecific) model-checked with TLC; behaviours replayed through the real default chain observing the upstream query's OPT at a scripted tail, the client reply's OPT, and which exchange's data each client is served",
   text="For every ECS policy (off/on/invalid), client option kind (v4/v6, over-long, host bits, family 0, bad family), OPT shape and upstream content the check decides: ECS leaves only when enabled, clamped and host-bit free; every other client option is gone upstream; no ECS ever returns to a client.",
   design_ref="2.9",
   note="Ecs.tla adds the forwarding clamp, scoped storage key (ClampScope), longest-prefix audience and the scoped TTL cap over 5 clients x 4 sent lengths x 5 authority scopes x floors 16/24 and policy off, replayed with hit/miss compared to the model (0 drift on the unchanged tree). Not yet covered: 'never background-refreshed' and the shared-denial bypass for ECS/CD trees through alias chases (needs validated denials); IPv6 scopes only through the Serve family; client networks are 0.0.0.0/0."),
 "C01": dict(
   technique="TLA+ spec Dnssec.tla (chain of trust, validation pipeline as actions, one tampering <position,kind>) model-checked exhaustively with TLC (TruthOrServfail, NeverAlteredData, ADImpliesSecure, InsecureOnlyByProof, NoAnchorFailsClosed, ServfailHasEDE, termination); TLC-drawn cases concretised with real keys/signatures in scripted loopback authorities (authkit) and resolved by the real edns+cache+resolver chain, replies judged against the zones' ground truth",
   text="The model enumerates 5 zone kinds x 6 question kinds x 26 tamperings x 8 client flag sets x anchor present/absent (12,480 cases) and proves the pipeline admits only SERVFAIL-or-truth, AD only on a fully secure path toward a client that asked, insecure only by proof, fail-closed without anchors. The replay runs a seeded sample of those cases (all in thorough) end to end, twice each so the second reply comes from the caches the first filled.",
   design_ref="2.13",
   note="One or two tamperings per case (pairs at two different positions); single-server zones, so an effective tampering leaves SERVFAIL as the only legal outcome; ECDSA P-256 keys (algorithm coverage is C14's subject); data tampering inside provably-insecure zones is out of the statement's scope."),
 "C20": dict(
   technique="TLA+ specs Dns64Layout.tla (RFC 6052 position map as a state machine: Validate/Embed/Corrupt/Extract/PtrQuery) and Dns64Decide.tla (eligibility gates + response dispatch as a decision table, conformant and as-built variants) model-checked exhaustively with TLC; every TLC state is replayed on the real dns64 handler with a scripted downstream/queryer (AAAA synthesis + ip6.arpa PTR round trip; every decision row), property predicates evaluated on the real replies",
   text="Layout: RoundTrip, ReservedZero, SuffixZero, Injective, PtrBack, IllegalRejected for all six legal lengths (and 11 illegal ones) over a 3-5 value octet alphabet, plus seeded random addresses on the code. Decision: SynthOnlyWhenAllowed, NeverOverFailure, NeverAD, TtlMin, WellKnownSkipsExcludedV4, owner-after-chain over client flags x class x eligibility x downstream AAAA/A response classes (all 11 DNSSEC EDE codes).",
   design_ref="2.11",
   note="Two defects found and repaired (fix: 1f8aa3e AD on fully-filtered answers, 96db742 zero negative TTL); one recorded finding (all-zero Pref64 ::/56, ::/64 with IPv4-mapped-looking results does not PTR-translate back). A DNSSEC failure is visible to dns64 only as SERVFAIL + DNSSEC EDE; overlapping prefixes are not explored for PTR."),
 "C03": dict(
   technique="TLA+ spec CacheKey.tla (identities Name x Type x Class x CD x Scope, an adversarial key function chosen by TLC to force collisions, Store/StoreForged/Refresh/Ask/RecFail/ForgeFail/RecCut/ForgeCut/Purge, one verifier transcription per lookup route) model-checked with TLC (ExactAudience, PurgeComplete/PurgeExact, RefreshInherits); simulated behaviours replayed on the real edns+cache chain with collisions staged for real through the pre-keyed writers, every route probed with message-born and wire-born requests",
   text="TLC enumerates all key functions over 2-4 preimages and 2-4 step histories; the replay files one response under the real hashes of every preimage the model collides, then probes msg hit, wire hit, scoped probe, chase hop, cut msg/wire, failure msg/wire, GetWithContext, ReplaceIfCurrent and purge for 7 audiences; rdata carries the identity it was stored for, so a reply is judged by the property predicate on wire-octet identity.",
   design_ref="2.8",
   note="Byte-level key parity (Key/KeyWire/KeyWithPrefix/KeyWireWithPrefix over label bytes 0-255) is sampled (4,000 / 60,000 names per run), not enumerated. Four recorded findings, all needing raw bytes >= 0x80 or non-ASCII letters in presentation text (FailureCache and nxdomain-cut normalise with dns.CanonicalName; Store.Purge's scoped sweep uses strings.EqualFold). Zone-kind failures and RFC 8198 proofs are not modelled here (C13/C02)."),
 "C02": dict(
   technique="TLA+ spec Denial.tla (zone model with wildcards, ENTs, delegations, DNAME, opt-out; NSEC chain and NSEC3 ring; Truth(q); RFC 4035/5155/8020/8198 acceptance rules over subsets of genuine records, optionally polluted with sibling/child records; admission/expiry order into the denial-proof index and subtree-cut cache) model-checked with TLC (Sound, AggressiveSound, AggressiveNeverOptOut, OptOutNeverSecure, MixedRefused, FullChainProves, SynthesisedIsTrue); every enumerated (zone, subset, query) built into real NSEC/NSEC3 records and passed to the real verifiers and classifiers; admission behaviours replayed through Store.RecordDenialProof/RecordNXDomainCut and Cache.ServeDNS with a virtual clock",
   text="Soundness of the acceptance rules is proved on the model for every zone x subset x query in the bound (97k states quick, 767k thorough); the replay feeds 287k (quick) to 3.9M (thorough) concrete (records, question) evaluations to VerifyNameErrorNSEC/VerifyNODATANSEC/VerifyDelegationNSEC, the NSEC3 *ForZoneWithWork verifiers and the EvaluateAggressive* classifiers and judges every accepted or synthesised denial against Truth.",
   design_ref="2.14",
   note="Two defects found and repaired (fix: bf324a7 ENT NXDOMAIN, c9b5642 parent-side NSEC/NSEC3 at a zone cut). The code being stricter than the model (NSEC ENT NODATA, apex-DS NODATA) is drift. Hash collisions are model-only; VerifyWildcardAnswer* is driven only through C01."),
 "C17": dict(
   technique="TLA+ specs IpSet.tla (the ipset algorithm itself over W-bit addresses: normalise, sort, running max, binary-search Contains, all sort orders of equal keys) and Gate.tla (accesslist gate, first-match views, internal sub-pipelines without ClientOnly handlers) model-checked exhaustively with TLC; every enumerated prefix list / gate configuration scaled into real IPv4/IPv6 space and replayed on the real ipset, accesslist, views handlers and the real default chain",
   text="TLC enumerates all ordered lists of <=3 W=4 prefixes (any host bits, /0../W, both families, malformed entries) x all addresses and checks Contains = exists-prefix; the replay places each case at 13+ bit offsets (word boundary, /0, /32, /128, v4-mapped block) and compares ipset.Contains with two naive oracles on 8-9M probes; the gate model's 99k terminal states run on the real handlers (wire-born and message-born, udp/tcp/doh/doq doubles) and on the registered default chain: denied => no bytes, nothing downstream, cache untouched.",
   design_ref="2.10",
   note="W=5 with every host-bit pattern is opt-in (VERIF_C17_DEEP); ratelimit/reflex exemption of internal queries is structural only (the sentinel address is loopback); IPv4-mapped prefix entries (::ffff:a.b.c.0/120) are counted as ambiguous, not judged."),
 "C18": dict(
   technique="TLA+ specs BlMatch.tla (names as label sequences; statement matcher vs transcription of Exists/matchHierarchy; Set/Remove/Query state machine) and BlPersist.tla (MutateAndSnapshot under mu, persist under saveMu as CreateTemp/Write*/Sync/Close/Rename steps with Crash after each, Reload) model-checked with TLC (MatchExact, WildcardSparesApex, WhitelistWins, WholeLabels; DiskIsASnapshot, CrashLeavesSnapshot, Converged, NewestWins, OneTemp, NeverBackwards, Terminates); every matcher state and every labelled edge of the 2-writer persistence graphs replayed on the real BlockList, schedules forced through verif gate points in persist, crash = directory copy + fresh reload, recorded traces validated by Trace_BlPersist",
   text="Matcher: every state x query name of the exhaustive graph through real Exists/ServeDNS (null route for A/AAAA, empty authoritative answer otherwise, downstream untouched when blocked). Persistence: every interleaving edge of 2 writers (3 simulated) forced on real goroutines, the directory checked after every step, every crash point reloaded (the whole directory, as New() walks it), convergence after completion, plus concurrent API stress.",
   design_ref="2.7",
   note="Entries are LDH labels (no root entry, no escaped dots); crash points at gate granularity (per written line, not per byte); fsync durability and I/O error paths are not modelled. One defect found and repaired (fix: aff16bb leftover temp file loaded at start)."),
 "C07": dict(
   technique="TLA+ spec Bailiwick.tla (zone tree with an adversarial authoritative server; the adversary's moves per exchange as action parameters; the resolver's ID/question match, delegation extraction, glue, referral and cacheability filters as actions) model-checked with TLC (Containment and its clauses; ten one-filter-off regression configs that must fail); TLC-enumerated single- and two-move attack scripts played by scripted loopback servers against the real full pipeline, followed by victim queries; oracle = ground truth of the honest zones",
   text="85 single-move and 7,225 two-move scripts (pre-datagrams with wrong ID/question incl. over TCP, foreign answer/authority/additional records, out-of-zone CNAME continuation, seven bad referral kinds, four glue variants) x unsigned / signed+CD=1 x qname-minimisation, each on a fresh resolver: foreign-owned answer records must equal their owner's truth, later victim queries return truth or SERVFAIL, unmatched datagrams leave no trace, trap/loopback/local-interface addresses are never dialled.",
   design_ref="2.12",
   note="One defect found and repaired (fix: 2cb5269 foreign answer records relayed). IPv6 glue is not exercised (IPv6Access off); NS-address lookups below Z and DNAME are not expanded; time-dependent ghost-domain cases belong to C08."),
 "C13": dict(
   technique="TLA+ spec FailureCache.tla (one action per API call of the real FailureCache plus the request-level wrapper with outcomes useful / all-servers-failed / request-local causes, probe election with followers) model-checked with TLC (Envelope, EnvelopeStep, Containment, LocalNeverShared, OnlyWhatFailed, SingleProbe, ProbeFollowersWait, SuccessResets, KillSwitch, NoUpstreamOnHit); every labelled edge of the small graphs and simulated behaviours replayed on the real FailureCache (Now hook), request-level histories through the real edns+cache chain with a scripted failing downstream (message-born and wire-born), probe election with gated goroutines; every call recorded and validated by Trace_FailureCache",
   text="Time is relative and the streak saturates, so the exhaustive configs are horizon-free; the replay checks on the real code that a hit comes only from the exact five-dimensional key or a failed ancestor zone of the same class, that back-off stays in the configured envelope and at most doubles, that request-local causes (budget, attempt limit, deadline, cancel, shed, best-effort, probe limit) never create shared state, that one probe leads after expiry, success resets, and the kill switch stops both recording and serving.",
   design_ref="2.4",
   note="One defect found and repaired (fix: ed8d7bf shed load cached). Causes living on the caller's context are injected on message-born requests only (a wire-born request is detached); the dns64/failover 'cached failure is terminal' wrappers are bound in C20; 64-bit hash collisions belong to C03."),
 "C09": dict(
   technique="TLA+ spec RFC5011.tla (one AutoTA run as 15 program-counter steps keyed by tag exactly as the code, adversary/operator publications incl. tag collisions and forged sets, Crash between persistence steps, Restart, read/write faults, ghost oracle) model-checked with TLC (TrustOnlyByRFC, RevokedNeverAgain, UnauthenticatedChangesNothing, RevokedOnlyRevokes, FailClosed, MissingKeepsTrust, ReappearRestores; 9 reachability witnesses; hypothesis configs whose counter-examples are concretised); simulated behaviours and TLC counter-examples replayed on a real Resolver with really signed Ed25519 DNSKEY sets, gob files aged by rewriting FirstSeen, write/read faults and inotify-reconstructed crash directories; one NDJSON event per run validated by Trace_RFC5011",
   text="Exhaustive over 2-3 keys (one colliding tag pair), 3-4 refreshes, day steps around 30 d / 90 d, one crash/restart, two write faults, corrupt tombstones (0.4-4.7M states); 160 (quick) to 2,700 (thorough) behaviours executed on the real AutoTA with all clauses evaluated at every quiescent point and after every reconstructed crash prefix; tombstones-before-state and temp+rename atomicity observed with inotify.",
   design_ref="2.3",
   note="Four recorded findings, all found first as TLC counter-examples and reproduced on the code (tag-keyed hold-down presence under a tag collision; unreadable tombstone store not failing closed; revocation forgotten after both writes failed; sole StateRevoked marker lost to state-file corruption). Two further RFC 5011 gaps (revoked-tag carry +129; revocation masked by an in-RRset tag collision) are reported as observations: sdns never accepts those revocations, so the statement is not engaged. The 1- and 89-day boundaries are sampled, not exhaustive; torn writes below rename(2) are out of scope."),
 "C04": dict(
   technique="TLA+ spec Lease.tla, answer half (SpecAnswer: admission with TTL floor/cap, RRSIG expiry, SOA minimum, ECS cap and delegation cut; message and wire hits; both alias chases; subtree cut and denial-proof entries; request-tree min-fold; prefetch pointer-CAS; purge; Tick) model-checked exhaustively with TLC (ServedLive, TTLShown, TTLMonotone, ComposedMin, LateWriteLoses); TLC-simulated behaviours replayed call by call on the real Cache.ServeDNS / Store with an overlay timestamp shifter as the clock, and the recorded runs validated by TLC against Trace_Lease.tla with the property predicates evaluated on the observed replies",
   text="TLC exhausts the answer-lifetime model (two configs: exact entries with chases/prefetch CAS/purge; subtree cuts and denial proofs) and 1,500 (quick) simulated histories per run are executed on the real cache on three routes (message-born, byte path, wire-born): every reply's TTL fields are compared with the driver's own earliest-permissible-expiry oracle, composed replies with the min over their pieces, re-cached compositions with the request-tree fold, and the late ReplaceIfCurrent race in TLC-chosen call order.",
   design_ref="2.2",
   note="API tier only: lifetimes enter through the exported Store/Cache surface and a scripted downstream handler, not through a live resolver (the lease half of the same module is bound to the full pipeline in C08); the clock moves only between completed operations (timestamp shifter), so in-flight wall-clock effects are not explored; DNS64 composition is bound in C20."),
 "C08": dict(
   technique="TLA+ specs Lease.tla, delegation half (SpecDeleg: parent-side truth with withdraw/re-point/re-time, referral observation, lease insertion with min over NS/DS TTL, ancestors and the 12 h ceiling, cached descent, provisional NS-lookup entries, self-referrals) and LeasePipe.tla (root -> p -> c tree with client query bursts; two model mutants must violate FollowsParent) model-checked with TLC (LeaseWithinGrant, NoSelfExtension, FollowsParent); simulated behaviours replayed step by step on the real authority.Cache + the resolver's own lease helpers under two virtual-clock mechanisms and validated by Trace_Lease.tla; LeasePipe scenarios played in real time by scripted parent/child authoritative servers against the real edns+cache+resolver pipeline",
   text="Exhaustive over the bounded delegation tree (TTL classes incl. values above the 12 h ceiling, every point of parent withdrawal / re-pointing); 1,200 API-tier behaviours per quick run with the invariants evaluated on the observed deadlines, plus 28 (quick) real-time pipeline scenarios whose oracle uses only the referral log the scripted parent actually served and the delegation version encoded in every served record: nothing learned through a withdrawn delegation is served once the lease granted before the withdrawal has ended.",
   design_ref="2.2",
   note="Pipeline scenarios run in wall-clock seconds with 1-3 s TTLs, so lease ends are judged with the measured resolution latency as tolerance on the granted side only; validation-latency re-anchoring is sampled with real delays rather than enumerated; the 12 h ceiling is exercised at the API tier only."),
 "C10": dict(
   technique="TLA+ specs UdpJob.tla (the owned UDP engine, one action per ownership step: portable and batch readers, inline pass, handoff and replay, worker bursts, overflow goroutines, flushTX; UdpSlab.tla is the per-slab step shared with the trace spec) and TcpConn.tla (pipelined frames, job class swap, staged frames and flush) model-checked exhaustively with TLC (SingleOwner, ReplyIsOwn, SilentStaysSilent, AtMostOneSend, ReleaseOnce, LeaseBound, QuiescedIff; four regression configs with the scrub / rawSA reset / staged-is-terminal / flush-wait rules switched off must each fail); the real server.Server is driven on loopback UDP/TCP/DoH/DoH3/DoQ sockets by concurrent clients that check byte provenance of everything they receive, and the ownership walk recorded through the verif trace hook is validated line by line by TLC against Trace_UdpJob.tla / Trace_TcpConn.tla with the invariants evaluated at every event",
   text="Every interleaving of 2-3 clients' packets (hit, miss, malformed, QR, bad opcode/counts, panic, ignored, write-then-handoff) over 3-4 slabs, tiny queues and caps is explored in the model; on the real engines (batch, mixed fallback, portable; workers 1-2, queue 1) about 17,000 recorded ownership events per quick run are explained by the spec with ReplyIsOwn evaluated at each send, every datagram/frame a client receives must carry its own id, question and rdata = f(question), silent kinds must stay silent, and all slabs must come home.",
   design_ref="2.5",
   note="The kernel's recvmmsg/sendmmsg ordering and loopback delivery are trusted; release() and serveInline's transition+count are single steps in the model; secure legs run under a self-generated certificate and a leg whose listener does not come up offline is reported as skipped in the evidence, never faked."),
 "C11": dict(
   technique="TLA+ specs Dedup.tla (Cache.ServeDNS dedup loop over the real internal/waitgroup API with the written-once writer: join, wait, recheck, regroup, lead downstream, done-generation, deadlines and cancellation) and UpFault.tla (per-server fault scripts over a two-server zone) model-checked with TLC (AtMostOneReply, OneLeaderPerGeneration, FollowersNeverDone, FailureIsPrivate; liveness under weak fairness; bounded time with an urgent clock; a writer-guard-off config must fail); TLC behaviours replayed call by call on the real WaitGroup, forced as gated goroutine schedules on the real Cache.ServeDNS with the recorded executions validated against Trace_Dedup.tla, and sampled fault scripts played by scripted authorities against the real full pipeline on real UDP+TCP sockets",
   text="All 10^4 two-server fault scripts (drop, delay past the timeout, TC then TCP stall/reset, wrong id, wrong question, garbage, SERVFAIL/REFUSED) are checked on the abstract resolver and 200 (quick) to 5,000 (thorough) of them are played for real with duplicate and distinct queries in flight and disconnecting clients: exactly one reply, own id/question, truth or SERVFAIL, within querytimeout + margin; afterwards the server is quiesced, slabs and limiter slots are home, goroutines are back and a full wave of honest queries resolves. The dedup tier executes every sampled TLC schedule on real goroutines: one reply per client, a leader's local failure reaches only its own client, one downstream call per generation.",
   design_ref="2.5",
   note="Timing oracle = querytimeout 2 s + 1.5 s margin (generous so that a loaded machine cannot flake); gate-to-gate bursts of one goroutine are not interleaved on the real code; an unanswered UDP query counts only if the engine trace hook shows the engine read it and released its slab without a send."),
 "C12": dict(
   technique="TLA+ specs Ledger.tla (RecursionWorkLedger with every atomic one action: CAS debit as load/compare-and-swap, local checks, first-rejection latch, retain/release/finish and the lazy owner pin, per mode off/shadow/enforce) and ResolveWork.tla (an abstract resolver over adversarial dependency topologies chosen at Init: CNAME/DNAME/NS-address/referral cycles, fan-out, depth, with the code's caps as guards) model-checked exhaustively with TLC (AcceptedNeverExceedsCap, ShadowNeverRejects, FirstRejectionLatched, PublishOnce; Terminates with a decreasing measure, WithinBudget, OverBudgetIsPrivate, ShadowEqualsOff; four mutant configs must fail); TLC call orders replayed on the real ledger, concurrent stress histories validated against Trace_Ledger.tla, and every sampled topology concretised into scripted authoritative servers that count the packets each client query costs the real full pipeline",
   text="Three concurrent debitors on a cap-1 counter and the pin/retain/release lifecycle are exhausted per mode; every topology of the bound (N<=3 exhaustive, N=4 cycle family) is an Init choice and a seeded stratified subset (40 quick, 1,500 thorough) runs through the real default chain in modes off / shadow / enforce with budgets down to 1 and qname-minimisation on and off: upstream packets received <= budget in enforce mode, reply is an answer or SERVFAIL (+EDE) within the deadline, an over-budget SERVFAIL is not served to a second client, shadow replies equal firewall-off replies; DNSSEC decorations (many DNSKEYs, same-tag keys, many RRSIGs, high-iteration NSEC3) ride on small topologies.",
   design_ref="2.6",
   note="Budgets are measured where they matter (datagrams/connections the scripted servers received per client query); topologies beyond 4 nodes are reached only through the unbounded-depth referral generator; DNSSEC operation counts are read from the ledger's own counters (the servers cannot observe them)."),
}

NOT_YET = {}

NOT_APPLICABLE = {
 "C14": "numeric / encode-decode fidelity of pure crypto primitives against a reference: no state machine for a TLA+ model to decide (DESIGN.md section 3)",
 "C15": "byte-for-byte codec parity and buffer hygiene of the pooled packer: encode/decode fidelity and memory aliasing, outside what a TLA+ model + trace binding can decide (DESIGN.md section 3)",
}

def main():
    props = [json.loads(l)["id"] for l in open(os.path.join(ROOT, "properties.jsonl"))]
    checks = []
    for pid in props:
        if pid in CLAIMED:
            c = CLAIMED[pid]
            checks.append({
                "property_id": pid,
                "quick_cmd": "bin/check %s --tier quick" % pid,
                "thorough_cmd": "bin/check %s --tier thorough" % pid,
                "evidence_file": "/verif/evidence/%s.json" % pid,
                "replay_cmd_template": "bin/check %s --replay {path}" % pid,
                "engine": "tlc+go-harness",
                "level_claimed": {"category": c.get("category", "model_checking"), "text": c["text"], "design_ref": "DESIGN.md " + c["design_ref"]},
                "level_note": c["note"],
                "technique": c["technique"],
            })
    na = []
    for pid in props:
        if pid in CLAIMED:
            continue
        if pid in NOT_APPLICABLE:
            na.append({"property_id": pid, "reason": NOT_APPLICABLE[pid]})
        else:
            na.append({"property_id": pid, "reason": NOT_YET.get(pid, "check not built yet in this session (planned in DESIGN.md section 7); not claimed until it runs green on the unchanged tree")})
    commits = subprocess.run(["git", "-C", "/repo", "log", "--format=%H %s"], stdout=subprocess.PIPE, text=True).stdout.splitlines()
    hooks = [c.split()[0] for c in commits if c.split(" ", 1)[1].startswith("verif:")]
    man = {
        "version": 1,
        "setup_cmd": "bin/setup",
        "hooks": {
            "guard": "verif",
            "enable": "go test -tags verif (plus -overlay of /verif/overlay shims); with the tag off every hook is an empty inlined function",
            "baseline_off_cmd": json.load(open("/root/.vp/BASELINE.json"))["cmd"],
            "source_commits": hooks,
            "add_only": True,
        },
        "engines": [{"name": "tlc+go-harness", "path": "/verif/bin/check",
                     "serves_properties": sorted(CLAIMED),
                     "kind_free_text": "TLA+ specs under /verif/tla checked with TLC; Go conformance drivers under /verif/harness (module nested under the repo's path, overlay shims under /verif/overlay) replay TLC behaviours on the real code and record traces that TLC validates"}],
        "checks": checks,
        "not_applicable": na,
        "notes": "Exit codes: 0 held, 1 VIOLATION on the real code, 2 machinery fault (never a violation). Known findings: /verif/known_findings.json.",
    }
    json.dump(man, open(os.path.join(ROOT, "MANIFEST.json"), "w"), indent=1)
    print("claimed:", sorted(CLAIMED), "not claimed:", [x["property_id"] for x in na])

if __name__ == "__main__":
    main()
