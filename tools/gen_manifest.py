#!/usr/bin/env python3
"""Regenerates /verif/MANIFEST.json from the table below (single source)."""
import json, os, subprocess
ROOT = os.path.dirname(os.path.dirname(os.path.abspath(__file__)))

CLAIMED = {
 "C16": dict(
   technique="TLA+ spec (ProbeMap.tla, SegCache.tla) model-checked with TLC; every labelled edge of the TLC state graph and simulated behaviours replayed on the real UInt64Map; TLC-chosen writer schedules forced on the real cache.Cache through verif gate points and the recorded executions validated by TLC against Trace_W2.tla",
   text="TLC exhausts the open-addressing table model (all ops, growth 8->16, wrap-around clusters; all ideal-slot assignments in the thorough tier) and every interleaving of 2-3 SetWithCap writers + Del/CAS/CAD over 2-3 segments for capacities 1..3, checking map refinement, no-dup/reachability, occupancy bound, never-evict-self, one-lock-at-a-time, quiescent length and termination. Conformance binds it to the code in both directions: spec->code replay with layout-exact comparison and code->spec trace validation of gated real executions, with the property predicates evaluated on the real state after every step.",
   design_ref="2.1",
   note="Assumes the per-segment table refines a map (established by ProbeMap on <=16 slots; larger tables only through the gated runs' random keys); real keys are searched to land on the model's ideal slots/segments; schedules are serialised by the gate so lock-free windows inside one gate-to-gate step are not interleaved."),
}

NOT_YET = {}

NOT_APPLICABLE = {
 "C14": "numeric / encode-decode fidelity of pure crypto primitives against a reference: no state machine for a TLA+ model to decide (DESIGN.md section 3)",
 "C15": "byte-for-byte codec parity and buffer hygiene of the pooled packer: encode/decode fidelity and memory aliasing, outside what a TLA+ model + trace binding can decide (DESIGN.md section 3)",
}

def main():
    props = [json.loads(l)["id"] for l in open(os.path.join(ROOT, "properties.jsonl"))]
    checks = []
    for pid in props:
        if pid in CLAIMED:
            c = CLAIMED[pid]
            checks.append({
                "property_id": pid,
                "quick_cmd": "bin/check %s --tier quick" % pid,
                "thorough_cmd": "bin/check %s --tier thorough" % pid,
                "evidence_file": "/verif/evidence/%s.json" % pid,
                "replay_cmd_template": "bin/check %s --replay {path}" % pid,
                "engine": "tlc+go-harness",
                "level_claimed": {"category": c.get("category", "model_checking"), "text": c["text"], "design_ref": "DESIGN.md " + c["design_ref"]},
                "level_note": c["note"],
                "technique": c["technique"],
            })
    na = []
    for pid in props:
        if pid in CLAIMED:
            continue
        if pid in NOT_APPLICABLE:
            na.append({"property_id": pid, "reason": NOT_APPLICABLE[pid]})
        else:
            na.append({"property_id": pid, "reason": NOT_YET.get(pid, "check not built yet in this session (planned in DESIGN.md section 7); not claimed until it runs green on the unchanged tree")})
    commits = subprocess.run(["git", "-C", "/repo", "log", "--format=%H %s"], stdout=subprocess.PIPE, text=True).stdout.splitlines()
    hooks = [c.split()[0] for c in commits if c.split(" ", 1)[1].startswith("verif:")]
    man = {
        "version": 1,
        "setup_cmd": "bin/setup",
        "hooks": {
            "guard": "verif",
            "enable": "go test -tags verif (plus -overlay of /verif/overlay shims); with the tag off every hook is an empty inlined function",
            "baseline_off_cmd": json.load(open("/root/.vp/BASELINE.json"))["cmd"],
            "source_commits": hooks,
            "add_only": True,
        },
        "engines": [{"name": "tlc+go-harness", "path": "/verif/bin/check",
                     "serves_properties": sorted(CLAIMED),
                     "kind_free_text": "TLA+ specs under /verif/tla checked with TLC; Go conformance drivers under /verif/harness (module nested under the repo's path, overlay shims under /verif/overlay) replay TLC behaviours on the real code and record traces that TLC validates"}],
        "checks": checks,
        "not_applicable": na,
        "notes": "Exit codes: 0 held, 1 VIOLATION on the real code, 2 machinery fault (never a violation). Known findings: /verif/known_findings.json.",
    }
    json.dump(man, open(os.path.join(ROOT, "MANIFEST.json"), "w"), indent=1)
    print("claimed:", sorted(CLAIMED), "not claimed:", [x["property_id"] for x in na])

if __name__ == "__main__":
    main()
