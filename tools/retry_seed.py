#!/usr/bin/env python3
"""tools/retry_seed.py <seed-name> <check> [<check> ...]
Re-runs registered quick checks against an already confirmed seeded change (seeded/<name>) and records the outcome
in its meta.json (checks_run / detected_by); the confirmation itself is not repeated."""
import json, os, re, subprocess, sys
V = os.path.dirname(os.path.dirname(os.path.abspath(__file__)))
name = sys.argv[1]
d = os.path.join(V, "seeded", name)
meta = json.load(open(os.path.join(d, "meta.json")))
runs = [r for r in meta.get("checks_run", []) if r["check"] not in sys.argv[2:]]
for pid in sys.argv[2:]:
    t = subprocess.run([os.path.join(V, "tools/try_seed.sh"), d, pid, "quick", "1"], stdout=subprocess.PIPE, stderr=subprocess.STDOUT, text=True)
    print(t.stdout.strip().splitlines()[0] if t.stdout.strip() else "?")
    log = os.path.join(d, "try.%s.quick.log" % pid)
    nv = sum(1 for l in open(log) if l.startswith("VIOLATION")) if os.path.exists(log) else 0
    if os.path.exists(log):
        os.remove(log)
    runs.append({"check": pid, "tier": "quick", "seed": 1, "exit": t.returncode, "violation_lines": nv})
meta["checks_run"] = runs
meta["detected_by"] = sorted({r["check"] for r in runs if r["exit"] == 1})
json.dump(meta, open(os.path.join(d, "meta.json"), "w"), indent=1)
