#!/usr/bin/env python3
"""tools/process_seed.py <seed-dir> [check ...]
Confirms a seeded change (tools/confirm_seed.sh, whole suite) and runs the named checks (default:
the seed's own property) against it (tools/try_seed.sh, quick tier).  A confirmed seed is kept as
/verif/seeded/<name>/ (patch.diff, demo/, demo.cmd, meta.json with what was run and which check
went red)."""
import json, os, re, shutil, subprocess, sys
V = os.path.dirname(os.path.dirname(os.path.abspath(__file__)))
d = os.path.abspath(sys.argv[1]); name = os.path.basename(d)
meta = json.load(open(os.path.join(d, "meta.json")))
checks = sys.argv[2:] or [meta["property"]]
c = subprocess.run([os.path.join(V, "tools/confirm_seed.sh"), d, "full"], stdout=subprocess.PIPE, stderr=subprocess.STDOUT, text=True)
print(c.stdout.strip())
confirmed = c.returncode == 0
runs = []
if confirmed:
    for pid in checks:
        t = subprocess.run([os.path.join(V, "tools/try_seed.sh"), d, pid, "quick", "1"], stdout=subprocess.PIPE, stderr=subprocess.STDOUT, text=True)
        print(t.stdout.strip())
        log = open(os.path.join(d, "try.%s.quick.log" % pid)).read()
        viol = [re.sub(r"replay=\S+", "", l)[:300] for l in log.splitlines() if l.startswith("VIOLATION")]
        what = [l[:400] for l in log.splitlines() if "VIOLATION" not in l and re.search(r"\bviolat|is false|predicate", l, re.I)][:3]
        runs.append({"check": pid, "tier": "quick", "seed": 1, "exit": t.returncode, "violation_lines": len(viol), "first": what[:2]})
meta["confirmed_by_lead"] = {"applies_and_builds": confirmed, "existing_suite": "go test -vet=off -count=1 -timeout 25m ./... (pass)" if confirmed else "see confirm logs",
                             "demo": "fails with the change, passes without (tools/confirm_seed.sh)" if confirmed else c.stdout[-500:]}
meta["checks_run"] = runs
meta["detected_by"] = [r["check"] for r in runs if r["exit"] == 1]
json.dump(meta, open(os.path.join(d, "meta.json"), "w"), indent=1)
if confirmed:
    dst = os.path.join(V, "seeded", name)
    shutil.rmtree(dst, ignore_errors=True)
    os.makedirs(dst)
    for f in ("patch.diff", "demo.cmd", "meta.json"):
        shutil.copy(os.path.join(d, f), dst)
    shutil.copytree(os.path.join(d, "demo"), os.path.join(dst, "demo"))
    print("KEPT", name, "detected_by", meta["detected_by"])
else:
    print("REJECTED", name)
