#!/bin/sh
# tools/try_seed.sh <seed-dir> <property-id> [tier] [seed]
# Runs a registered check against a scratch worktree of /repo with the seeded patch applied.
# Prints the exit code and the VIOLATION lines; removes the worktree afterwards.
set -u
D=$(cd "$1" && pwd); PID=$2; TIER=${3:-quick}; SEED=${4:-1}
WT=$(mktemp -d /tmp/wt-try-XXXXXX); rmdir "$WT"
git -C /repo worktree add -q --detach "$WT" HEAD || exit 2
EV=$(mktemp -d /tmp/ev-try-XXXXXX)
cleanup() { git -C /repo worktree remove --force "$WT" >/dev/null 2>&1; rm -rf "$WT" "$EV"; }
trap cleanup EXIT
(cd "$WT" && git apply "$D"/patch.diff) || { echo "patch does not apply"; exit 2; }
LOG="$D/try.$PID.$TIER.log"
cd /verif && VERIF_SEED=$SEED VERIF_REPO="$WT" VERIF_EVIDENCE_DIR="$EV" bin/check "$PID" --tier "$TIER" > "$LOG" 2>&1
rc=$?
echo "seed=$(basename "$D") check=$PID tier=$TIER exit=$rc violations=$(grep -c '^VIOLATION' "$LOG")"
grep -m3 -E '^VIOLATION|MACHINERY' "$LOG" | cut -c1-400
exit $rc
