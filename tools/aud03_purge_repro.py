import sys
sys.path.insert(0, __import__("os").path.join(__import__("os").path.dirname(__import__("os").path.dirname(__import__("os").path.abspath(__file__))), "lib"))
import vf
ctx = vf.Ctx("C03", "quick", 1)
rc, out = ctx.go_test("./c03", "^TestAuditPurge", timeout=300, extra_args=("-v",))
print("\n".join(l for l in out.splitlines() if l.startswith(("---", "    ", "ok", "FAIL", "PASS"))))
print("rc=%d" % rc)
