"""X12OL -- the validators' per-object work loops (an extension module under C12).

tla/ObjLoop/ObjLoop.tla   verifyDSWithWork (first digest match ends the call), DSAuthenticatedKeysWithWork (visits every
             candidate of every DS), verifyRRSIGWithWork / verifyOneSigWithWork (signatures of an RRset until one
             verifies, same-tag keys of a signature until one verifies) as ONE loop scheme: a call = groups of objects of
             candidates; per candidate CheckDNSKEYCandidate(used) [CheckRRsetSignature(gused)] Begin*() operation
             used++, with the ledger semantics of recursion_work.go for off / shadow / enforce.
  - TLC exhaustive over the whole case space (1..4 same-tag keys with the genuine one at every position or absent, 1..2
    (3) DS records incl. unsupported ones and ones naming an unpublished key, RRsets with up to 4 (5) signatures of which
    the leading ones are stale or forged, 1..3 same-tag signing keys, two RRsets in one message; per-object limits 1..3,
    per-RRset limits, aggregate budgets, three modes): EnforceObjBound, EnforceGroupBound, EnforceAggBound,
    RefusalTerminal, NoOpsAfterRefusal, WorklimitIsARefusal, ShadowOffIsUncapped, VerdictWithoutLimit, RefusalIsNeeded,
    ShadowCounts, OffIsSilent, AggIsOps.  Twelve mutant configs (count only matches = the seeded change C12-3, check after
    the operation, counter not reset per object, refusal swallowed as "bad signature", shadow refusing, Begin's answer
    ignored, stop at the match) must each violate the invariant they are named for.
  - spec -> code (harness/x12ol TestObjLoop): TLC prints every finished case; each is built with REAL same-tag keys
    (a key-tag multi-collision minted once per run), real digests and signatures and run through the REAL functions with
    the production work path (RecursionWorkLedger + resolver.dnssecWorkBudget + CryptoLimiter) behind a counting wrapper.
  - code -> spec: the wrapper's call log, the operation count, the ledger's marks and counter, the outcome class and the
    authenticated key set of every run are compared with the model's behaviour of that case (each case has exactly one
    behaviour): differences are drift.

Verdict classes (all under the C12 statement): object-bound, rrset-bound, aggregate-bound (enforce: operations never exceed
the budgets), refusal-not-terminal / refusal-swallowed (the over-budget outcome is the work-limit failure), shadow-refuses /
shadow-verdict / off-refuses / off-verdict (shadow only counts, replies identical to firewall-off).  DRIFT_CLASSES lists
class names a caller wants reported as drift instead.
"""
import json
import os
import re
from concurrent.futures import ThreadPoolExecutor

import vf

MOD = "ObjLoop"
SPEC = "ObjLoop.tla"
PAR = 8
DRIFT_CLASSES = tuple(x for x in os.environ.get("X12OL_DRIFT_CLASSES", "").split(",") if x)

QUICK = ["MC_RRSIG.cfg", "MC_RRSIG2.cfg", "MC_DSAuth.cfg", "MC_VerifyDS.cfg"]
THOROUGH = ["MC_RRSIG_T.cfg", "MC_RRSIG2_T.cfg", "MC_DSAuth_T.cfg", "MC_VerifyDS_T.cfg"]


def negatives():
    with open(os.path.join(vf.VERIF, "tla", MOD, "negatives.json")) as f:
        return [tuple(x) for x in json.load(f)]


def ensure_overlay(ctx):
    """resolver.VerifX12olWork (overlay/middleware/resolver/verif_x12ol_shim.go) exposes the production adapter."""
    ctx.overlay_tags.add("x12ol")
    ov = os.path.join(ctx.scratch, "overlay.json")
    if os.path.exists(ov):
        with open(ov) as f:
            if "verif_x12ol_shim.go" not in f.read():
                os.remove(ov)


def parallel(jobs):
    with ThreadPoolExecutor(max_workers=PAR) as ex:
        futs = [ex.submit(j) for j in jobs]
        return [f.result() for f in futs]


def model_cases(ctx, cfg, thorough):
    r = ctx.tlc(MOD, SPEC, cfg, workers=4, timeout=900 if not thorough else 2400, heap="4g")
    m = re.search(r"Finished computing initial states: (\d+) distinct state", r.out)
    cases = [c for c in r.printed() if isinstance(c, dict) and "shape" in c and "log" in c]
    if not m or int(m.group(1)) != len(cases) or not cases:
        raise vf.MachineryError("%s: TLC printed %d finished cases for %s initial states" % (cfg, len(cases), m and m.group(1)))
    return cases


def negative(ctx, cfg, want):
    r = ctx.tlc(MOD, SPEC, cfg, workers=1, timeout=600, heap="2g", must_pass=False, count=False, tag="mutant-must-fail")
    if r.violated != want:
        raise vf.MachineryError("%s: the mutant must refute %s on the model, TLC says %r (vacuous invariant?)" % (cfg, want, r.violated))
    return want


def with_apex(ctx, cases, thorough):
    """VerifyApexDNSKEYWithWork is the RRSIG loop over the apex DNSKEY RRset with the DS-authenticated keys as candidates:
    the one-RRset cases are run a second time in that dress (quick: one in three, seeded)."""
    out = []
    for i, c in enumerate(cases):
        if c["fn"] == "RRSIG" and len(c["shape"]) == 1 and (thorough or (i + ctx.seed) % 3 == 0):
            d = dict(c)
            d["variant"] = "apex"
            out.append(d)
    return out


def fold(ctx, res, prefix):
    """ctx.take_driver_result with the DRIFT_CLASSES switch."""
    keep = []
    for v in res.get("violations", []):
        if any(v.get("key", "").endswith("/" + d) for d in DRIFT_CLASSES):
            ctx.cov["drift"] += 1
            ctx.log("DRIFT (class switched off by the caller): %s" % v.get("what"))
        else:
            keep.append(v)
    res = dict(res)
    res["violations"] = keep
    ctx.take_driver_result(res, prefix)


def drive(ctx, cases, name, timeout):
    res = ctx.go_driver("./x12ol", "TestObjLoop", {"cases": cases, "poolWant": 4, "mintBudgetS": 12}, name=name, timeout=timeout)
    fold(ctx, res, "[ObjLoop] ")
    if res.get("skipped"):
        raise vf.MachineryError("x12ol driver could not build cases: %s" % res["skipped"][:3])
    return res


def run_tier(ctx):
    thorough = ctx.tier == "thorough"
    ensure_overlay(ctx)
    ctx.cov["rule"] = (ctx.cov.get("rule", "") + " | X12OL: every case of ObjLoop.tla's exhaustive enumeration (call shape x mode x "
                       "per-object limit x per-RRset limit x aggregate budget) built with real same-tag keys, digests and signatures "
                       "and run through the real validator loops behind the production work adapter; distinct = distinct cases"
                       ).strip(" |")
    ctx.assumptions += [
        "X12OL: an operation = a Begin{DSDigest,Signature} the production adapter granted (the digest / public-key operation "
        "follows unconditionally in runDSDigestMatch / runSignatureVerification); the adapter cannot see WHICH object an "
        "operation belongs to, so the per-object and per-RRset bounds are judged as 'operations of the call <= live objects x "
        "limit' (exact for the one-object / one-RRset cases, which are the majority)",
        "X12OL: the same-tag keys are fresh random ECDSA P-256 keys per run (a key-tag multi-collision); the candidate order "
        "is the validators' own (public key), the harness sorts its pool the same way and checks every built pattern against "
        "miekg/dns (ToDS, RRSIG.Verify) before use",
        "X12OL: the calls share nothing: one ledger per call, so the aggregate budget is the call's own (the resolver spends "
        "one ledger over VerifyDS, DSAuthenticatedKeys and the signature pass of a response and its key fetches)",
    ]
    ctx.spec_dir(MOD)
    negs = negatives()
    cfgs = THOROUGH if thorough else QUICK
    jobs = [lambda c=c: model_cases(ctx, c, thorough) for c in cfgs]
    jobs += [lambda c=c, w=w: negative(ctx, c, w) for c, w in negs]
    # compile the driver while TLC enumerates
    jobs.append(lambda: ctx.go_test("./x12ol", "^TestNothing$", timeout=900))
    out = parallel(jobs)
    rc, build_out = out[-1]
    if rc != 0:
        raise vf.MachineryError("harness/x12ol does not build:\n" + "\n".join(build_out.splitlines()[-40:]))
    cases = []
    per_cfg = {}
    for cfg, cs in zip(cfgs, out[:len(cfgs)]):
        per_cfg[cfg] = len(cs)
        cases += cs
    cases += with_apex(ctx, cases, thorough)
    ctx.log("ObjLoop: %d cases (%s), %d mutants refuted" % (len(cases), ", ".join("%s %d" % kv for kv in per_cfg.items()), len(negs)))
    res = drive(ctx, cases, "objloop", 1800 if thorough else 600)
    c = res.get("counters", {})
    info = {"cases_from_tlc": per_cfg, "cases_run": res.get("cases", 0), "mutants_refuted": {cfg: w for cfg, w in negs},
            "pool_keys": c.get("pool_keys", 0), "keys_generated": c.get("keys_generated", 0), "mint_ms": c.get("mint_ms", 0),
            "run_ms": c.get("run_ms", 0), "operations": c.get("operations", 0), "agree_with_model": c.get("agree_with_model", 0),
            "enforce_refusals": c.get("enforce_refusals", 0), "stopped_exactly_at_the_limit": c.get("enforce_stopped_exactly_at_the_limit", 0),
            "shadow_marked": c.get("shadow_marked", 0), "skipped_pool_too_small": c.get("skipped_pool_too_small", 0),
            "per_function_and_mode": {k[len("cases_"):]: v for k, v in c.items() if k.startswith("cases_")},
            "drift": res.get("drift", 0), "drift_notes": res.get("drift_notes", [])}
    ctx.cov["replay"]["objloop"] = info
    if res.get("drift"):
        ctx.log("DRIFT: %d cases where the real loops and ObjLoop.tla differ without a predicate failing: %s"
                % (res["drift"], res.get("drift_notes", [])[:3]))
    ctx.cov["traces_validated_against_impl"] += c.get("agree_with_model", 0)
    if not res.get("violations"):
        need = ["cases_VerifyDS_enforce", "cases_DSAuth_enforce", "cases_RRSIG_enforce", "cases_RRSIGapex_enforce",
                "cases_DSAuth_shadow", "cases_RRSIG_shadow", "cases_DSAuth_off", "cases_RRSIG_off",
                "enforce_refusals", "enforce_stopped_exactly_at_the_limit", "shadow_marked", "operations"]
        missing = [k for k in need if c.get(k, 0) == 0]
        if missing or info["pool_keys"] < 3:
            raise vf.MachineryError("x12ol replay was vacuous: %s zero, %d same-tag keys (counters %s)" % (missing, info["pool_keys"], c))
        if info["skipped_pool_too_small"] * 2 > len(cases):
            raise vf.MachineryError("x12ol: most cases skipped for want of same-tag keys (%d of %d)" % (info["skipped_pool_too_small"], len(cases)))
    return info


def run(ctx, replay):
    if replay:
        return replay_file(ctx, replay)
    run_tier(ctx)


def replay_file(ctx, path):
    """bin/check X12OL --replay <file>: re-run exactly the recorded case (fresh same-tag keys, same shape and limits)."""
    with open(path) as f:
        rec = json.load(f)
    rp = rec.get("replay", rec)
    if rp.get("driver") != "objloop" or "case" not in rp:
        raise vf.MachineryError("replay file %s: not an X12OL record" % path)
    ensure_overlay(ctx)
    ctx.tlc(MOD, SPEC, "MC_Tiny.cfg", workers=2, timeout=600, heap="2g")
    res = drive(ctx, [rp["case"]], "replay_objloop", 600)
    if not res.get("cases"):
        raise vf.MachineryError("replay: the case was not run (%s)" % res.get("counters"))
    ctx.cov["rule"] = "replay of %s" % path
    ctx.sample({"replayed": path, "driver": "objloop", "case": rp["case"].get("fn")})
    ctx._distinct.update(["replay", path])
