"""X04DP -- the aggressive denial-proof cache (RFC 8198 synthesis) as a lease-composition state machine (serves C04; C02).

tla/DenialProof/DenialProof.tla   middleware/cache/denial_proof_cache.go as the code has it: per signer zone ONE SOA entry
             (a later admission replaces it) and one entry per proof RRset owner, each with its own expiry (the SOA bundle's
             minimum folded into every proof entry), lookup = prune (whole zone when the SOA entry is dead, else the expired
             entries) + evaluate + shape (expires = min over the SOA entry and the proof entries used; TTL of every record =
             expires - now; expires handed to the request tree), Derive / HitDer = an alias whose target the index answers
             (re-cached composed reply), Purge, Tick.  `tru` is the lifetime the property grants a piece, `exp` what the code
             computed; the mutants change exp only.
  - TLC exhaustive (MC_Quick, MC_Insecure; thorough: MC_Full, MC_Two) with `reply` hidden by the VIEW and its predicates as
    action properties: TTLShown, HandDown, NoExpiredPiece, DerivedWithinPieces, DerivedShown, ADOnlyValidated, CoveredOnly,
    EntryWithinTruth, PieceFoldsSoa (at admission).
  - negative twins (each must refute one NAMED predicate): lifetime from the proofs only (= the seeded change C04-r2-1),
    expired SOA still used, derived entry takes the max, SOA replacement keeps the longer expiry, hand-down from the SOA
    only, synthesis from a partial cover, admission without validation, proof entries not folded with the SOA bundle.
  - spec -> code: simulated behaviours per zone family (NSEC, NSEC3, insecure) AND the counter-examples of the negative
    twins are replayed by harness/x04dp on the real pipeline (default chain incl. cache + resolver) against real signed
    zones of harness/authkit; lifetimes are put on the wire by a response hook (SOA TTL / SOA MINIMUM / RRSIG(SOA) window,
    proof TTL / RRSIG(proof) window) and every stamped answer identifies itself in what is later served (SOA serial,
    RRSIG inception).  After every step the index (overlay shim) is compared with the model's state (drift) and the C04
    predicates are judged on the REAL replies against the driver's own oracle.
  - Race = TRUE (gap C02-r3-1): the lookup as the three sections it is -- Begin (the zone's snapshot is captured), the lock-free
    evaluation during which other clients' admissions interleave, the quarantine re-check + shaping (FlSynth / FlMissGet /
    FlResolve / FlPositive) -- with zone changes (Create: another RRset at a proof owner; the question in flight or another
    one turns positive) and the NSEC3 conflict quarantine of recordWithKind (ring removed, tuple tombstoned, admissions
    refused while it lasts; NSEC: latest wins).  MC_Race3 / MC_RaceNsec exhaustive with NoQuarantinedSynthesis and
    QuarantineEmptiesRing; twins: the re-check skips NSEC3 selections (= the seeded change C02-r3-1; counter-examples with a
    type added at the NODATA name and with the NXDOMAIN name created), the conflict leaves the ring in place;
    MC_RaceNsecStale documents (must be refuted) that an NSEC lookup in flight answers from a replaced snapshot.
    The driver parks the real lookup between the capture and the re-check (the denialProofCache.now seam right after the
    capture, or the shared crypto gate inside BeginNSEC3Hash = mid-evaluation), performs the interleaved steps on the real
    zone and pipeline, releases it; c02/denied-existing/quarantined-ring: the released lookup denied a name/type that
    exists from a ring the index had tombstoned before the lookup was released.
Verdict classes (key prefix): c04/ (lifetime: ttl-shown, served-expired, hand-down, derived-outlives, derived-shown),
c02/ (acceptance: wrong-denial, denied-existing), ad/ (AD on a reply of a zone that does not validate).  ONLY = None: every
class is a violation; "C04" / "C02": only that class, the others are reported as out-of-class breaches (exit code unaffected).
"""
import json
import os
import re
from concurrent.futures import ThreadPoolExecutor

import vf

MOD = "DenialProof"
SPEC = "MC_DenialProof.tla"
ONLY = os.environ.get("X04DP_ONLY") or None          # None | "C04" | "C02" (a property check that runs the tier sets it)
UNIT = 10            # seconds per model tick
MAX_DERIVES = 7      # every Derive re-admits the composed reply with whole-second TTLs: up to 1 s of erosion each (see the report);
                     # their sum must stay below one tick for the model's liveness decisions to hold on the code
PAR = 6

NEED = {"ND1": ["p1"], "NX1": ["p1"], "ND2": ["p2"], "NX2": ["p2"], "ND3": ["p3"], "NX3": ["p3"], "NX12": ["p1", "p2"],
        "NX23": ["p2", "p3"], "NX13": ["p1", "p3"], "NX123": ["p1", "p2", "p3"]}
CLASSES = {q: {"rc": "ND" if q.startswith("ND") else "NX", "need": n} for q, n in NEED.items()}
PIECES = ["p1", "p2", "p3"]
# which existing name's RRset each model piece is, per zone family (checked against the zone by the driver's catalogue)
FAMILIES = {
    "nsec": {"zone": "zn.test.", "nsec3": False, "secure": True, "pieces": {"p1": "b", "p2": "", "p3": "d"}},
    "nsec3": {"zone": "z3.test.", "nsec3": True, "secure": True, "pieces": {"p1": "b", "p2": "f", "p3": "d"}},
    "insecure": {"zone": "zi.test.", "nsec3": False, "secure": False, "pieces": {"p1": "b", "p2": "", "p3": "d"}},
}
SIM = {"nsec": "Sim_Nsec.cfg", "nsec3": "Sim_Nsec3.cfg", "insecure": "Sim_Insecure.cfg"}
ALIAS_TTL = 50

# (config, model mutant, the predicate it must refute)
NEG = [("MC_NegProofsOnly.cfg", "ATTLShown"), ("MC_NegProofsOnlyHand.cfg", "AHandDown"),
       ("MC_NegProofsOnlyDerived.cfg", "DerivedWithinPieces"), ("MC_NegExpiredSoa.cfg", "ANoExpiredPiece"), ("MC_NegExpiredPiece.cfg", "ANoExpiredPiece"),
       ("MC_NegDerivedMax.cfg", "DerivedWithinPieces"), ("MC_NegDerivedShown.cfg", "ADerivedShown"),
       ("MC_NegSoaKeepsLonger.cfg", "EntryWithinTruth"), ("MC_NegSoaKeepsLongerTTL.cfg", "ATTLShown"),
       ("MC_NegHandSoaOnly.cfg", "AHandDown"), ("MC_NegUncovered.cfg", "ACoveredOnly"),
       ("MC_NegAdmitUnvalidated.cfg", "AADOnlyValidated"), ("MC_NegNoFold.cfg", "APieceFoldsSoa")]
# the lookup-in-flight dimension (Race = TRUE).  RACE_NEG: twins whose counter-examples are replayed; RACE_DOC: as-built
# behaviour the model documents without demanding the opposite (the config must be refuted, nothing is replayed from it)
RACE_NEG = [("MC_NegRecheckType.cfg", "ANoQuarantinedSynthesis"), ("MC_NegRecheckName.cfg", "ANoQuarantinedSynthesis"),
            ("MC_NegQuarKeepsRing.cfg", "QuarantineEmptiesRing")]
RACE_DOC = [("MC_RaceNsecStale.cfg", "ANoStaleSnapshotDenial")]
RACE_SIM = {"nsec": "Sim_Race_Nsec.cfg", "nsec3": "Sim_Race_Nsec3.cfg"}
KIND = {"nsec": "nsec", "nsec3": "nsec3", "insecure": "nsec"}


def parallel(jobs):
    with ThreadPoolExecutor(max_workers=PAR) as ex:
        futs = [ex.submit(j) for j in jobs]
        return [f.result() for f in futs]


def label_parts(lab):
    lab = lab.strip()
    if "(" not in lab:
        return lab, []
    name, rest = lab.split("(", 1)
    return name, [a.strip().strip('"') for a in rest.rstrip(")").split(",")]


def counterexample(r):
    """[(label, state), ...] of a TLC error trace."""
    parts = re.split(r"\nState (\d+): <(.*?)>\n", r.out)
    out = []
    for i in range(1, len(parts) - 2, 3):
        lab = re.sub(r"\s+line \d+, col.*$", "", parts[i + 1])
        out.append((lab, vf.parse_tla_state(parts[i + 2].split("\n\n")[0])))
    return out


# ---------------------------------------------------------------------------------------------------------------------------
# The base model (Mutant = "none") in Python: gives the expectations for action sequences that do not come with states of
# the base model (the counter-examples of the mutants) and is cross-checked against every state TLC simulates.
class Model:
    def __init__(self, secure=True, maxgen=10 ** 6, kind="nsec"):
        self.now, self.gen, self.soa, self.der = 0, 0, None, None
        self.pf = {p: None for p in PIECES}
        self.secure, self.maxgen, self.kind = secure, maxgen, kind
        self.reply = {"kind": "none"}
        # Race: zone versions per proof owner, the NSEC3 conflict tombstone, the lookup in flight
        self.ver, self.born, self.quar, self.fl = {p: 0 for p in PIECES}, 0, 0, None
        self.event = None       # what the last admission attempt met: "conflict" | "refused" | None

    def quar_active(self):
        return self.kind == "nsec3" and self.quar > self.now

    def live(self, e):
        return e is not None and e["exp"] > self.now

    def covered(self, q):
        return self.live(self.soa) and all(self.live(self.pf[p]) for p in NEED[q])

    def prune(self):
        if self.live(self.soa):
            self.pf = {p: (e if self.live(e) else None) for p, e in self.pf.items()}
        else:
            self.soa, self.pf = None, {p: None for p in PIECES}

    def synth(self, q, route, kind="synth"):
        used = NEED[q]
        exp = min([self.pf[p]["exp"] for p in used] + [self.soa["exp"]])
        rp = {"kind": kind, "q": q, "route": route, "ttl": exp - self.now, "hand": exp, "soaGen": self.soa["g"],
              "gens": {p: self.pf[p]["g"] for p in used},
              "mtru": min([self.pf[p]["tru"] for p in used] + [self.soa["tru"]])}
        self.prune()
        return rp

    def upstream(self, q, s, x):
        self.prune()
        self.gen += 1
        self.event = None
        if self.secure and self.quar_active():
            self.event = "refused"
        elif self.secure:
            conf = [p for p in NEED[q] if self.kind == "nsec3" and self.live(self.pf[p]) and self.pf[p]["v"] != self.ver[p]]
            if conf:
                if len(conf) != 1:
                    raise vf.MachineryError("denial-proof model: %d conflicting RRsets in one bundle (configs keep MaxBorn <= 1)" % len(conf))
                self.event = "conflict"
                self.quar = max(self.now + min(s, x), self.pf[conf[0]]["exp"])
                self.pf = {p: None for p in PIECES}
            else:
                self.soa = {"g": self.gen, "exp": self.now + s, "tru": self.now + s}
                for p in NEED[q]:
                    self.pf[p] = {"g": self.gen, "exp": self.now + min(s, x), "tru": self.now + x, "v": self.ver[p]}
        return {"kind": "resolved", "q": q, "route": "srv", "ttl": min(s, x), "s": s, "x": x}

    def step(self, intent):
        """intent = (name, args) where name in Query / Get / Derive / HitDer / Purge / Tick / DropDer; returns the step for the
        driver (the TLA action that the base model takes) or None when the base model has nothing to do."""
        name, a = intent
        self.event = None
        if name == "Begin":
            q, r = a[0], a[1]
            if self.fl is not None or not self.covered(q):
                return None
            self.fl = {"q": q, "r": r, "soa": dict(self.soa), "pf": {p: (dict(e) if e else None) for p, e in self.pf.items()}, "hit": False}
            self.reply = {"kind": "none"}
            return {"op": "Begin", "q": q, "r": r, "label": 'Begin("%s","%s")' % (q, r)}
        if name == "Create":
            p, tgt = a[0], a[1]
            if tgt == "flight" and (self.fl is None or self.fl["hit"] or p not in NEED[self.fl["q"]]):
                return None
            self.ver[p] += 1
            self.born += 1
            if tgt == "flight":
                self.fl["hit"] = True
            self.reply = {"kind": "none"}
            return {"op": "Create", "p": p, "tgt": tgt, "label": 'Create("%s","%s")' % (p, tgt)}
        if name == "Finish":
            fl = self.fl
            if fl is None:
                return None
            q = fl["q"]
            if not self.quar_active():
                used = NEED[q]
                exp = min([fl["pf"][p]["exp"] for p in used] + [fl["soa"]["exp"]])
                self.reply = {"kind": "synth", "q": q, "route": fl["r"], "ttl": exp - self.now, "hand": exp, "soaGen": fl["soa"]["g"],
                              "gens": {p: fl["pf"][p]["g"] for p in used}, "mtru": min([fl["pf"][p]["tru"] for p in used] + [fl["soa"]["tru"]]),
                              "hit": fl["hit"], "inflight": True,
                              "replaced": any(self.pf[p] is not None and self.pf[p]["v"] != fl["pf"][p]["v"] for p in used)}
                if (self.soa, self.pf) == (fl["soa"], fl["pf"]):
                    self.prune()
                self.fl = None
                return {"op": "Finish", "q": q, "r": fl["r"], "want": "synth", "label": "FlSynth"}
            self.fl = None
            if fl["r"] == "get":
                self.reply = {"kind": "miss", "q": q, "route": "get"}
                return {"op": "Finish", "q": q, "r": "get", "want": "miss", "label": "FlMissGet"}
            if fl["hit"]:
                self.reply = {"kind": "positive", "q": q, "route": "srv"}
                return {"op": "Finish", "q": q, "r": "srv", "want": "positive", "label": "FlPositive"}
            s, x = int(a[0]), int(a[1])
            if self.gen >= self.maxgen:
                self.fl = fl
                return None
            self.reply = self.upstream(q, s, x)
            return {"op": "Finish", "q": q, "r": "srv", "want": "resolved", "s": s, "x": x, "label": "FlResolve(%d,%d)" % (s, x)}
        if self.fl is not None and name not in ("Query", "Purge"):
            return None        # while a lookup is in flight only other clients' misses, zone changes and Purge are scheduled
        if name == "Tick":
            self.now += int(a[0])
            if self.quar <= self.now:
                self.quar = 0
            self.reply = {"kind": "none"}
            return {"op": "Tick", "d": int(a[0]), "label": "Tick(%s)" % a[0]}
        if name == "Purge":
            self.pf = {p: None for p in PIECES}
            self.quar = 0
            self.reply = {"kind": "none"}
            return {"op": "Purge", "label": "Purge"}
        if name == "DropDer":
            if self.der is None or self.der["exp"] > self.now:
                return None
            self.der = None
            return {"op": "DropDer", "label": "DropDer"}
        if name in ("Query", "Get"):
            q, s, x = a[0], int(a[1]), int(a[2])
            route = "get" if name == "Get" else "srv"
            if self.fl is not None and self.covered(q):
                return None
            if self.covered(q):
                self.reply = self.synth(q, route)
                return {"op": "Synth", "q": q, "r": route, "label": 'Synth("%s","%s")' % (q, route)}
            if route == "get":
                self.prune()
                self.reply = {"kind": "miss", "q": q, "route": "get"}
                return {"op": "MissGet", "q": q, "r": "get", "label": 'MissGet("%s")' % q}
            if self.gen >= self.maxgen:
                return None
            self.reply = self.upstream(q, s, x)
            return {"op": "Resolve", "q": q, "r": "srv", "s": s, "x": x, "label": 'Resolve("%s",%d,%d)' % (q, s, x)}
        if name == "Derive":
            q = a[0]
            if not self.covered(q):
                return None
            rp = self.synth(q, "srv", "derive")
            self.der = {"q": q, "exp": min(self.now + ALIAS_TTL, rp["hand"]), "mtru": rp["mtru"]}
            # the composed reply is admitted again: every piece used is cut down to the composed lifetime
            self.soa = dict(self.soa, exp=rp["hand"])
            for p in NEED[q]:
                self.pf[p] = dict(self.pf[p], exp=rp["hand"])
            self.reply = rp
            return {"op": "Derive", "q": q, "r": "srv", "label": 'Derive("%s")' % q}
        if name == "HitDer":
            s, x = (int(a[0]), int(a[1])) if a else (5, 5)
            if self.der is None or self.der["exp"] <= self.now:
                return None
            q = self.der["q"]
            own = {"attl": self.der["exp"] - self.now, "amtru": self.der["mtru"]}
            if CLASSES[q]["rc"] == "NX":
                self.reply = dict(own, kind="derhit", q=q)
                return {"op": "HitDer", "q": q, "r": "srv", "label": "HitDer"}
            if self.covered(q):
                self.reply = dict(self.synth(q, "srv", "derchase"), **own)
                return {"op": "HitDer", "q": q, "r": "srv", "label": "HitDerChase"}
            if self.gen >= self.maxgen:
                return None
            self.reply = self.upstream(q, s, x)
            self.der = None
            return {"op": "HitDerResolve", "q": q, "r": "srv", "s": s, "x": x, "label": "HitDerResolve(%d,%d)" % (s, x)}
        raise vf.MachineryError("denial-proof model: unknown intent %r" % (intent,))

    def exp(self):
        def ent(e):
            return None if e is None else {"g": e["g"], "exp": e["exp"]}
        rp = self.reply
        return {"now": self.now, "gen": self.gen, "soa": ent(self.soa), "pf": {p: ent(e) for p, e in self.pf.items()},
                "quar": self.quar if self.quar_active() else 0,
                "derExp": self.der["exp"] if self.der else 0, "kind": rp.get("kind", "none"),
                "ttl": rp.get("ttl", 0) if rp.get("kind") in ("synth", "derive") else max(rp.get("attl", 0), rp.get("ttl", 0)) if rp.get("kind") in ("derhit", "derchase") else 0,
                "hand": rp.get("hand", 0)}

    def same_as(self, st):
        """Compare with a parsed TLC state of the base model."""
        def ent(e, piece=False):
            if e.get("g", 0) == 0:
                return None
            return dict({"g": e["g"], "exp": e["exp"], "tru": e["tru"]}, **({"v": e["v"]} if piece else {}))
        if st["now"] != self.now or st["gen"] != self.gen or ent(st["soa"]) != self.soa:
            return False
        if {p: ent(e, True) for p, e in st["pf"].items()} != {p: self.pf[p] for p in st["pf"]}:
            return False
        if any(self.pf[p] is not None for p in self.pf if p not in st["pf"]):
            return False
        if st["quar"] != self.quar or st["born"] != self.born or any(st["ver"][p] != self.ver[p] for p in st["ver"]):
            return False
        tfl = st["fl"]
        if (tfl.get("g", 0) == 0) != (self.fl is None):
            return False
        if self.fl is not None and (tfl["q"], tfl["r"], tfl["hit"]) != (self.fl["q"], self.fl["r"], self.fl["hit"]):
            return False
        d = st["der"]
        mine = self.der
        theirs = None if d.get("g", 0) == 0 else {"q": d["q"], "exp": d["exp"], "mtru": d["mtru"]}
        if mine != theirs:
            return False
        rp = st["reply"]
        if rp["kind"] != self.reply.get("kind"):
            return False
        for k in ("ttl", "hand", "soaGen", "gens", "mtru", "attl", "amtru", "hit", "inflight", "replaced"):
            if k in self.reply and k in rp and rp[k] != self.reply[k]:
                return False
        return True


def intent_of(label):
    name, a = label_parts(label)
    if name in ("Synth",):
        return ("Get" if a[1] == "get" else "Query", [a[0], 5, 5])
    if name == "MissGet":
        return ("Get", [a[0], 5, 5])
    if name == "Resolve":
        return ("Query", a)
    if name == "Derive":
        return ("Derive", a)
    if name in ("HitDer", "HitDerChase"):
        return ("HitDer", [])
    if name == "HitDerResolve":
        return ("HitDer", a)
    if name in ("Tick", "Purge", "DropDer", "Begin", "Create"):
        return (name, a)
    if name in ("FlSynth", "FlMissGet", "FlPositive"):
        return ("Finish", [5, 5])
    if name == "FlResolve":
        return ("Finish", a)
    raise vf.MachineryError("denial-proof behaviour: unexpected action %r" % label)


def steps_of(labels, secure, states=None, strict=False, kind="nsec"):
    """Action labels -> driver steps with the base model's expectation after each.  With states (TLC's, of the base model)
    the Python model is cross-checked; strict: the base model must take exactly the labelled action."""
    m = Model(secure=secure, kind=kind)
    out = []
    derives, derived_at = 0, 0
    for i, lab in enumerate(labels):
        stale = m.live(m.soa) and any(e is not None and not m.live(e) for e in m.pf.values())
        retire = m.soa is not None and not m.live(m.soa)
        inflight, blocked = m.fl is not None, m.fl is not None and m.quar_active()
        st = m.step(intent_of(lab))
        if st is None:
            if strict:
                raise vf.MachineryError("the Python model cannot take %s (out of step with DenialProof.tla)" % lab)
            continue
        if strict and st["label"].replace(" ", "") != lab.replace(" ", ""):
            raise vf.MachineryError("the Python model takes %s where TLC took %s" % (st["label"], lab))
        if states is not None and not m.same_as(states[i]):
            raise vf.MachineryError("the Python model and DenialProof.tla disagree after %s: %s vs %s" % (lab, m.__dict__, states[i]))
        if st["op"] == "Derive":
            derives += 1
            if derives > MAX_DERIVES:
                break
        st["exp"] = m.exp()
        lookup = st["op"] in ("Resolve", "MissGet", "Synth", "Derive")
        st["stale"] = stale and lookup      # a lookup that must step over an expired entry
        st["retire"] = retire and lookup    # a lookup that finds the SOA entry dead
        if st["op"] == "Derive":
            derived_at = m.now
        st["late_hit"] = st["op"] in ("HitDer", "HitDerResolve") and m.now > derived_at
        st["mixed"] = m.reply.get("kind") in ("synth", "derive", "derchase") and any(
            g != m.reply["soaGen"] for g in m.reply["gens"].values())
        # the lookup-in-flight dimension
        st["interleaved"] = inflight and st["op"] in ("Resolve", "Purge", "Create")
        st["conflict"] = m.event == "conflict"
        st["conflict_inflight"] = inflight and m.event == "conflict"
        st["refused"] = m.event == "refused"
        st["blocked"] = st["op"] == "Finish" and blocked
        st["born_flight"] = st["op"] == "Create" and st["tgt"] == "flight"
        st["stale_snapshot"] = st["op"] == "Finish" and bool(m.reply.get("replaced"))
        out.append(st)
    if m.fl is not None:
        # a behaviour cut with a lookup still in flight: the driver must not leave it parked
        fin = m.step(("Finish", [5, 5]))
        if fin is not None:
            fin["exp"] = m.exp()
            for f in FLAGS + RACE_FLAGS:
                fin.setdefault(f, False)
            out.append(fin)
    return out


FEATURES = {   # feature -> (weight, cap): a behaviour is worth replaying for the variety of what it does, not for its length
    "mixed": (2, 3),      # a reply composed from pieces of different admissions
    "stale": (6, 3),      # a lookup that must step over an expired entry (SOA live)
    "retire": (5, 2),     # a lookup that finds the SOA entry dead and retires the zone
    "tick": (3, 4),
    "derive": (2, 3),
    "late_hit": (5, 2),   # the alias entry hit after the clock moved
    "hit": (2, 2),
    "purge": (2, 1),
    "get": (1, 2),
    "resolve": (1, 4),
    # Race
    "conflict_inflight": (9, 2),   # an admission met a second RRset at one owner hash while a lookup was in flight
    "blocked": (9, 2),             # the re-check of the released lookup meets the tombstone
    "born_flight": (4, 2),         # the question in flight turned positive
    "conflict": (4, 2),
    "refused": (3, 2),             # an admission refused while the tombstone lasts
    "interleaved": (2, 4),
    "stale_snapshot": (3, 1),      # the snapshot of the released lookup rests on an RRset the index has replaced (as built)
    "finish": (1, 3),
}
RACE_FLAGS = ("interleaved", "conflict", "conflict_inflight", "refused", "blocked", "born_flight", "stale_snapshot")


def features(steps):
    c = dict.fromkeys(FEATURES, 0)
    for s in steps:
        for f in ("mixed", "stale", "retire", "late_hit") + RACE_FLAGS:
            c[f] += 1 if s.get(f) else 0
        c["finish"] += s["op"] == "Finish"
        c["tick"] += s["op"] == "Tick"
        c["derive"] += s["op"] == "Derive"
        c["hit"] += s["op"] in ("HitDer", "HitDerResolve")
        c["purge"] += s["op"] == "Purge"
        c["get"] += s["op"] == "Synth" and s.get("r") == "get"
        c["resolve"] += s["op"] == "Resolve"
    return c


def interest(steps):
    c = features(steps)
    return sum(w * min(c[f], cap) for f, (w, cap) in FEATURES.items())


FLAGS = ("mixed", "stale", "retire", "late_hit")


# ---------------------------------------------------------------------------------------------------------------------------
def model_jobs(ctx, thorough, part="all"):
    """(jobs, post): everything TLC decides on the model alone; the negative twins also yield the counter-examples.
    part = "race": only the lookup-in-flight dimension (what a C02 run adds to its own tiers)."""
    passing, neg = [], []
    if part == "all":
        passing = [("MC_Quick.cfg", 4), ("MC_Insecure.cfg", 1)]
        if thorough:
            passing += [("MC_Full.cfg", 6), ("MC_Two.cfg", 4)]
        neg += NEG
    passing += [("MC_Race3.cfg", 4), ("MC_RaceNsec.cfg", 4)]
    if thorough:
        passing += [("MC_Race3Full.cfg", 6), ("MC_RaceNsecFull.cfg", 6)]
    neg = neg + RACE_NEG + RACE_DOC
    jobs = [lambda c=c, w=w: ctx.tlc(MOD, SPEC, c, workers=w, timeout=1500, heap="6g", tag="exhaustive") for c, w in passing]
    jobs += [lambda c=c: ctx.tlc(MOD, SPEC, c, workers=1, timeout=300, heap="2g", must_pass=False, count=False, tag="negative")
             for c, _ in neg]

    def post(out):
        cex, refuted = [], {}
        for (cfg, want), r in zip(neg, out[len(passing):]):
            if r.violated != want:
                raise vf.MachineryError("negative config %s must refute %s on the model, TLC says %r (vacuous predicate?)" % (cfg, want, r.violated))
            refuted[cfg] = want
            if (cfg, want) in RACE_DOC:
                continue        # documented as-built behaviour: nothing to force on the code
            tr = counterexample(r)
            if len(tr) < 2:
                raise vf.MachineryError("could not read the counter-example of %s" % cfg)
            cex.append((cfg[3:-4], [lab for lab, _ in tr[1:]]))
        ctx.cov["replay"]["denial_proof_model" if part == "all" else "denial_proof_race_model"] = {
            "exhaustive": {c: {"distinct": r.distinct, "generated": r.generated, "depth": r.depth} for (c, _), r in zip(passing, out)},
            "mutants_refute": refuted}
        return cex
    return jobs, post


def sim_behaviours(ctx, family, num, depth, keep, cfgs=SIM):
    behs = ctx.tlc_behaviours(MOD, SPEC, cfgs[family], num=num, depth=depth, timeout=600)
    uniq = {}
    for b in behs:
        labels = [lab for lab, _ in b[1:]]
        if len(labels) < 4:
            continue
        steps = steps_of(labels, FAMILIES[family]["secure"], states=[st for _, st in b[1:]], strict=True, kind=KIND[family])
        key = ";".join(labels)
        uniq.setdefault(key, steps)
    ranked = sorted(uniq.values(), key=lambda s: -interest(s))
    if len(ranked) < min(keep, 4):
        raise vf.MachineryError("only %d distinct behaviours simulated for family %s" % (len(ranked), family))
    return len(behs), ranked[:keep]


def judged(key):
    if ONLY is None:
        return True
    return key.lower().startswith(ONLY.lower() + "/")


def take(ctx, res, prefix):
    """Fold a driver result, routing the verdict classes."""
    keep, other = [], []
    for v in res.get("violations", []):
        (keep if judged(v.get("key", "")) else other).append(v)
    for v in other:
        ctx.log("OUT-OF-CLASS breach (%s; not a predicate of %s, exit code unaffected): %s" % (v.get("key"), ctx.pid, v.get("what")))
    res = dict(res, violations=keep)
    ctx.take_driver_result(res, prefix)
    return keep, other


def replay_tier(ctx, thorough, cex, part="all"):
    plan = {"nsec": (300, 16), "nsec3": (300, 16), "insecure": (12, 3)}
    race_plan = {"nsec3": (400, 8), "nsec": (400, 5)}
    if thorough:
        plan = {"nsec": (900, 160), "nsec3": (900, 160), "insecure": (60, 12)}
        race_plan = {"nsec3": (2000, 48), "nsec": (2000, 24)}
    if part != "all":
        plan = {}
    depth = 22 if not thorough else 30
    fams, rfams = list(plan), list(race_plan)
    sims = parallel([lambda f=f: sim_behaviours(ctx, f, plan[f][0], depth, plan[f][1]) for f in fams] +
                    [lambda f=f: sim_behaviours(ctx, f, race_plan[f][0], 18, race_plan[f][1], cfgs=RACE_SIM) for f in rfams])
    behaviours, info = [], {}
    # the mutants' counter-examples first (on both signed families), then the simulated behaviours
    for fam in ("nsec3", "nsec"):
        for name, labels in cex:
            steps = steps_of(labels, True, kind=KIND[fam])
            if len(steps) >= 2:
                behaviours.append({"id": "cex-%s-%s" % (name, fam), "family": fam, "steps": steps})
    # the headline counter-examples (the seeded re-check change on the NSEC3 family) lead: the driver stops after 6 verdicts
    behaviours.sort(key=lambda b: not (b["id"].startswith("cex-Recheck") and b["family"] == "nsec3"))
    ncex = len(behaviours)
    for fam, (nsim, ranked) in zip(fams + rfams, sims):
        tag = fam if len(info) < len(fams) else "race-" + fam
        for i, steps in enumerate(ranked):
            behaviours.append({"id": "%s-%d" % (tag, i), "family": fam, "steps": steps})
        info[tag] = {"tlc_behaviours": nsim, "replayed": len(ranked), "steps": sum(len(s) for s in ranked),
                     "features": {f: sum(features(s)[f] for s in ranked) for f in FEATURES}}
    for b in behaviours:
        for st in b["steps"]:
            for f in FLAGS + RACE_FLAGS:
                st.pop(f, None)
    inp = {"unit": UNIT, "families": FAMILIES if part == "all" else {f: FAMILIES[f] for f in rfams}, "classes": CLASSES,
           "behaviours": behaviours}
    res = ctx.go_driver("./x04dp", "TestDenialProofReplay", inp, name="dproof_replay" if part == "all" else "dproof_race_replay",
                        timeout=1500 if thorough else 600)
    kept, other = take(ctx, res, "[denial-proof replay] ")
    cnt = res.get("counters", {})
    info.update({"counterexample_behaviours": ncex, "behaviours": len(behaviours), "steps": cnt.get("steps", 0),
                 "counters": {k: v for k, v in cnt.items() if not k.startswith("pool_")},
                 "pools": {k[5:]: v for k, v in cnt.items() if k.startswith("pool_")},
                 "drift": res.get("drift", 0), "drift_notes": res.get("drift_notes", []),
                 "out_of_class_breaches": [v.get("key") for v in other]})
    ctx.cov["replay"]["denial_proof_replay" if part == "all" else "denial_proof_race_replay"] = info
    if kept or other:
        return
    if res.get("skipped"):
        raise vf.MachineryError("denial-proof replay could not run as planned: %s" % res["skipped"][:3])
    ran = sum(cnt.get("behaviours_" + f, 0) for f in set(fams + rfams))
    if ran + cnt.get("pool_exhausted", 0) + cnt.get("create_unrealisable", 0) < len(behaviours):
        raise vf.MachineryError("denial-proof replay ran %d of %d behaviours" % (ran, len(behaviours)))
    need = ["synth_msg", "synth_raw", "synth_get", "synth_nodo", "synth_nx", "synth_nodata", "derive_msg", "derive_raw",
            "derived_entries_audited", "synth_mixed_generations", "states_compared", "behaviours_nsec", "behaviours_nsec3",
            "behaviours_insecure", "existing_probes", "missget"]
    if part != "all":
        need = ["states_compared", "behaviours_nsec", "behaviours_nsec3"]
    # the lookup-in-flight dimension must really have been forced on the code: lookups parked at both seams, admissions and
    # zone changes of both shapes in between, the quarantine met by an admission and by the re-check of a released lookup
    need += ["inflight_parked_clock", "inflight_parked_hash", "inflight_interleaved_admissions", "inflight_conflict_admissions",
             "inflight_blocked_by_quarantine", "inflight_synth", "inflight_hit_judged", "create_type", "create_name",
             "quarantine_observed"]       # (all of them are met by the twins' counter-examples alone, whatever the seed)
    miss = [k for k in need if not cnt.get(k)]
    if part == "all" and not (cnt.get("hitder_msg", 0) + cnt.get("hitder_raw", 0)):
        miss.append("hitder_*")
    if miss:
        raise vf.MachineryError("denial-proof replay is vacuous: no %s (counters %s)" % (miss, info["counters"]))
    if part == "all" and cnt.get("synth_mixed_generations", 0) < 8:
        raise vf.MachineryError("denial-proof replay: only %d replies synthesised from pieces of different admissions (vacuous)"
                                % cnt.get("synth_mixed_generations", 0))
    if cnt.get("behaviours_drifted", 0) > max(3, len(behaviours) // 4):
        raise vf.MachineryError("denial-proof replay: %d of %d behaviours drifted from the model (binding lost): %s" % (
            cnt["behaviours_drifted"], len(behaviours), res.get("drift_notes", [])[:4]))


def ensure_overlay(ctx):
    ctx.overlay_tags.add("x04dp")
    ov = os.path.join(ctx.scratch, "overlay.json")
    if os.path.exists(ov):
        with open(ov) as f:
            if "verif_x04dp_shim.go" not in f.read():
                os.remove(ov)


def run_replay(ctx, path):
    """bin/check --replay: re-run exactly the recorded behaviour.  Returns False when the file is not of this tier."""
    with open(path) as f:
        rec = json.load(f)
    rp = rec.get("replay", rec)
    if not (isinstance(rp, dict) and rp.get("driver") == "x04dp" and "input" in rp):
        return False
    ensure_overlay(ctx)
    ctx.tlc(MOD, SPEC, "MC_Insecure.cfg", workers=1, timeout=300, heap="2g", tag="replay-sanity")
    res = ctx.go_driver("./x04dp", "TestDenialProofReplay", rp["input"], name="dproof_replay_file", timeout=600)
    take(ctx, res, "[replay] ")
    if res.get("skipped"):
        raise vf.MachineryError("denial-proof replay file could not run: %s" % res["skipped"][:3])
    ctx.cov["replay"]["replayed_file"] = path
    ctx._distinct.add("replay:" + path)
    return True


def run_tier(ctx):
    thorough = ctx.tier == "thorough"
    ensure_overlay(ctx)
    ctx.cov["rule"] = (ctx.cov.get("rule", "") + " | X04DP: behaviours = TLC simulated admission/time/query histories of "
                       "DenialProof.tla per zone family and the counter-examples of its mutants, replayed on the real default "
                       "chain (cache + resolver) against real signed zones (distinct = distinct outcome sequences per family)").strip(" |")
    ctx.assumptions += [
        "X04DP: the clock moves by shifting the timestamps the cache store holds at rest, at quiescent points; RRSIG validity "
        "windows are real-time, every admission is signed afresh by the scripted authority",
        "X04DP: every question is fresh (no exact entry, no subtree cut above it), so the denial-proof index is the rung that "
        "answers; capacity eviction of the index (8 RRsets per zone at this cache size) is not reached (<= 6 per zone)",
        "X04DP: a DO-less synthesised reply does not show its proof records; the latest-ending admission of each needed owner "
        "bounds it",
    ]
    part = os.environ.get("X04DP_PART", "all")      # "race": only the lookup-in-flight dimension (development aid)
    jobs, post = model_jobs(ctx, thorough, part=part)
    cex = post(parallel(jobs))
    replay_tier(ctx, thorough, cex, part=part)


def run_race_tier(ctx):
    """What a C02 run adds to its own tiers (checks/c02.py): the lookup-in-flight dimension only -- Race configs, their
    twins, the counter-examples and simulated Race behaviours on the real pipeline; class c02/ decides the exit code."""
    global ONLY
    ONLY = "C02"
    thorough = ctx.tier == "thorough"
    ensure_overlay(ctx)
    ctx.assumptions += [
        "X04DP (Race): a lookup is parked either in the index clock read right after the snapshot was captured (overlay: "
        "denialProofCache.now) or in the shared crypto gate inside the production BeginNSEC3Hash of its first NSEC3 hash "
        "(mid-evaluation); the evaluation reads the immutable snapshot only, so everything scheduled between the capture "
        "and the re-check is performed at that one point; the clock does not move while a lookup is parked",
        "X04DP (Race): a zone change is a type added at the existing name of a proof owner or a name created inside its "
        "span on the live authority (real re-signed chain); 'exists' is the authority's zone at the instant the lookup is "
        "released; a denial of it is a violation only when the index had tombstoned the ring before the release",
    ]
    jobs, post = model_jobs(ctx, thorough, part="race")
    cex = post(parallel(jobs))
    replay_tier(ctx, thorough, cex, part="race")


def run(ctx, replay_path):
    if replay_path:
        if not run_replay(ctx, replay_path):
            raise vf.MachineryError("replay file %s is not an x04dp replay" % replay_path)
        return
    run_tier(ctx)
