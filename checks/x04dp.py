"""X04DP -- the aggressive denial-proof cache (RFC 8198 synthesis) as a lease-composition state machine (serves C04; C02).

tla/DenialProof/DenialProof.tla   middleware/cache/denial_proof_cache.go as the code has it: per signer zone ONE SOA entry
             (a later admission replaces it) and one entry per proof RRset owner, each with its own expiry (the SOA bundle's
             minimum folded into every proof entry), lookup = prune (whole zone when the SOA entry is dead, else the expired
             entries) + evaluate + shape (expires = min over the SOA entry and the proof entries used; TTL of every record =
             expires - now; expires handed to the request tree), Derive / HitDer = an alias whose target the index answers
             (re-cached composed reply), Purge, Tick.  `tru` is the lifetime the property grants a piece, `exp` what the code
             computed; the mutants change exp only.
  - TLC exhaustive (MC_Quick, MC_Insecure; thorough: MC_Full, MC_Two) with `reply` hidden by the VIEW and its predicates as
    action properties: TTLShown, HandDown, NoExpiredPiece, DerivedWithinPieces, DerivedShown, ADOnlyValidated, CoveredOnly,
    EntryWithinTruth, PieceFoldsSoa (at admission).
  - negative twins (each must refute one NAMED predicate): lifetime from the proofs only (= the seeded change C04-r2-1),
    expired SOA still used, derived entry takes the max, SOA replacement keeps the longer expiry, hand-down from the SOA
    only, synthesis from a partial cover, admission without validation, proof entries not folded with the SOA bundle.
  - spec -> code: simulated behaviours per zone family (NSEC, NSEC3, insecure) AND the counter-examples of the negative
    twins are replayed by harness/x04dp on the real pipeline (default chain incl. cache + resolver) against real signed
    zones of harness/authkit; lifetimes are put on the wire by a response hook (SOA TTL / SOA MINIMUM / RRSIG(SOA) window,
    proof TTL / RRSIG(proof) window) and every stamped answer identifies itself in what is later served (SOA serial,
    RRSIG inception).  After every step the index (overlay shim) is compared with the model's state (drift) and the C04
    predicates are judged on the REAL replies against the driver's own oracle.
Verdict classes (key prefix): c04/ (lifetime: ttl-shown, served-expired, hand-down, derived-outlives, derived-shown),
c02/ (acceptance: wrong-denial, denied-existing), ad/ (AD on a reply of a zone that does not validate).  ONLY = None: every
class is a violation; "C04" / "C02": only that class, the others are reported as out-of-class breaches (exit code unaffected).
"""
import json
import os
import re
from concurrent.futures import ThreadPoolExecutor

import vf

MOD = "DenialProof"
SPEC = "MC_DenialProof.tla"
ONLY = os.environ.get("X04DP_ONLY") or None          # None | "C04" | "C02" (a property check that runs the tier sets it)
UNIT = 10            # seconds per model tick
MAX_DERIVES = 7      # every Derive re-admits the composed reply with whole-second TTLs: up to 1 s of erosion each (see the report);
                     # their sum must stay below one tick for the model's liveness decisions to hold on the code
PAR = 6

NEED = {"ND1": ["p1"], "NX1": ["p1"], "ND2": ["p2"], "NX2": ["p2"], "ND3": ["p3"], "NX3": ["p3"], "NX12": ["p1", "p2"],
        "NX23": ["p2", "p3"], "NX13": ["p1", "p3"], "NX123": ["p1", "p2", "p3"]}
CLASSES = {q: {"rc": "ND" if q.startswith("ND") else "NX", "need": n} for q, n in NEED.items()}
PIECES = ["p1", "p2", "p3"]
# which existing name's RRset each model piece is, per zone family (checked against the zone by the driver's catalogue)
FAMILIES = {
    "nsec": {"zone": "zn.test.", "nsec3": False, "secure": True, "pieces": {"p1": "b", "p2": "", "p3": "d"}},
    "nsec3": {"zone": "z3.test.", "nsec3": True, "secure": True, "pieces": {"p1": "b", "p2": "f", "p3": "d"}},
    "insecure": {"zone": "zi.test.", "nsec3": False, "secure": False, "pieces": {"p1": "b", "p2": "", "p3": "d"}},
}
SIM = {"nsec": "Sim_Nsec.cfg", "nsec3": "Sim_Nsec3.cfg", "insecure": "Sim_Insecure.cfg"}
ALIAS_TTL = 50

# (config, model mutant, the predicate it must refute)
NEG = [("MC_NegProofsOnly.cfg", "ATTLShown"), ("MC_NegProofsOnlyHand.cfg", "AHandDown"),
       ("MC_NegProofsOnlyDerived.cfg", "DerivedWithinPieces"), ("MC_NegExpiredSoa.cfg", "ANoExpiredPiece"), ("MC_NegExpiredPiece.cfg", "ANoExpiredPiece"),
       ("MC_NegDerivedMax.cfg", "DerivedWithinPieces"), ("MC_NegDerivedShown.cfg", "ADerivedShown"),
       ("MC_NegSoaKeepsLonger.cfg", "EntryWithinTruth"), ("MC_NegSoaKeepsLongerTTL.cfg", "ATTLShown"),
       ("MC_NegHandSoaOnly.cfg", "AHandDown"), ("MC_NegUncovered.cfg", "ACoveredOnly"),
       ("MC_NegAdmitUnvalidated.cfg", "AADOnlyValidated"), ("MC_NegNoFold.cfg", "APieceFoldsSoa")]


def parallel(jobs):
    with ThreadPoolExecutor(max_workers=PAR) as ex:
        futs = [ex.submit(j) for j in jobs]
        return [f.result() for f in futs]


def label_parts(lab):
    lab = lab.strip()
    if "(" not in lab:
        return lab, []
    name, rest = lab.split("(", 1)
    return name, [a.strip().strip('"') for a in rest.rstrip(")").split(",")]


def counterexample(r):
    """[(label, state), ...] of a TLC error trace."""
    parts = re.split(r"\nState (\d+): <(.*?)>\n", r.out)
    out = []
    for i in range(1, len(parts) - 2, 3):
        lab = re.sub(r"\s+line \d+, col.*$", "", parts[i + 1])
        out.append((lab, vf.parse_tla_state(parts[i + 2].split("\n\n")[0])))
    return out


# ---------------------------------------------------------------------------------------------------------------------------
# The base model (Mutant = "none") in Python: gives the expectations for action sequences that do not come with states of
# the base model (the counter-examples of the mutants) and is cross-checked against every state TLC simulates.
class Model:
    def __init__(self, secure=True, maxgen=10 ** 6):
        self.now, self.gen, self.soa, self.der = 0, 0, None, None
        self.pf = {p: None for p in PIECES}
        self.secure, self.maxgen = secure, maxgen
        self.reply = {"kind": "none"}

    def live(self, e):
        return e is not None and e["exp"] > self.now

    def covered(self, q):
        return self.live(self.soa) and all(self.live(self.pf[p]) for p in NEED[q])

    def prune(self):
        if self.live(self.soa):
            self.pf = {p: (e if self.live(e) else None) for p, e in self.pf.items()}
        else:
            self.soa, self.pf = None, {p: None for p in PIECES}

    def synth(self, q, route, kind="synth"):
        used = NEED[q]
        exp = min([self.pf[p]["exp"] for p in used] + [self.soa["exp"]])
        rp = {"kind": kind, "q": q, "route": route, "ttl": exp - self.now, "hand": exp, "soaGen": self.soa["g"],
              "gens": {p: self.pf[p]["g"] for p in used},
              "mtru": min([self.pf[p]["tru"] for p in used] + [self.soa["tru"]])}
        self.prune()
        return rp

    def upstream(self, q, s, x):
        self.prune()
        self.gen += 1
        if self.secure:
            self.soa = {"g": self.gen, "exp": self.now + s, "tru": self.now + s}
            for p in NEED[q]:
                self.pf[p] = {"g": self.gen, "exp": self.now + min(s, x), "tru": self.now + x}
        return {"kind": "resolved", "q": q, "route": "srv", "ttl": min(s, x), "s": s, "x": x}

    def step(self, intent):
        """intent = (name, args) where name in Query / Get / Derive / HitDer / Purge / Tick / DropDer; returns the step for the
        driver (the TLA action that the base model takes) or None when the base model has nothing to do."""
        name, a = intent
        if name == "Tick":
            self.now += int(a[0])
            self.reply = {"kind": "none"}
            return {"op": "Tick", "d": int(a[0]), "label": "Tick(%s)" % a[0]}
        if name == "Purge":
            self.pf = {p: None for p in PIECES}
            self.reply = {"kind": "none"}
            return {"op": "Purge", "label": "Purge"}
        if name == "DropDer":
            if self.der is None or self.der["exp"] > self.now:
                return None
            self.der = None
            return {"op": "DropDer", "label": "DropDer"}
        if name in ("Query", "Get"):
            q, s, x = a[0], int(a[1]), int(a[2])
            route = "get" if name == "Get" else "srv"
            if self.covered(q):
                self.reply = self.synth(q, route)
                return {"op": "Synth", "q": q, "r": route, "label": 'Synth("%s","%s")' % (q, route)}
            if route == "get":
                self.prune()
                self.reply = {"kind": "miss", "q": q, "route": "get"}
                return {"op": "MissGet", "q": q, "r": "get", "label": 'MissGet("%s")' % q}
            if self.gen >= self.maxgen:
                return None
            self.reply = self.upstream(q, s, x)
            return {"op": "Resolve", "q": q, "r": "srv", "s": s, "x": x, "label": 'Resolve("%s",%d,%d)' % (q, s, x)}
        if name == "Derive":
            q = a[0]
            if not self.covered(q):
                return None
            rp = self.synth(q, "srv", "derive")
            self.der = {"q": q, "exp": min(self.now + ALIAS_TTL, rp["hand"]), "mtru": rp["mtru"]}
            # the composed reply is admitted again: every piece used is cut down to the composed lifetime
            self.soa = dict(self.soa, exp=rp["hand"])
            for p in NEED[q]:
                self.pf[p] = dict(self.pf[p], exp=rp["hand"])
            self.reply = rp
            return {"op": "Derive", "q": q, "r": "srv", "label": 'Derive("%s")' % q}
        if name == "HitDer":
            s, x = (int(a[0]), int(a[1])) if a else (5, 5)
            if self.der is None or self.der["exp"] <= self.now:
                return None
            q = self.der["q"]
            own = {"attl": self.der["exp"] - self.now, "amtru": self.der["mtru"]}
            if CLASSES[q]["rc"] == "NX":
                self.reply = dict(own, kind="derhit", q=q)
                return {"op": "HitDer", "q": q, "r": "srv", "label": "HitDer"}
            if self.covered(q):
                self.reply = dict(self.synth(q, "srv", "derchase"), **own)
                return {"op": "HitDer", "q": q, "r": "srv", "label": "HitDerChase"}
            if self.gen >= self.maxgen:
                return None
            self.reply = self.upstream(q, s, x)
            self.der = None
            return {"op": "HitDerResolve", "q": q, "r": "srv", "s": s, "x": x, "label": "HitDerResolve(%d,%d)" % (s, x)}
        raise vf.MachineryError("denial-proof model: unknown intent %r" % (intent,))

    def exp(self):
        def ent(e):
            return None if e is None else {"g": e["g"], "exp": e["exp"]}
        rp = self.reply
        return {"now": self.now, "gen": self.gen, "soa": ent(self.soa), "pf": {p: ent(e) for p, e in self.pf.items()},
                "derExp": self.der["exp"] if self.der else 0, "kind": rp.get("kind", "none"),
                "ttl": rp.get("ttl", 0) if rp.get("kind") in ("synth", "derive") else max(rp.get("attl", 0), rp.get("ttl", 0)) if rp.get("kind") in ("derhit", "derchase") else 0,
                "hand": rp.get("hand", 0)}

    def same_as(self, st):
        """Compare with a parsed TLC state of the base model."""
        def ent(e):
            return None if e.get("g", 0) == 0 else {"g": e["g"], "exp": e["exp"], "tru": e["tru"]}
        if st["now"] != self.now or st["gen"] != self.gen or ent(st["soa"]) != self.soa:
            return False
        if {p: ent(e) for p, e in st["pf"].items()} != self.pf:
            return False
        d = st["der"]
        mine = self.der
        theirs = None if d.get("g", 0) == 0 else {"q": d["q"], "exp": d["exp"], "mtru": d["mtru"]}
        if mine != theirs:
            return False
        rp = st["reply"]
        if rp["kind"] != self.reply.get("kind"):
            return False
        for k in ("ttl", "hand", "soaGen", "gens", "mtru", "attl", "amtru"):
            if k in self.reply and k in rp and rp[k] != self.reply[k]:
                return False
        return True


def intent_of(label):
    name, a = label_parts(label)
    if name in ("Synth",):
        return ("Get" if a[1] == "get" else "Query", [a[0], 5, 5])
    if name == "MissGet":
        return ("Get", [a[0], 5, 5])
    if name == "Resolve":
        return ("Query", a)
    if name == "Derive":
        return ("Derive", a)
    if name in ("HitDer", "HitDerChase"):
        return ("HitDer", [])
    if name == "HitDerResolve":
        return ("HitDer", a)
    if name in ("Tick", "Purge", "DropDer"):
        return (name, a)
    raise vf.MachineryError("denial-proof behaviour: unexpected action %r" % label)


def steps_of(labels, secure, states=None, strict=False):
    """Action labels -> driver steps with the base model's expectation after each.  With states (TLC's, of the base model)
    the Python model is cross-checked; strict: the base model must take exactly the labelled action."""
    m = Model(secure=secure)
    out = []
    derives, derived_at = 0, 0
    for i, lab in enumerate(labels):
        stale = m.live(m.soa) and any(e is not None and not m.live(e) for e in m.pf.values())
        retire = m.soa is not None and not m.live(m.soa)
        st = m.step(intent_of(lab))
        if st is None:
            if strict:
                raise vf.MachineryError("the Python model cannot take %s (out of step with DenialProof.tla)" % lab)
            continue
        if strict and st["label"].replace(" ", "") != lab.replace(" ", ""):
            raise vf.MachineryError("the Python model takes %s where TLC took %s" % (st["label"], lab))
        if states is not None and not m.same_as(states[i]):
            raise vf.MachineryError("the Python model and DenialProof.tla disagree after %s: %s vs %s" % (lab, m.__dict__, states[i]))
        if st["op"] == "Derive":
            derives += 1
            if derives > MAX_DERIVES:
                break
        st["exp"] = m.exp()
        lookup = st["op"] in ("Resolve", "MissGet", "Synth", "Derive")
        st["stale"] = stale and lookup      # a lookup that must step over an expired entry
        st["retire"] = retire and lookup    # a lookup that finds the SOA entry dead
        if st["op"] == "Derive":
            derived_at = m.now
        st["late_hit"] = st["op"] in ("HitDer", "HitDerResolve") and m.now > derived_at
        st["mixed"] = m.reply.get("kind") in ("synth", "derive", "derchase") and any(
            g != m.reply["soaGen"] for g in m.reply["gens"].values())
        out.append(st)
    return out


FEATURES = {   # feature -> (weight, cap): a behaviour is worth replaying for the variety of what it does, not for its length
    "mixed": (2, 3),      # a reply composed from pieces of different admissions
    "stale": (6, 3),      # a lookup that must step over an expired entry (SOA live)
    "retire": (5, 2),     # a lookup that finds the SOA entry dead and retires the zone
    "tick": (3, 4),
    "derive": (2, 3),
    "late_hit": (5, 2),   # the alias entry hit after the clock moved
    "hit": (2, 2),
    "purge": (2, 1),
    "get": (1, 2),
    "resolve": (1, 4),
}


def features(steps):
    c = dict.fromkeys(FEATURES, 0)
    for s in steps:
        for f in ("mixed", "stale", "retire", "late_hit"):
            c[f] += 1 if s.get(f) else 0
        c["tick"] += s["op"] == "Tick"
        c["derive"] += s["op"] == "Derive"
        c["hit"] += s["op"] in ("HitDer", "HitDerResolve")
        c["purge"] += s["op"] == "Purge"
        c["get"] += s["op"] == "Synth" and s.get("r") == "get"
        c["resolve"] += s["op"] == "Resolve"
    return c


def interest(steps):
    c = features(steps)
    return sum(w * min(c[f], cap) for f, (w, cap) in FEATURES.items())


FLAGS = ("mixed", "stale", "retire", "late_hit")


# ---------------------------------------------------------------------------------------------------------------------------
def model_jobs(ctx, thorough):
    """(jobs, post): everything TLC decides on the model alone; the negative twins also yield the counter-examples."""
    passing = [("MC_Quick.cfg", 4), ("MC_Insecure.cfg", 1)]
    if thorough:
        passing += [("MC_Full.cfg", 6), ("MC_Two.cfg", 4)]
    jobs = [lambda c=c, w=w: ctx.tlc(MOD, SPEC, c, workers=w, timeout=1500, heap="6g", tag="exhaustive") for c, w in passing]
    jobs += [lambda c=c: ctx.tlc(MOD, SPEC, c, workers=1, timeout=300, heap="2g", must_pass=False, count=False, tag="negative")
             for c, _ in NEG]

    def post(out):
        cex, refuted = [], {}
        for (cfg, want), r in zip(NEG, out[len(passing):]):
            if r.violated != want:
                raise vf.MachineryError("negative config %s must refute %s on the model, TLC says %r (vacuous predicate?)" % (cfg, want, r.violated))
            refuted[cfg] = want
            tr = counterexample(r)
            if len(tr) < 2:
                raise vf.MachineryError("could not read the counter-example of %s" % cfg)
            cex.append((cfg[3:-4], [lab for lab, _ in tr[1:]]))
        ctx.cov["replay"]["denial_proof_model"] = {
            "exhaustive": {c: {"distinct": r.distinct, "generated": r.generated, "depth": r.depth} for (c, _), r in zip(passing, out)},
            "mutants_refute": refuted}
        return cex
    return jobs, post


def sim_behaviours(ctx, family, num, depth, keep):
    behs = ctx.tlc_behaviours(MOD, SPEC, SIM[family], num=num, depth=depth, timeout=600)
    uniq = {}
    for b in behs:
        labels = [lab for lab, _ in b[1:]]
        if len(labels) < 4:
            continue
        steps = steps_of(labels, FAMILIES[family]["secure"], states=[st for _, st in b[1:]], strict=True)
        key = ";".join(labels)
        uniq.setdefault(key, steps)
    ranked = sorted(uniq.values(), key=lambda s: -interest(s))
    if len(ranked) < min(keep, 4):
        raise vf.MachineryError("only %d distinct behaviours simulated for family %s" % (len(ranked), family))
    return len(behs), ranked[:keep]


def judged(key):
    if ONLY is None:
        return True
    return key.lower().startswith(ONLY.lower() + "/")


def take(ctx, res, prefix):
    """Fold a driver result, routing the verdict classes."""
    keep, other = [], []
    for v in res.get("violations", []):
        (keep if judged(v.get("key", "")) else other).append(v)
    for v in other:
        ctx.log("OUT-OF-CLASS breach (%s; not a predicate of %s, exit code unaffected): %s" % (v.get("key"), ctx.pid, v.get("what")))
    res = dict(res, violations=keep)
    ctx.take_driver_result(res, prefix)
    return keep, other


def replay_tier(ctx, thorough, cex):
    plan = {"nsec": (300, 16), "nsec3": (300, 16), "insecure": (12, 3)}
    if thorough:
        plan = {"nsec": (900, 160), "nsec3": (900, 160), "insecure": (60, 12)}
    depth = 22 if not thorough else 30
    fams = list(plan)
    sims = parallel([lambda f=f: sim_behaviours(ctx, f, plan[f][0], depth, plan[f][1]) for f in fams])
    behaviours, info = [], {}
    # the mutants' counter-examples first (on both signed families), then the simulated behaviours
    for fam in ("nsec", "nsec3"):
        for name, labels in cex:
            steps = steps_of(labels, True)
            if len(steps) >= 2:
                behaviours.append({"id": "cex-%s-%s" % (name, fam), "family": fam, "steps": steps})
    ncex = len(behaviours)
    for fam, (nsim, ranked) in zip(fams, sims):
        for i, steps in enumerate(ranked):
            behaviours.append({"id": "%s-%d" % (fam, i), "family": fam, "steps": steps})
        info[fam] = {"tlc_behaviours": nsim, "replayed": len(ranked), "steps": sum(len(s) for s in ranked),
                     "features": {f: sum(features(s)[f] for s in ranked) for f in FEATURES}}
    for b in behaviours:
        for st in b["steps"]:
            for f in FLAGS:
                st.pop(f, None)
    inp = {"unit": UNIT, "families": FAMILIES, "classes": CLASSES, "behaviours": behaviours}
    res = ctx.go_driver("./x04dp", "TestDenialProofReplay", inp, name="dproof_replay", timeout=1500 if thorough else 600)
    kept, other = take(ctx, res, "[denial-proof replay] ")
    cnt = res.get("counters", {})
    info.update({"counterexample_behaviours": ncex, "behaviours": len(behaviours), "steps": cnt.get("steps", 0),
                 "counters": {k: v for k, v in cnt.items() if not k.startswith("pool_")},
                 "pools": {k[5:]: v for k, v in cnt.items() if k.startswith("pool_")},
                 "drift": res.get("drift", 0), "drift_notes": res.get("drift_notes", []),
                 "out_of_class_breaches": [v.get("key") for v in other]})
    ctx.cov["replay"]["denial_proof_replay"] = info
    if kept or other:
        return
    if res.get("skipped"):
        raise vf.MachineryError("denial-proof replay could not run as planned: %s" % res["skipped"][:3])
    ran = sum(cnt.get("behaviours_" + f, 0) for f in fams)
    if ran + cnt.get("pool_exhausted", 0) < len(behaviours):
        raise vf.MachineryError("denial-proof replay ran %d of %d behaviours" % (ran, len(behaviours)))
    need = ["synth_msg", "synth_raw", "synth_get", "synth_nodo", "synth_nx", "synth_nodata", "derive_msg", "derive_raw",
            "derived_entries_audited", "synth_mixed_generations", "states_compared", "behaviours_nsec", "behaviours_nsec3",
            "behaviours_insecure", "existing_probes", "missget"]
    miss = [k for k in need if not cnt.get(k)]
    if not (cnt.get("hitder_msg", 0) + cnt.get("hitder_raw", 0)):
        miss.append("hitder_*")
    if miss:
        raise vf.MachineryError("denial-proof replay is vacuous: no %s (counters %s)" % (miss, info["counters"]))
    if cnt.get("synth_mixed_generations", 0) < 8:
        raise vf.MachineryError("denial-proof replay: only %d replies synthesised from pieces of different admissions (vacuous)"
                                % cnt.get("synth_mixed_generations", 0))
    if cnt.get("behaviours_drifted", 0) > max(3, len(behaviours) // 4):
        raise vf.MachineryError("denial-proof replay: %d of %d behaviours drifted from the model (binding lost): %s" % (
            cnt["behaviours_drifted"], len(behaviours), res.get("drift_notes", [])[:4]))


def ensure_overlay(ctx):
    ctx.overlay_tags.add("x04dp")
    ov = os.path.join(ctx.scratch, "overlay.json")
    if os.path.exists(ov):
        with open(ov) as f:
            if "verif_x04dp_shim.go" not in f.read():
                os.remove(ov)


def run_replay(ctx, path):
    """bin/check --replay: re-run exactly the recorded behaviour.  Returns False when the file is not of this tier."""
    with open(path) as f:
        rec = json.load(f)
    rp = rec.get("replay", rec)
    if not (isinstance(rp, dict) and rp.get("driver") == "x04dp" and "input" in rp):
        return False
    ensure_overlay(ctx)
    ctx.tlc(MOD, SPEC, "MC_Insecure.cfg", workers=1, timeout=300, heap="2g", tag="replay-sanity")
    res = ctx.go_driver("./x04dp", "TestDenialProofReplay", rp["input"], name="dproof_replay_file", timeout=600)
    take(ctx, res, "[replay] ")
    if res.get("skipped"):
        raise vf.MachineryError("denial-proof replay file could not run: %s" % res["skipped"][:3])
    ctx.cov["replay"]["replayed_file"] = path
    ctx._distinct.add("replay:" + path)
    return True


def run_tier(ctx):
    thorough = ctx.tier == "thorough"
    ensure_overlay(ctx)
    ctx.cov["rule"] = (ctx.cov.get("rule", "") + " | X04DP: behaviours = TLC simulated admission/time/query histories of "
                       "DenialProof.tla per zone family and the counter-examples of its mutants, replayed on the real default "
                       "chain (cache + resolver) against real signed zones (distinct = distinct outcome sequences per family)").strip(" |")
    ctx.assumptions += [
        "X04DP: the clock moves by shifting the timestamps the cache store holds at rest, at quiescent points; RRSIG validity "
        "windows are real-time, every admission is signed afresh by the scripted authority",
        "X04DP: every question is fresh (no exact entry, no subtree cut above it), so the denial-proof index is the rung that "
        "answers; capacity eviction of the index (8 RRsets per zone at this cache size) is not reached (<= 6 per zone)",
        "X04DP: a DO-less synthesised reply does not show its proof records; the latest-ending admission of each needed owner "
        "bounds it",
    ]
    jobs, post = model_jobs(ctx, thorough)
    cex = post(parallel(jobs))
    replay_tier(ctx, thorough, cex)


def run(ctx, replay_path):
    if replay_path:
        if not run_replay(ctx, replay_path):
            raise vf.MachineryError("replay file %s is not an x04dp replay" % replay_path)
        return
    run_tier(ctx)
