"""C01 -- DNSSEC: validating clients get only authenticated data; AD implies authentic.

Dnssec.tla (chain of trust + one tampering, validation pipeline as actions) is
model-checked exhaustively; sampled cases are concretised with real keys and
signatures (harness/authkit) and resolved by the real edns+cache+resolver chain.
"""
import vf


def cases_from(ctx, num, cfg="Sim_Dnssec.cfg"):
    behs = ctx.tlc_behaviours("Dnssec", "MC_Dnssec.tla", cfg, num=num, depth=8)
    out, seen = [], set()
    for b in behs:
        st0, stN = b[0][1], b[-1][1]
        if stN.get("pc") != "done":
            continue
        c = {"zone": st0["zone"], "qk": st0["qk"], "flags": st0["flags"], "tamper": st0["tamper"],
             "anchor": st0["anchor"], "exp": {"rcode": stN["reply"]["rcode"], "ad": stN["reply"]["ad"]}}
        k = repr(c)
        if k not in seen:
            seen.add(k)
            out.append(c)
    return out


def run(ctx, replay):
    thorough = ctx.tier == "thorough"
    ctx.cov["rule"] = ("case = (target zone kind, question kind, client DO/AD/CD, one tampering <position,kind>, anchor present) "
                       "drawn by TLC from Dnssec.tla; each is built with real keys/signatures, resolved twice (second time from "
                       "the caches the first filled) and judged against the zone's ground truth; distinct = distinct cases")
    ctx.assumptions += ["cryptographic primitives themselves are not re-verified (C14 is out of scope)",
                        "single-server zones: an effective tampering leaves no authentic path, so SERVFAIL is the only legal outcome",
                        "pairs = one tampering at each of two different positions of the path"]
    ctx.tlc("Dnssec", "MC_Dnssec.tla", "MC_Dnssec.cfg", workers=4, timeout=900, heap="6g")
    ctx.tlc("Dnssec", "MC_Dnssec.tla", "MC_DnssecPairs.cfg", workers=4 if not thorough else 8, timeout=1500, heap="8g")
    cases = cases_from(ctx, 200 if not thorough else 3000)
    cases += cases_from(ctx, 120 if not thorough else 3000, "Sim_DnssecPairs.cfg")
    # corners of the model's case product that every run replays, whatever the seed draws: the attacks that
    # need a whole response to be rebuilt rather than one attribute to be flipped
    none = {"rootkey": "none", "rootref": "none", "referral": "none", "dnskey": "none", "answer": "none"}
    for zone in ("signed", "nsec3", "signed-same"):
        for qk in ("a", "cname", "nx"):
            for fl in ({"do": True, "ad": False, "cd": False}, {"do": False, "ad": False, "cd": False}):
                for t in ({"dnskey": "roguekey"}, {"dnskey": "roguekey", "answer": "roguesig"}, {"rootref": "dropds"},
                          {"rootref": "dropds", "answer": "data"}, {"rootref": "strip"}, {"answer": "fakedname"}, {"answer": "foreigndeny"}):
                    cases.append({"zone": zone, "qk": qk, "flags": fl, "tamper": dict(none, **t), "anchor": True,
                                  "exp": {"rcode": "servfail", "ad": False}})
    # an empty non-terminal below a wildcard's parent: honest (NODATA), and with the wildcard replayed over it
    for zone in ("signed", "nsec3", "signed-same"):
        for fl in ({"do": True, "ad": False, "cd": False}, {"do": False, "ad": True, "cd": False}):
            cases.append({"zone": zone, "qk": "ent", "flags": fl, "tamper": dict(none), "anchor": True,
                          "exp": {"rcode": "noerror", "ad": True}})
            cases.append({"zone": zone, "qk": "ent", "flags": fl, "tamper": dict(none, answer="wildrep"), "anchor": True,
                          "exp": {"rcode": "servfail", "ad": False}})
            for qk in ("ent", "whost"):
                cases.append({"zone": zone, "qk": qk, "flags": fl, "tamper": dict(none, answer="wildforeign"), "anchor": True,
                              "exp": {"rcode": "servfail", "ad": False}})
            cases.append({"zone": zone, "qk": "whost", "flags": fl, "tamper": dict(none), "anchor": True,
                          "exp": {"rcode": "noerror", "ad": True}})
    # the root's own key set without its signatures; a name the root itself denies (honest, unsigned, bare); denials
    # with nothing in them from the target zone
    for fl in ({"do": True, "ad": False, "cd": False}, {"do": False, "ad": False, "cd": False}):
        for zone in ("signed", "insecure"):
            for qk in ("a", "nx", "rootnx"):
                cases.append({"zone": zone, "qk": qk, "flags": fl, "tamper": dict(none, rootkey="strip"), "anchor": True,
                              "exp": {"rcode": "servfail", "ad": False}})
            cases.append({"zone": zone, "qk": "rootnx", "flags": fl, "tamper": dict(none), "anchor": True,
                          "exp": {"rcode": "nxdomain", "ad": fl["do"]}})
            for k in ("strip", "barenx", "bareempty", "dropproof"):
                cases.append({"zone": zone, "qk": "rootnx", "flags": fl, "tamper": dict(none, answer=k), "anchor": True,
                              "exp": {"rcode": "servfail", "ad": False}})
        for zone in ("signed", "nsec3", "signed-same"):
            for qk in ("a", "nx", "nodata"):
                for k in ("barenx", "bareempty"):
                    cases.append({"zone": zone, "qk": qk, "flags": fl, "tamper": dict(none, answer=k), "anchor": True,
                                  "exp": {"rcode": "servfail", "ad": False}})
    seen = set()
    cases = [c for c in cases if not (repr(c) in seen or seen.add(repr(c)))]
    for c in cases:
        ctx._distinct.add("c01:%r" % (c,))
    # split into chunks so one driver process does not accumulate hundreds of resolvers
    chunk = 130
    honest_all = honest_ok = 0
    for i in range(0, len(cases), chunk):
        res = ctx.go_driver("./c01", "TestDnssecReplay", {"cases": cases[i:i + chunk]}, name="c01_%d" % i, timeout=1500)
        ctx.take_driver_result(res, "[Dnssec] ")
        cn = res.get("counters", {})
        honest_all += cn.get("honest_cases", 0)
        honest_ok += cn.get("honest_resolved", 0)
        ctx.cov["replay"]["dnssec_%d" % i] = {"cases": res["cases"], "drift": res["drift"], "counters": cn,
                                              "drift_notes": res.get("drift_notes", [])[:6], "skipped": res.get("skipped", [])}
        if res.get("skipped"):
            raise vf.MachineryError("C01 replay skipped: %s" % res["skipped"][:3])
    ctx.cov["honest_cases"] = honest_all
    ctx.cov["honest_resolved"] = honest_ok
    if honest_all and honest_ok * 2 < honest_all:
        raise vf.MachineryError("vacuous: only %d of %d untampered cases resolved (kit or resolver broken?)" % (honest_ok, honest_all))
