"""C01 -- DNSSEC: validating clients get only authenticated data; AD implies authentic.

Dnssec.tla (chain of trust + one tampering, validation pipeline as actions) is
model-checked exhaustively; sampled cases are concretised with real keys and
signatures (harness/authkit) and resolved by the real edns+cache+resolver chain.

The case has a configuration dimension: the `fallbackservers` resolver (none | honest | lying) that the failover
middleware may ask when the resolution says SERVFAIL.  The model's Failover action is the reply rule the statement
implies (a validation verdict is final; AD is sdns's own statement); failover.go as built is its negative twin.
"""
import json

import vf

# negative twins of the Failover action: (cfg, the one invariant it must violate)
NEG_TWINS = (("Neg_AsBuilt_Verdict.cfg", "VerdictIsFinal"), ("Neg_AsBuilt_Data.cfg", "NeverAlteredData"),
             ("Neg_AsBuilt_AD.cfg", "ADImpliesSecure"), ("Neg_AsBuilt_Anchor.cfg", "NoAnchorFailsClosed"),
             ("Neg_RelayAD.cfg", "ADImpliesSecure"))


def cases_from(ctx, num, cfg="Sim_Dnssec.cfg"):
    behs = ctx.tlc_behaviours("Dnssec", "MC_Dnssec.tla", cfg, num=num, depth=8)
    out, seen = [], set()
    for b in behs:
        st0, stN = b[0][1], b[-1][1]
        if stN.get("pc") != "done":
            continue
        c = {"zone": st0["zone"], "qk": st0["qk"], "flags": st0["flags"], "tamper": st0["tamper"],
             "anchor": st0["anchor"], "fallback": st0.get("fb", "none"), "exp": {"rcode": stN["reply"]["rcode"], "ad": stN["reply"]["ad"]}}
        k = repr(c)
        if k not in seen:
            seen.add(k)
            out.append(c)
    return out


def fallback_cases():
    """The fallback dimension, replayed on every run whatever the seed draws.  Expectations are the statement's rule
    (Dnssec.tla Failover with FailoverRule = "statement")."""
    none = {"rootkey": "none", "rootref": "none", "referral": "none", "dnskey": "none", "answer": "none"}
    do, adq, plain, cd = ({"do": True, "ad": False, "cd": False}, {"do": False, "ad": True, "cd": False},
                          {"do": False, "ad": False, "cd": False}, {"do": True, "ad": False, "cd": True})
    out = []

    def add(zone, qk, fl, t, fb, rcode, ad, anchor=True):
        out.append({"zone": zone, "qk": qk, "flags": fl, "tamper": dict(none, **t), "anchor": anchor, "fallback": fb,
                    "exp": {"rcode": rcode, "ad": ad}})

    # the headline cases first (a driver run keeps its first 20 violations): altered answer / forged denial + lying
    # fallback = forged data with AD=1 to a validating client; lame + honest fallback = AD on unvalidated data
    add("signed", "a", do, {"answer": "data"}, "lying", "servfail", False)
    add("signed", "nx", do, {"answer": "dropproof"}, "lying", "servfail", False)
    add("signed", "a", do, {"answer": "data"}, "honest", "servfail", False)
    add("signed", "a", do, {}, "lying", "servfail", False, anchor=False)
    add("signed", "a", do, {"answer": "lame"}, "honest", "noerror", False)
    for fb in ("lying", "honest"):
        for zone in ("signed", "nsec3", "signed-same"):
            for qk in ("a", "nx"):
                truth = "nxdomain" if qk == "nx" else "noerror"
                for fl in ((do, adq, plain) if zone == "signed" else (do,)):
                    wants_ad = fl["do"] or fl["ad"]
                    # nothing wrong: the fallback resolver is never asked
                    add(zone, qk, fl, {}, fb, truth, wants_ad)
                    # a validation verdict is final, whatever another resolver would say
                    for t in ({"answer": "data"}, {"answer": "sigbytes"}, {"answer": "expired"}, {"answer": "strip"},
                              {"dnskey": "strip"}, {"dnskey": "roguekey"}, {"referral": "swapds"}, {"referral": "dropds"},
                              {"rootref": "dropds"}, {"rootkey": "strip"}):
                        add(zone, qk, fl, t, fb, "servfail", False)
                    # the answering server refuses: the one case a fallback resolver is for - its data, never AD
                    add(zone, qk, fl, {"answer": "lame"}, fb, truth if fb == "honest" else "noerror", False)
                # no trust anchor: SERVFAIL rather than unvalidated data - also with the answering server lame
                add(zone, qk, do, {}, fb, "servfail", False, anchor=False)
                add(zone, qk, do, {"answer": "lame"}, fb, "servfail", False, anchor=False)
                # CD=1: validation is off for this client, data flows, never AD
                add(zone, qk, cd, {"answer": "data"}, fb, truth, False)
                add(zone, qk, cd, {"answer": "lame"}, fb, truth if fb == "honest" else "noerror", False)
            add(zone, "nx", do, {"answer": "dropproof"}, fb, "servfail", False)
            add(zone, "wild", do, {"answer": "dropproof"}, fb, "servfail", False)
        # the root itself is asked and refuses; with and without anchors
        for anchor in (True, False):
            add("signed", "rootnx", do, {"answer": "lame"}, fb,
                "servfail" if not anchor else ("nxdomain" if fb == "honest" else "noerror"), False, anchor=anchor)
        # an unsigned zone whose proof of insecurity is broken is bogus like any other; intact and lame: the fallback's data
        for zone in ("insecure", "optout"):
            for t in ({"referral": "strip"}, {"referral": "dropproof"}):
                add(zone, "a", do, t, fb, "servfail", False)
            add(zone, "a", do, {"answer": "lame"}, fb, "noerror", False)
    # no fallback: a lame server is SERVFAIL (the new fault kind on the old configuration)
    for zone in ("signed", "insecure"):
        for qk in ("a", "nx", "rootnx"):
            add(zone, qk, do, {"answer": "lame"}, "none", "servfail", False)
    # a TTL raised in flight does not touch authenticity (the signed form carries the RRSIG's Original TTL): truth, AD.
    # What TTL is then served is logged as an observation (RFC 4035 5.3.3; not a predicate of this statement)
    for zone in ("signed", "nsec3"):
        for qk in ("a", "cname", "wild", "nx", "nodata"):
            add(zone, qk, do, {"answer": "ttlup"}, "none", "nxdomain" if qk == "nx" else "noerror", True)
    return out


def observations(ctx, totals):
    """Logged, never a verdict."""
    n = totals.get("obs_ttl_above_rrsig_original_ttl", 0)
    if n:
        sample = next((k[len("obs_ttl_sample: "):] for k in sorted(totals) if k.startswith("obs_ttl_sample: ")), "")
        print("OBSERVATION property=C01: %d replies (%d with AD=1) serve an authenticated RRset with a TTL above its RRSIG's "
              "Original TTL - an upstream that raises the TTL in flight is not cut back (RFC 4035 5.3.3); e.g. %s" % (
                  n, totals.get("obs_ttl_above_rrsig_original_ttl_with_ad", 0), sample), flush=True)
    n = totals.get("obs_lying_fallback_data_relayed_on_availability_failure", 0)
    if n:
        print("OBSERVATION property=C01: %d replies relay a lying fallback resolver's data after an availability failure "
              "(lame server, no validation verdict): the configured fallback is trusted for the data like a forwarder; "
              "not judged" % n, flush=True)
    n = totals.get("bogus_ede_0", 0)
    if n:
        print("OBSERVATION property=C01: %d validation failures carry extended error 0 (Other), not a DNSSEC code "
              "(e.g. a bad signature: \"dns: bad signature\")" % n, flush=True)
    ctx.cov["observations"] = {k: v for k, v in totals.items() if k.startswith(("obs_", "bogus_ede_", "fallback_"))
                               and not k.startswith("obs_ttl_sample")}


def run(ctx, replay):
    thorough = ctx.tier == "thorough"
    if replay:
        # a recorded violation carries its case: rebuild exactly that world and resolve it again
        with open(replay) as f:
            rp = json.load(f).get("replay", {})
        if rp.get("driver") == "c01" and rp.get("case"):
            res = ctx.go_driver("./c01", "TestDnssecReplay", {"cases": [rp["case"]]}, name="c01_replay", timeout=600)
            ctx.take_driver_result(res, "[Dnssec] ")
            ctx.cov["replay"]["dnssec_replay"] = {"cases": res["cases"], "counters": res.get("counters", {})}
            if res.get("skipped"):
                raise vf.MachineryError("C01 replay skipped: %s" % res["skipped"][:3])
            ctx.cov["states"] = ctx.cov["transitions"] = 1   # no model run in a replay (as checks/c07.py)
            ctx.sample(rp["case"])
            return
    ctx.cov["rule"] = ("case = (target zone kind, question kind, client DO/AD/CD, one tampering <position,kind>, anchor present) "
                       "drawn by TLC from Dnssec.tla; each is built with real keys/signatures, resolved twice (second time from "
                       "the caches the first filled) and judged against the zone's ground truth; distinct = distinct cases")
    ctx.assumptions += ["cryptographic primitives themselves are not re-verified (C14 is out of scope)",
                        "single-server zones: an effective tampering leaves no authentic path, so SERVFAIL is the only legal outcome",
                        "pairs = one tampering at each of two different positions of the path",
                        "fallback resolver: none | honest (validating, clean path of its own: truth, AD) | lying (forged data, AD); "
                        "after an availability failure (lame server) the fallback's DATA is not judged (operator-designated "
                        "trusted source, as a forwarder), sdns's AD bit on it is",
                        "the fault 'lame' comes alone, not paired with a tampering (the statement does not rank a refusal "
                        "against a bogus verdict met later on the same path)"]
    ctx.tlc("Dnssec", "MC_Dnssec.tla", "MC_Dnssec.cfg", workers=4, timeout=900, heap="6g")
    ctx.tlc("Dnssec", "MC_Dnssec.tla", "MC_DnssecPairs.cfg", workers=4 if not thorough else 8, timeout=1500, heap="8g")
    if thorough:
        ctx.tlc("Dnssec", "MC_Dnssec.tla", "MC_DnssecPairsFb.cfg", workers=8, timeout=2400, heap="8g")
        # the as-built failover rule differs from the statement's only where a fallback resolver is configured
        ctx.tlc("Dnssec", "MC_Dnssec.tla", "MC_DnssecAsBuiltNoFb.cfg", workers=4, timeout=900, heap="6g")
    # negative twins: failover.go as built / half repaired must violate the invariant each cfg names
    for cfg, inv in NEG_TWINS:
        r = ctx.tlc("Dnssec", "MC_Dnssec.tla", cfg, workers=2, timeout=300, heap="2g", must_pass=False, count=False, tag="negative")
        if r.ok or r.violated != inv:
            raise vf.MachineryError("negative twin %s: expected a violation of %s, TLC says ok=%s violated=%s" % (cfg, inv, r.ok, r.violated))
    ctx.cov["negative_twins"] = [c for c, _ in NEG_TWINS]
    cases = fallback_cases()
    cases += cases_from(ctx, 200 if not thorough else 3000)
    cases += cases_from(ctx, 60 if not thorough else 2000, "Sim_DnssecFb.cfg")
    cases += cases_from(ctx, 120 if not thorough else 3000, "Sim_DnssecPairs.cfg")
    # corners of the model's case product that every run replays, whatever the seed draws: the attacks that
    # need a whole response to be rebuilt rather than one attribute to be flipped
    none = {"rootkey": "none", "rootref": "none", "referral": "none", "dnskey": "none", "answer": "none"}
    for zone in ("signed", "nsec3", "signed-same"):
        for qk in ("a", "cname", "nx"):
            for fl in ({"do": True, "ad": False, "cd": False}, {"do": False, "ad": False, "cd": False}):
                for t in ({"dnskey": "roguekey"}, {"dnskey": "roguekey", "answer": "roguesig"}, {"rootref": "dropds"},
                          {"rootref": "dropds", "answer": "data"}, {"rootref": "strip"}, {"answer": "fakedname"}, {"answer": "foreigndeny"}):
                    cases.append({"zone": zone, "qk": qk, "flags": fl, "tamper": dict(none, **t), "anchor": True,
                                  "exp": {"rcode": "servfail", "ad": False}})
    # an empty non-terminal below a wildcard's parent: honest (NODATA), and with the wildcard replayed over it
    for zone in ("signed", "nsec3", "signed-same"):
        for fl in ({"do": True, "ad": False, "cd": False}, {"do": False, "ad": True, "cd": False}):
            cases.append({"zone": zone, "qk": "ent", "flags": fl, "tamper": dict(none), "anchor": True,
                          "exp": {"rcode": "noerror", "ad": True}})
            cases.append({"zone": zone, "qk": "ent", "flags": fl, "tamper": dict(none, answer="wildrep"), "anchor": True,
                          "exp": {"rcode": "servfail", "ad": False}})
            for qk in ("ent", "whost"):
                cases.append({"zone": zone, "qk": qk, "flags": fl, "tamper": dict(none, answer="wildforeign"), "anchor": True,
                              "exp": {"rcode": "servfail", "ad": False}})
            cases.append({"zone": zone, "qk": "whost", "flags": fl, "tamper": dict(none), "anchor": True,
                          "exp": {"rcode": "noerror", "ad": True}})
    # the root's own key set without its signatures; a name the root itself denies (honest, unsigned, bare); denials
    # with nothing in them from the target zone
    for fl in ({"do": True, "ad": False, "cd": False}, {"do": False, "ad": False, "cd": False}):
        for zone in ("signed", "insecure"):
            for qk in ("a", "nx", "rootnx"):
                cases.append({"zone": zone, "qk": qk, "flags": fl, "tamper": dict(none, rootkey="strip"), "anchor": True,
                              "exp": {"rcode": "servfail", "ad": False}})
            cases.append({"zone": zone, "qk": "rootnx", "flags": fl, "tamper": dict(none), "anchor": True,
                          "exp": {"rcode": "nxdomain", "ad": fl["do"]}})
            for k in ("strip", "barenx", "bareempty", "dropproof"):
                cases.append({"zone": zone, "qk": "rootnx", "flags": fl, "tamper": dict(none, answer=k), "anchor": True,
                              "exp": {"rcode": "servfail", "ad": False}})
        for zone in ("signed", "nsec3", "signed-same"):
            for qk in ("a", "nx", "nodata"):
                for k in ("barenx", "bareempty"):
                    cases.append({"zone": zone, "qk": qk, "flags": fl, "tamper": dict(none, answer=k), "anchor": True,
                                  "exp": {"rcode": "servfail", "ad": False}})
    seen = set()
    cases = [c for c in cases if not (repr(c) in seen or seen.add(repr(c)))]
    for c in cases:
        ctx._distinct.add("c01:%r" % (c,))
    # split into chunks so one driver process does not accumulate hundreds of resolvers
    chunk = 130
    honest_all = honest_ok = 0
    totals = {}
    for i in range(0, len(cases), chunk):
        res = ctx.go_driver("./c01", "TestDnssecReplay", {"cases": cases[i:i + chunk]}, name="c01_%d" % i, timeout=1500)
        ctx.take_driver_result(res, "[Dnssec] ")
        cn = res.get("counters", {})
        for k, v in cn.items():
            totals[k] = totals.get(k, 0) + v
        honest_all += cn.get("honest_cases", 0)
        honest_ok += cn.get("honest_resolved", 0)
        ctx.cov["replay"]["dnssec_%d" % i] = {"cases": res["cases"], "drift": res["drift"], "counters": cn,
                                              "drift_notes": res.get("drift_notes", [])[:6], "skipped": res.get("skipped", [])}
        if res.get("skipped"):
            raise vf.MachineryError("C01 replay skipped: %s" % res["skipped"][:3])
    observations(ctx, totals)
    # the fallback dimension must have been exercised both ways: never asked (nothing failed) and asked
    fbc, fba = totals.get("fallback_cases", 0), totals.get("fallback_cases_asked", 0)
    if not 0 < fba < fbc:
        raise vf.MachineryError("vacuous fallback dimension: %d cases with a fallback resolver, %d of them asked it" % (fbc, fba))
    ctx.cov["honest_cases"] = honest_all
    ctx.cov["honest_resolved"] = honest_ok
    if honest_all and honest_ok * 2 < honest_all:
        raise vf.MachineryError("vacuous: only %d of %d untampered cases resolved (kit or resolver broken?)" % (honest_ok, honest_all))
