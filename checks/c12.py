"""C12 -- bounded work per request: resolution always terminates within its budgets.

Core tier    : checks/c12_core.py (Ledger.tla on the real work ledger: call-order replay + concurrent stress traces).
Pipeline tier: checks/c12_topo.py (ResolveWork.tla topologies concretised into scripted authorities; the servers count
               what each client query cost).
"""
import c12_core
import c12_topo
import x11fw
import x12ol
import x13zb


def optional_work(ctx, only=None):
    """OptWork.tla: the NSEC3 hash operations of one request tree, required and optional spenders.  The conformant
    model keeps their sum within max_nsec3_hashes; the as-built twin (optional spenders on private allowances, outside
    the ledger) must violate WithinBudget.  Every Init choice whose optional need exceeds / stays within the budget is
    asked of the real full pipeline over a really signed NSEC3 zone; the hash operations a tree started are read from
    the production per-tree memo."""
    import vf
    ctx.tlc("OptWork", "MC_OptWork.tla", "MC_OptWork.cfg", workers=2, timeout=300, heap="2g")
    neg = ctx.tlc("OptWork", "MC_OptWork.tla", "MC_OptWork_asbuilt.cfg", workers=2, timeout=300, heap="2g", must_pass=False,
                  count=False, tag="as built: optional NSEC3 work outside the ledger (must violate WithinBudget)")
    if neg.violated != "WithinBudget":
        raise vf.MachineryError("MC_OptWork_asbuilt.cfg did not violate WithinBudget (violated=%s rc=%s)" % (neg.violated, neg.rc))
    # the model's Init choices, concretised: copt need 3 -> a name 1 label below the zone, 14 -> 12 labels below
    cases = [{"max": m, "depth": d, "mode": "enforce"} for m in (2, 8, 16) for d in (1, 12)]
    cases += [{"max": 8, "depth": 12, "mode": "shadow"}]
    if only:
        cases = [only]
    res = ctx.go_driver("./c12aud", "TestOptWork", {"cases": cases}, name="optwork", timeout=600)
    ctx.take_driver_result(res, "")
    c = res.get("counters", {})
    if res.get("skipped"):
        raise vf.MachineryError("optional-work stage skipped cases: %s" % res["skipped"][:3])
    if not only and (c.get("optwork_trees_with_optional_hashes", 0) == 0 or c.get("optwork_within_budget_trees", 0) == 0):
        raise vf.MachineryError("optional-work stage is vacuous: %s" % c)
    ctx.log("optional NSEC3 work: trees with optional hashes %d, within budget %d, over budget %d" % (
        c.get("optwork_trees_with_optional_hashes", 0), c.get("optwork_within_budget_trees", 0), c.get("optwork_over_budget_trees", 0)))


def run(ctx, replay):
    if replay:
        import json
        with open(replay) as f:
            drv = (json.load(f).get("replay") or {}).get("driver", "")
        if drv == "optwork":
            with open(replay) as f:
                optional_work(ctx, only=json.load(f)["replay"]["case"])
            ctx.cov["states"] = max(ctx.cov["states"], 1)
            ctx.cov["transitions"] = max(ctx.cov["transitions"], 1)
            return
        if str(drv).startswith("x12ol") or str(drv).startswith("objloop"):
            ctx.overlay_tags.add("x12ol")
            x12ol.run(ctx, replay)
            return
        if x13zb.is_replay(replay):        # a recorded history of the zone / breaker tier
            x13zb.replay_file(ctx, replay)
            return
        if drv == "forward-replay":        # a recorded violation of the Forward tier: that tier's own replay entry
            ctx.overlay_tags.add("x11fw")
            x11fw.replay_file(ctx, replay, ("c12",))
            return
        if c12_topo.replay_topo(ctx, replay):
            return
        c12_core.replay_core(ctx, replay)
        return
    c12_core.run_core(ctx)
    c12_topo.run_topo(ctx)
    optional_work(ctx)
    # forwarder mode: every upstream attempt (retries, TCP fallbacks, failover) is debited before it is made and the
    # scripted upstreams never see more packets than the budget (Forward.tla)
    ctx.overlay_tags.add("x11fw")
    import os
    ov = os.path.join(ctx.scratch, "overlay.json")
    if os.path.exists(ov):
        os.remove(ov)
    x11fw.run_tier(ctx, families=("c12",))
    # the validators' per-object loops (ObjLoop.tla): candidates per DS, signatures per RRset, keys per RRSIG, counted
    # through the production ledger adapter - operations never exceed the per-object and aggregate limits in enforce
    # mode, a refusal is terminal, shadow/off never refuse and give the uncapped verdict
    ctx.overlay_tags.add("x12ol")
    if os.path.exists(ov):
        os.remove(ov)
    x12ol.run_tier(ctx)
    # "the over-budget reply is a SERVFAIL ... that is not cached for other clients": what over-budget trees leave behind in
    # the state request trees share (ZoneBrk.tla: an attempt the tree's own ledger refused before anything was sent is not
    # a failure of the server it was aimed at; the budget histories and the counter-examples of the model mutants played on
    # the real full pipeline in enforce mode)
    if os.path.exists(ov):
        os.remove(ov)
    x13zb.run_tier(ctx)
