"""C12 -- bounded work per request: resolution always terminates within its budgets.

Core tier    : checks/c12_core.py (Ledger.tla on the real work ledger: call-order replay + concurrent stress traces).
Pipeline tier: checks/c12_topo.py (ResolveWork.tla topologies concretised into scripted authorities; the servers count
               what each client query cost).
"""
import c12_core
import c12_topo
import x11fw
import x12ol


def run(ctx, replay):
    if replay:
        import json
        with open(replay) as f:
            drv = (json.load(f).get("replay") or {}).get("driver", "")
        if str(drv).startswith("x12ol") or str(drv).startswith("objloop"):
            ctx.overlay_tags.add("x12ol")
            x12ol.run(ctx, replay)
            return
        if drv == "forward-replay":        # a recorded violation of the Forward tier: that tier's own replay entry
            ctx.overlay_tags.add("x11fw")
            x11fw.replay_file(ctx, replay, ("c12",))
            return
        if c12_topo.replay_topo(ctx, replay):
            return
        c12_core.replay_core(ctx, replay)
        return
    c12_core.run_core(ctx)
    c12_topo.run_topo(ctx)
    # forwarder mode: every upstream attempt (retries, TCP fallbacks, failover) is debited before it is made and the
    # scripted upstreams never see more packets than the budget (Forward.tla)
    ctx.overlay_tags.add("x11fw")
    import os
    ov = os.path.join(ctx.scratch, "overlay.json")
    if os.path.exists(ov):
        os.remove(ov)
    x11fw.run_tier(ctx, families=("c12",))
    # the validators' per-object loops (ObjLoop.tla): candidates per DS, signatures per RRset, keys per RRSIG, counted
    # through the production ledger adapter - operations never exceed the per-object and aggregate limits in enforce
    # mode, a refusal is terminal, shadow/off never refuse and give the uncapped verdict
    ctx.overlay_tags.add("x12ol")
    if os.path.exists(ov):
        os.remove(ov)
    x12ol.run_tier(ctx)
