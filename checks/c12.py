"""C12 -- bounded work per request: resolution always terminates within its budgets.

Thin entry point: the ledger state-machine core lives in c12_core.run_core(ctx); the lead merges the
ResolveWork / scripted-topology driver here.
"""
import c12_core


def run(ctx, replay):
    if replay:
        c12_core.replay_core(ctx, replay)
        return
    c12_core.run_core(ctx)
