"""C12 -- bounded work per request: resolution always terminates within its budgets.

Core tier    : checks/c12_core.py (Ledger.tla on the real work ledger: call-order replay + concurrent stress traces).
Pipeline tier: checks/c12_topo.py (ResolveWork.tla topologies concretised into scripted authorities; the servers count
               what each client query cost).
"""
import c12_core
import c12_topo


def run(ctx, replay):
    if replay:
        if c12_topo.replay_topo(ctx, replay):
            return
        c12_core.replay_core(ctx, replay)
        return
    c12_core.run_core(ctx)
    c12_topo.run_topo(ctx)
