"""C16 -- bounded concurrent tables behave as maps and stay within capacity.

ProbeMap.tla  (UInt64Map, literal)  : TLC exhaustive + every-edge replay + simulate replay
SegCache.tla  (SegmentUInt64Map + cache.Cache) : TLC exhaustive over writer interleavings,
              TLC-chosen schedules forced on the real cache through the verif gate hook,
              recorded concurrent traces validated by Trace_SegCache.
ExpCache.tla  (PositiveCache / NegativeCache: load + expiry cleanup, Set, Remove, clock) : TLC exhaustive with
              mutant twins, TLC-chosen batches steered through the segment locks, histories judged by Trace_ExpMap.
LimConc.tla   (LimStore + several clients inside LimiterStore.Get) : TLC exhaustive with mutant twins, TLC-chosen
              batches forced through the store's own lock, histories judged by Trace_LimConc.
"""
import json
import os
import random
import re

import vf


def fn_list(f, lo, hi):
    """TLC function/sequence value -> python list indexed lo..hi."""
    if isinstance(f, list):  # sequence: domain 1..n
        return [f[i - 1] if 1 <= i <= len(f) else 0 for i in range(lo, hi + 1)]
    return [f.get(i, f.get(str(i), 0)) for i in range(lo, hi + 1)]


def pm_node(st, nk):
    n = st["n"]
    am = st["am"]
    if isinstance(am, list):  # no zero key: domain 1..NK
        aml = [0] + list(am)
    else:
        aml = fn_list(am, 0, nk)
    return {"am": aml, "slots": fn_list(st["data"], 0, n - 1), "n": n, "size": st["size"],
            "ideal8": fn_list(st["ideal8"], 1, nk), "ideal16": fn_list(st["ideal16"], 1, nk)}


def probemap_graph(ctx, cfg, nk, use_zero, timeout, shapes):
    spec = cfg.replace(".cfg", ".tla")
    r, nodes, edges, inits = ctx.tlc_graph("ProbeMap", spec, cfg, timeout=timeout, workers=4, heap="6g")
    # distinct labelled edges
    uniq = sorted(set(edges))
    paths = vf.cover_paths(nodes, uniq, inits, max_len=40)
    ctx.log("ProbeMap %s: %d nodes, %d labelled edges, %d covering paths" % (cfg, len(nodes), len(uniq), len(paths)))
    covered = set()
    inp = {"nk": nk, "useZero": use_zero, "shapes": shapes,
           "nodes": {k: pm_node(v, nk) for k, v in nodes.items()}, "paths": []}
    for p in paths:
        inp["paths"].append({"init": p[0][0], "steps": [{"l": e[2], "d": e[1]} for e in p]})
        covered.update(p)
    if len(covered) != len(uniq):
        raise vf.MachineryError("edge cover incomplete: %d of %d" % (len(covered), len(uniq)))
    res = ctx.go_driver("./c16", "TestProbeMapReplay", inp, name="pm_" + cfg, timeout=900)
    ctx.take_driver_result(res, "[ProbeMap %s] " % cfg)
    ctx.cov["replay"]["probemap_" + cfg] = {
        "edges_covered": len(uniq), "paths": len(paths), "replays": res["cases"],
        "steps": res.get("counters", {}).get("steps", 0), "drift": res["drift"],
        "drift_notes": res.get("drift_notes", []), "skipped": res.get("skipped", [])}
    for e in uniq:
        ctx._distinct.add("pm-edge:%s:%s:%s" % e)
    if res.get("skipped"):
        raise vf.MachineryError("ProbeMap replay skipped cases: %s" % res["skipped"][:3])
    return r


def probemap_sim(ctx, cfg, nk, use_zero, num, depth, shapes):
    spec = cfg.replace(".cfg", ".tla")
    behs = ctx.tlc_behaviours("ProbeMap", spec, cfg, num=num, depth=depth)
    nodes, paths = {}, []
    for bi, b in enumerate(behs):
        ids = []
        for si, (lab, st) in enumerate(b):
            nid = "b%d_%d" % (bi, si)
            nodes[nid] = pm_node(st, nk)
            ids.append(nid)
        paths.append({"init": ids[0], "steps": [{"l": b[i][0], "d": ids[i]} for i in range(1, len(b))]})
        ctx._distinct.add("pm-sim:" + "|".join(x[0] for x in b))
    inp = {"nk": nk, "useZero": use_zero, "shapes": shapes, "nodes": nodes, "paths": paths}
    res = ctx.go_driver("./c16", "TestProbeMapReplay", inp, name="pmsim_" + cfg, timeout=900)
    ctx.take_driver_result(res, "[ProbeMap sim %s] " % cfg)
    ctx.cov["replay"]["probemap_sim_" + cfg] = {
        "behaviours": len(behs), "depth": depth, "replays": res["cases"], "drift": res["drift"],
        "drift_notes": res.get("drift_notes", []), "skipped": res.get("skipped", [])}
    if res.get("skipped"):
        raise vf.MachineryError("ProbeMap sim replay skipped cases: %s" % res["skipped"][:3])


def run(ctx, replay):
    thorough = ctx.tier == "thorough"
    ctx.overlay_tags.add("x16ls")     # harness/c16 is one package: the LimStore accessors are needed from the first build
    ctx.cov["rule"] = ("behaviours = every labelled edge of the TLC state graph of ProbeMap (covering paths) "
                       "+ simulated behaviours, each replayed on the real UInt64Map under several real-key shapes; "
                       "SegCache schedules forced through the gate hook; distinct = distinct labelled edges / "
                       "behaviours / schedules")
    ctx.assumptions += [
        "real keys are searched so that primaryIndex(key)&7 and &15 equal the model's ideal slots (overlay shim VerifPrimaryIndex)",
        "tables above 16 slots are reached only by the trace direction",
    ]
    # development / triage switch: VERIF_C16_ONLY=exp,limconc runs only the named tiers; a recorded violation of
    # one of the gap tiers is replayed by running that tier alone (vf.main restored its seed and tier)
    only = [x for x in os.environ.get("VERIF_C16_ONLY", "").split(",") if x]
    if replay and not only:
        try:
            with open(replay) as f:
                drv = (json.load(f).get("replay") or {}).get("driver")
        except Exception:
            drv = None
        only = {"expcache": ["exp"], "limconc": ["limconc"]}.get(drv, [])
    if only:
        for name in only:
            {"exp": expcache, "limconc": limconc, "linmap": linmap, "limstore": limstore}[name](ctx, thorough)
        return
    # ---- ProbeMap ------------------------------------------------------
    probemap_graph(ctx, "MC_Cluster8.cfg", 4, True, 600, shapes=4)
    probemap_sim(ctx, "MC_Wrap5.cfg", 5, True, num=300 if not thorough else 3000, depth=30, shapes=2)
    if thorough:
        ctx.tlc("ProbeMap", "MC_Adversarial.tla", "MC_Adversarial.cfg", timeout=3000, heap="24g")
        probemap_sim(ctx, "MC_Adversarial.cfg", 4, False, num=4000, depth=25, shapes=2)
        ctx.tlc("ProbeMap", "MC_Wrap5.tla", "MC_Wrap5.cfg", timeout=3000, heap="24g")
    segcache(ctx, thorough)
    linmap(ctx, thorough)
    limstore(ctx, thorough)
    # gap tiers (seeded C16-r3-2 / C16-r3-3): the answer cache's sub-caches and concurrent limiter-store clients
    # (independent of one another and steered by lock parking, not by timing: run side by side)
    from concurrent.futures import ThreadPoolExecutor
    with ThreadPoolExecutor(2) as ex:
        fs = [ex.submit(expcache, ctx, thorough), ex.submit(limconc, ctx, thorough)]
        errs = []
        for f in fs:
            try:
                f.result()
            except vf.MachineryError as e:
                errs.append(e)
        if errs:
            raise errs[0]


SEG_MODELS = {
    # name: (module, nk, nv, segOf, prog, S)
    "W2": ("MC_W2", 4, 2, [0, 0, 1, 1],
           {"1": [{"k": 1, "v": 1}, {"k": 3, "v": 1}, {"k": 2, "v": 1}],
            "2": [{"k": 2, "v": 2}, {"k": 4, "v": 2}, {"k": 1, "v": 2}]}, 2),
}


def segcache(ctx, thorough):
    for cap in (1, 2):
        ctx.tlc("SegCache", "MC_W2.tla", "MC_W2_cap%d.cfg" % cap, workers=8, timeout=900, heap="8g")
    if thorough:
        for cfg in ("MC_W3_cap1.cfg", "MC_W3_cap2.cfg", "MC_W3_cap3.cfg"):
            ctx.tlc("SegCache", "MC_W3.tla", cfg, workers=16, timeout=3000, heap="24g")
    total_traces = 0
    for cap in (1, 2):
        module, nk, nv, seg_of, prog, S = SEG_MODELS["W2"]
        behs = ctx.tlc_behaviours("SegCache", "MC_W2.tla", "Sim_W2_cap%d.cfg" % cap,
                                  num=400 if not thorough else 6000, depth=60)
        scheds = []
        seen = set()
        for b in behs:
            labs = [x[0] for x in b[1:]]
            key = ";".join(labs)
            if key not in seen:
                seen.add(key)
                scheds.append(labs)
        trace = os.path.join(ctx.scratch, "segtrace_cap%d.ndjson" % cap)
        inp = {"cap": cap, "s": S, "nk": nk, "nv": nv, "segOf": seg_of, "prog": prog,
               "schedules": scheds, "traceOut": trace}
        res = ctx.go_driver("./c16", "TestSegCacheSchedules", inp, name="seg_cap%d" % cap, timeout=900)
        ctx.take_driver_result(res, "[SegCache cap=%d] " % cap)
        if res.get("skipped"):
            raise vf.MachineryError("SegCache schedule replay stalled: %s" % res["skipped"][:3])
        info = {"schedules": len(scheds), "steps": res["counters"].get("steps", 0),
                "steps_not_enabled": res["counters"].get("steps_not_enabled", 0),
                "events": res["counters"].get("events", 0)}
        # code -> spec: validate the recorded executions
        nlines = sum(1 for _ in open(trace))
        ok, r = ctx.tlc_trace("SegCache", "Trace_W2.tla", "Trace_W2_cap%d.cfg" % cap, trace, timeout=900)
        info["trace_lines"] = nlines
        info["trace_matched"] = max(0, r.depth - 1)
        if r.violated and r.violated != "TraceAccepted":
            # an invariant failed on a state reached by the real execution
            lines = open(trace).read().splitlines()[: r.depth + 1]
            ctx.violation("segcache/trace/" + r.violated,
                          "[SegCache cap=%d] invariant %s is false on a recorded execution of cache.Cache "
                          "(trace line %d)" % (cap, r.violated, r.depth), {"trace_prefix": lines[-40:]})
        elif not ok:
            if res.get("violations"):
                ctx.log("trace rejected after %d of %d lines (driver already reported a violation)" % (r.depth - 1, nlines))
            else:
                ctx.cov["drift"] += 1
                ctx.log("DRIFT: recorded execution not explained by SegCache.tla after %d of %d lines; "
                        "no property predicate failed" % (r.depth - 1, nlines))
                info["trace_rejected_tail"] = r.out.splitlines()[-15:]
        else:
            total_traces += len(scheds)
        ctx.cov["replay"]["segcache_cap%d" % cap] = info
    ctx.cov["traces_validated_against_impl"] += total_traces


def linmap(ctx, thorough, prefix=""):
    """Free-running concurrent histories of the real cache.Cache judged by Trace_LinMap.tla."""
    import json
    trace = os.path.join(ctx.scratch, "linmap.ndjson")
    inp = {"rounds": 200 if not thorough else 2000, "procs": 6, "ops": 5, "nk": 3, "traceOut": trace}
    res = ctx.go_driver("./c16", "TestLinMapStress", inp, name="linmap", timeout=900)
    ctx.take_driver_result(res, prefix + "[LinMap] ")
    c = res.get("counters", {})
    if c.get("overlapping_calls", 0) < inp["rounds"]:
        raise vf.MachineryError("LinMap histories contain too few overlapping calls (%s): vacuous" % c)
    lines = open(trace).read().splitlines()
    ok, r = ctx.tlc_trace("SegCache", "Trace_LinMap.tla", "Trace_LinMap.cfg", trace, timeout=1800, deque=False)
    m = re.search(r'"linmap-high-water", (\d+), (\d+)', r.out)
    if not m:
        raise vf.MachineryError("Trace_LinMap did not reach its postcondition\n" + "\n".join(r.out.splitlines()[-30:]))
    hw, total = int(m.group(1)), int(m.group(2))
    info = {"rounds": inp["rounds"], "calls": c.get("calls", 0), "overlapping_calls": c.get("overlapping_calls", 0),
            "lines": total, "explained": min(hw - 1, total) if hw else 0, "tlc_states": r.distinct}
    ctx.cov["replay"]["linmap"] = info
    ctx.log("Trace_LinMap: %d of %d lines explained, %d states" % (info["explained"], total, r.distinct))
    if ok:
        ctx.cov["traces_validated_against_impl"] += inp["rounds"]
        ctx.cov["evaluations"] += c.get("calls", 0)
        # binding: a falsified response must be rejected
        objs = [json.loads(x) for x in lines]
        # (a flipped call result may still be linearizable next to concurrent calls; a quiescent length is not)
        for o in objs:
            if o["t"] == "q":
                o["len"] += 1
                break
        else:
            raise vf.MachineryError("tamper test: no quiescent line in the history")
        bad = os.path.join(ctx.scratch, "linmap_tampered.ndjson")
        with open(bad, "w") as f:
            for o in objs:
                f.write(json.dumps(o) + "\n")
        okb, _ = ctx.tlc_trace("SegCache", "Trace_LinMap.tla", "Trace_LinMap.cfg", bad, timeout=1800, deque=False)
        if okb:
            raise vf.MachineryError("tamper test: Trace_LinMap accepted a falsified history (binding lost)")
        info["tamper_rejected"] = True
        return
    # the line that could not be consumed and its round
    k = min(hw, total)
    stuck = json.loads(lines[k - 1])
    rnd = stuck.get("round")
    rlines = [x for x in lines if json.loads(x).get("round") == rnd]
    head = json.loads(rlines[0])
    if stuck["t"] == "q":
        what = ("after the writers stopped, Get / iteration / Len disagree with every order in which the recorded calls "
                "could have taken effect: get=%s iter=%s len=%s" % (stuck.get("get"), stuck.get("iter"), stuck.get("len")))
        key = "linmap/quiescent"
    else:
        what = ("the result of %s by goroutine %s (ok=%s v=%s) is not explained by any placement of the concurrent calls: "
                "the table did not behave as a map" % (stuck.get("op"), stuck.get("p"), stuck.get("ok"), stuck.get("v")))
        key = "linmap/" + str(stuck.get("op"))
    ctx.violation(key, "%s[LinMap %s cap=%s] %s" % (prefix, head.get("kind"), head.get("cap"), what),
                  {"driver": "linmap", "round": rnd, "kind": head.get("kind"), "history": rlines, "seed": ctx.seed})


LS_KEYS = [0, 0x1111111111111111, 0xFFFFFFFFFFFFFFFF, 0x8000000000000000]


def limstore(ctx, thorough, prefix=""):
    """LimStore.tla <-> middleware/ratelimit.LimiterStore: exhaustive model (as-built passes, the
    evict-after-insert mutant fails in the sampled regime), TLC-chosen call sequences on the real store in both
    regimes, the recorded observations validated against Trace_LimStore.tla, and a volume stage."""
    from concurrent.futures import ThreadPoolExecutor
    ctx.spec_dir("LimStore")

    def mc(cfg, must):
        return ctx.tlc("LimStore", "MC_LimStore.tla", cfg, workers=4, timeout=600, heap="3g", must_pass=must,
                       count=must, tag=None if must else "mutant-must-fail")
    with ThreadPoolExecutor(3) as ex:
        fs = [ex.submit(mc, "MC_LimStore_exact.cfg", True), ex.submit(mc, "MC_LimStore_sampled.cfg", True),
              ex.submit(mc, "MC_LimStore_sampled_mutant.cfg", False)]
        rs = [f.result() for f in fs]
    if rs[2].violated != "JustWrittenStays":
        raise vf.MachineryError("MC_LimStore_sampled_mutant: expected JustWrittenStays to fail, got %r" % rs[2].violated)
    for regime, fill in (("exact", 0), ("sampled", 1000)):
        behs = ctx.tlc_behaviours("LimStore", "MC_LimStore.tla", "Sim_LimStore_%s.cfg" % regime,
                                  num=150 if not thorough else 1500, depth=10, timeout=600)
        seqs, seen = [], set()
        for b in behs:
            steps = [s["last"] for _, s in b[1:]]
            k = repr(steps)
            if k not in seen and steps:
                seen.add(k)
                seqs.append(steps)
        trace = os.path.join(ctx.scratch, "limstore_%s.ndjson" % regime)
        inp = {"regime": regime, "fill": fill, "room": 2, "keys": LS_KEYS, "behaviours": seqs,
               "volume": 0 if regime == "exact" else (40000 if not thorough else 400000), "traceOut": trace}
        res = ctx.go_driver("./c16", "TestLimStore", inp, name="limstore_" + regime, timeout=900)
        ctx.take_driver_result(res, prefix + "[LimStore %s] " % regime)
        c = res.get("counters", {})
        if not res.get("violations"):
            if c.get("gets", 0) == 0 or (regime == "sampled" and c.get("volume_inserts", 0) < inp["volume"] * 0.9):
                raise vf.MachineryError("LimStore %s replay was vacuous: %s" % (regime, c))
            if regime == "exact" and c.get("evictions_key", 0) == 0:
                raise vf.MachineryError("LimStore exact replay saw no eviction: %s" % c)
        info = {"behaviours": len(seqs), "counters": c, "drift": res["drift"], "drift_notes": res.get("drift_notes", [])[:5]}
        ctx.cov["replay"]["limstore_" + regime] = info
        if res.get("violations"):
            continue
        nlines = sum(1 for _ in open(trace))
        ok, r = ctx.tlc_trace("LimStore", "Trace_LimStore.tla", "Trace_LimStore_%s.cfg" % regime, trace, timeout=900)
        info["trace_lines"] = nlines
        info["trace_matched"] = max(0, r.depth - 1)
        if r.violated:
            ctx.violation("limstore/%s/trace/%s" % (regime, r.violated),
                          prefix + "[LimStore %s] %s is false on a history recorded from the real LimiterStore (line %d of the trace)" % (regime, r.violated, r.depth),
                          {"driver": "limstore", "regime": regime, "input": inp})
        elif not ok:
            ctx.cov["drift"] += 1
            info["drift_notes"].append("Trace_LimStore_%s matched %d of %d lines" % (regime, r.depth - 1, nlines))
            ctx.log("DRIFT LimStore %s: trace matched %d of %d lines" % (regime, r.depth - 1, nlines))
        else:
            ctx.cov["traces_validated_against_impl"] += len(seqs)


# ---------------------------------------------------------------------------------------------------------
# ExpCache tier: middleware/cache.PositiveCache / NegativeCache (Get with expiry cleanup, Set, Remove)
# ---------------------------------------------------------------------------------------------------------
EXP_DEAD = [1, 2]
EXP_NENTS = 6
EXP_MAXPROCS = 8         # Trace_ExpMap.cfg


def exp_groups(beh):
    """One SpecBatched behaviour of MC_Exp.tla -> groups of calls for TestExpCacheBatches.  A batch (conc) is the
    stretch during which some reader sits between Load and Cleanup: its Gets and the writer calls made meanwhile."""
    groups, batch, spill = [], None, []
    for _, st in beh[1:]:
        o, ph = st["out"], st["ph"]
        a = o["a"]
        if a == "cleanup":
            op = None                                  # second half of a Get that is already in the batch
        elif a in ("get", "load"):
            op = {"op": "get", "p": o["r"], "k": o["k"], "e": 0}
        elif a in ("set", "rem"):
            op = {"op": a, "p": 0, "k": o["k"], "e": o["e"]}
        elif a == "exp":
            op = {"op": "exp", "p": 0, "k": 0, "e": o["e"]}
        else:
            raise vf.MachineryError("ExpCache behaviour: unknown step %r" % (o,))
        if batch is None and ph != "open":
            batch, spill = [], []
        if batch is not None:
            if op is not None:
                # every call of a batch runs on its own goroutine (a reader of the model may make several Gets
                # while another one sits between Load and Cleanup): history proc ids 1..EXP_MAXPROCS
                if len(batch) < EXP_MAXPROCS:
                    op["p"] = len(batch) + 1
                    batch.append(op)
                else:
                    op["p"] = 1
                    spill.append({"conc": False, "ops": [op]})
            if ph == "open":
                groups.append({"conc": len(batch) > 1, "ops": batch})
                groups += spill
                batch = None
            continue
        if op is not None:
            op["p"] = 1
            groups.append({"conc": False, "ops": [op]})
    if batch:
        groups.append({"conc": len(batch) > 1, "ops": batch})
        groups += spill
    return groups


def exp_lost_entry(rlines, stuck):
    """Best-effort naming of the entry a rejected quiescent line misses: stored last under its key, never expired,
    no Remove of the key invoked after it."""
    if stuck.get("t") != "q":
        return ""
    objs = [json.loads(x) for x in rlines]
    dead = set(objs[0].get("dead") or [])
    out = []
    for k, have in enumerate(stuck.get("raw") or [], start=1):
        last, gone = 0, set(dead)
        for o in objs:
            if o is stuck or (o["t"] == "q" and o == stuck):
                break
            if o["t"] == "exp":
                gone.add(o["a"])
            elif o["t"] == "inv" and o.get("k") == k and o["op"] == "set":
                last = o["a"]
            elif o["t"] == "inv" and o.get("k") == k and o["op"] == "rem":
                last = 0
        if last and last not in gone and have != last:
            out.append("key %d holds %s although entry %d was stored last under it, is within its lifetime and was "
                       "never removed" % (k, have or "nothing", last))
    return "; ".join(out)


def expcache(ctx, thorough, prefix=""):
    """ExpCache.tla <-> the answer cache's positive / negative sub-caches: exhaustive interleaving model (the code's
    compare-and-delete cleanup passes, the unconditional-remove mutant fails), TLC-chosen batches steered on the real
    sub-caches through the segment locks, the recorded histories judged by Trace_ExpMap.tla."""
    from concurrent.futures import ThreadPoolExecutor
    ctx.spec_dir("SegCache")

    def mc(cfg, must):
        return ctx.tlc("SegCache", "MC_Exp.tla", cfg, workers=4, timeout=600, heap="3g", must_pass=must,
                       count=must, tag=None if must else "mutant-must-fail")
    with ThreadPoolExecutor(3) as ex:
        fs = [ex.submit(mc, "MC_Exp_cad.cfg", True), ex.submit(mc, "MC_Exp_remove.cfg", False),
              ex.submit(mc, "MC_Exp_remove_id.cfg", False)]
        rs = [f.result() for f in fs]
    for r, cfg, want in ((rs[1], "MC_Exp_remove", "FreshStays"), (rs[2], "MC_Exp_remove_id", "CleanupIdentity")):
        if r.violated != want:
            raise vf.MachineryError("%s: expected %s to fail, got %r" % (cfg, want, r.violated))
    behs = ctx.tlc_behaviours("SegCache", "MC_Exp.tla", "Sim_Exp.cfg", num=90 if not thorough else 1500, depth=30,
                              timeout=600)
    seen, scripts = set(), []
    for b in behs:
        g = exp_groups(b)
        k = json.dumps(g, sort_keys=True)
        if g and k not in seen:
            seen.add(k)
            scripts.append(g)
    trace = os.path.join(ctx.scratch, "expcache.ndjson")
    inp = {"nk": 2, "nents": EXP_NENTS, "dead": EXP_DEAD, "behaviours": scripts, "kinds": ["positive", "negative"],
           "traceOut": trace}
    res = ctx.go_driver("./c16", "TestExpCacheBatches", inp, name="expcache", timeout=900)
    ctx.take_driver_result(res, prefix + "[ExpCache] ")
    c = res.get("counters", {})
    if res.get("skipped"):
        raise vf.MachineryError("ExpCache batches stalled: %s" % res["skipped"][:3])
    # vacuity: enough batches in which an expiry cleanup really ran after a fresh Set had been published
    if c.get("batches_steered", 0) < 20:
        raise vf.MachineryError("ExpCache: too few steered batches (%s): vacuous" % c)
    lines = open(trace).read().splitlines()
    ok, r = ctx.tlc_trace("SegCache", "Trace_ExpMap.tla", "Trace_ExpMap.cfg", trace, timeout=1800, deque=False)
    m = re.search(r'"expmap-high-water", (\d+), (\d+)', r.out)
    if not m:
        raise vf.MachineryError("Trace_ExpMap did not reach its postcondition\n" + "\n".join(r.out.splitlines()[-30:]))
    hw, total = int(m.group(1)), int(m.group(2))
    info = {"behaviours": len(scripts), "counters": c, "lines": total, "explained": min(hw - 1, total) if hw else 0,
            "tlc_states": r.distinct}
    ctx.cov["replay"]["expcache"] = info
    ctx.log("Trace_ExpMap: %d of %d lines explained, %d states; %s" % (info["explained"], total, r.distinct, c))
    for s in scripts:
        ctx._distinct.add("exp:" + json.dumps(s, sort_keys=True))
    if ok:
        ctx.cov["traces_validated_against_impl"] += c.get("rounds", 0)
        ctx.cov["evaluations"] += c.get("calls", 0)
        # binding: a falsified observation must be rejected
        objs = [json.loads(x) for x in lines]
        for o in objs:
            if o["t"] == "q" and any(o["raw"]):
                o["raw"] = [0 for _ in o["raw"]]
                break
        else:
            raise vf.MachineryError("tamper test: no quiescent line with a stored entry in the history")
        bad = os.path.join(ctx.scratch, "expcache_tampered.ndjson")
        with open(bad, "w") as f:
            for o in objs:
                f.write(json.dumps(o) + "\n")
        okb, _ = ctx.tlc_trace("SegCache", "Trace_ExpMap.tla", "Trace_ExpMap.cfg", bad, timeout=1800, deque=False)
        if okb:
            raise vf.MachineryError("tamper test: Trace_ExpMap accepted a falsified history (binding lost)")
        info["tamper_rejected"] = True
        return
    k = min(hw, total)
    stuck = json.loads(lines[k - 1])
    rnd = stuck.get("round")
    rlines = [x for x in lines if json.loads(x).get("round") == rnd]
    head = json.loads(rlines[0])
    detail = exp_lost_entry(rlines, stuck)
    if stuck["t"] == "q":
        what = ("with no call in flight the table holds %s (len %s), which no order of the recorded calls explains: "
                % (stuck.get("raw"), stuck.get("len"))) + (detail or (
                "an entry that was stored last under its key, is within its lifetime and was never removed is gone, or an "
                "entry left the table other than through Remove or the expiry cleanup of the reader that loaded it"))
        key = "expcache/quiescent"
    else:
        what = ("the result of %s by goroutine %s (ok=%s v=%s) is not explained by any placement of the concurrent calls: "
                "the key does not yield the entry most recently stored under it" % (stuck.get("op"), stuck.get("p"),
                                                                                 stuck.get("ok"), stuck.get("v")))
        key = "expcache/" + str(stuck.get("op"))
    ctx.violation(key, "%s[ExpCache %s] %s" % (prefix, head.get("kind"), what),
                  {"driver": "expcache", "round": rnd, "kind": head.get("kind"), "history": rlines, "seed": ctx.seed})


# ---------------------------------------------------------------------------------------------------------
# LimConc tier: middleware/ratelimit.LimiterStore with several clients inside Get at once
# ---------------------------------------------------------------------------------------------------------
LC_KEYS = [0, 0x1111111111111111, 0xFFFFFFFFFFFFFFFF]      # model keys 0..2 of the LimConc configs
LC_MAXPROCS = 8                                            # Trace_LimConc.cfg


def lc_groups(beh):
    """One SpecBatched behaviour of MC_LimConc.tla -> groups of calls for TestLimConc.  A batch (conc) is the stretch
    during which some client sits between RLook and WIns: the Gets begun meanwhile, each on its own goroutine."""
    groups, batch, spill = [], None, []
    prev = beh[0][1]
    for _, st in beh[1:]:
        o, ph = st["last"], st["ph"]
        if o["op"] == "look":
            op = {"op": "get", "p": 1, "k": o["k"]}
        elif o["op"] == "get":
            # a write-locked section (some client left `cl`) completes a Get that is already in the batch
            op = None if st["cl"] != prev["cl"] else {"op": "get", "p": 1, "k": o["k"]}
        elif o["op"] == "cleanup":
            op = {"op": "cleanup", "p": 1, "k": o["k"]}
        else:
            raise vf.MachineryError("LimConc behaviour: unknown step %r" % (o,))
        prev = st
        if batch is None and ph != "open":
            batch, spill = [], []
        if batch is not None:
            if op is not None:
                if len(batch) < LC_MAXPROCS:
                    op["p"] = len(batch) + 1
                    batch.append(op)
                else:
                    spill.append({"conc": False, "ops": [op]})
            if ph == "open":
                groups.append({"conc": len(batch) > 1, "ops": batch})
                groups += spill
                batch = None
            continue
        if op is not None:
            groups.append({"conc": False, "ops": [op]})
    if batch:
        groups.append({"conc": len(batch) > 1, "ops": batch})
        groups += spill
    return groups


def limconc(ctx, thorough, prefix=""):
    """LimConc.tla <-> the real LimiterStore under concurrent clients: exhaustive interleaving model (the code's
    re-check under the write lock passes, the no-re-check mutant fails GetOrCreate and EvictsOnlyAtBound), TLC-chosen
    batches forced on the real store through its own lock in both eviction regimes, the recorded histories judged
    by Trace_LimConc.tla."""
    from concurrent.futures import ThreadPoolExecutor
    ctx.spec_dir("LimStore")

    def mc(cfg, must):
        return ctx.tlc("LimStore", "MC_LimConc.tla", cfg, workers=4, timeout=600, heap="3g", must_pass=must,
                       count=must, tag=None if must else "mutant-must-fail")
    with ThreadPoolExecutor(4) as ex:
        fs = [ex.submit(mc, "MC_LimConc_exact.cfg", True), ex.submit(mc, "MC_LimConc_sampled.cfg", True),
              ex.submit(mc, "MC_LimConc_norecheck.cfg", False), ex.submit(mc, "MC_LimConc_norecheck_evict.cfg", False)]
        rs = [f.result() for f in fs]
    for r, cfg, want in ((rs[2], "MC_LimConc_norecheck", "GetOrCreate"),
                         (rs[3], "MC_LimConc_norecheck_evict", "EvictsOnlyAtBound")):
        if r.violated != want:
            raise vf.MachineryError("%s: expected %s to fail, got %r" % (cfg, want, r.violated))
    trace = os.path.join(ctx.scratch, "limconc.ndjson")
    totals = {}
    nscripts = 0
    with open(trace, "w") as allf:
        for regime, fill in (("exact", 0), ("sampled", 1000)):
            behs = ctx.tlc_behaviours("LimStore", "MC_LimConc.tla", "Sim_LimConc_%s.cfg" % regime,
                                      num=120 if not thorough else 1500, depth=24, timeout=600)
            seen, scripts = set(), []
            for b in behs:
                g = lc_groups(b)
                k = json.dumps(g, sort_keys=True)
                if g and k not in seen:
                    seen.add(k)
                    scripts.append(g)
                    ctx._distinct.add("limconc:%s:%s" % (regime, k))
            part = os.path.join(ctx.scratch, "limconc_%s.ndjson" % regime)
            inp = {"regime": regime, "fill": fill, "room": 2, "keys": LC_KEYS, "behaviours": scripts, "traceOut": part}
            res = ctx.go_driver("./c16", "TestLimConc", inp, name="limconc_" + regime, timeout=900)
            ctx.take_driver_result(res, prefix + "[LimConc %s] " % regime)
            if res.get("skipped"):
                raise vf.MachineryError("LimConc %s: batches were not forced: %s" % (regime, res["skipped"][:3]))
            c = res.get("counters", {})
            # vacuity: clients really raced to create one key, below and at the bound
            if c.get("batches_contended_creation", 0) < 20 or c.get("batches_contended_creation_at_bound", 0) < 5:
                raise vf.MachineryError("LimConc %s: too few contended creations (%s): vacuous" % (regime, c))
            for k, v in c.items():
                totals[regime + "_" + k] = v
            nscripts += len(scripts)
            allf.write(open(part).read())
    lines = open(trace).read().splitlines()
    ok, r = ctx.tlc_trace("LimStore", "Trace_LimConc.tla", "Trace_LimConc.cfg", trace, timeout=1800, deque=False)
    m = re.search(r'"limconc-high-water", (\d+), (\d+)', r.out)
    if not m:
        raise vf.MachineryError("Trace_LimConc did not reach its postcondition\n" + "\n".join(r.out.splitlines()[-30:]))
    hw, total = int(m.group(1)), int(m.group(2))
    info = {"behaviours": nscripts, "counters": totals, "lines": total, "explained": min(hw - 1, total) if hw else 0,
            "tlc_states": r.distinct}
    ctx.cov["replay"]["limconc"] = info
    ctx.log("Trace_LimConc: %d of %d lines explained, %d states; %s" % (info["explained"], total, r.distinct, totals))
    if ok:
        ctx.cov["traces_validated_against_impl"] += nscripts
        ctx.cov["evaluations"] += totals.get("exact_gets", 0) + totals.get("sampled_gets", 0)
        # binding: a falsified observation must be rejected
        objs = [json.loads(x) for x in lines]
        for o in objs:
            if o["t"] == "q" and any(o["store"]):
                o["len"] -= 1
                break
        else:
            raise vf.MachineryError("tamper test: no quiescent line with a mapped key in the history")
        bad = os.path.join(ctx.scratch, "limconc_tampered.ndjson")
        with open(bad, "w") as f:
            for o in objs:
                f.write(json.dumps(o) + "\n")
        okb, _ = ctx.tlc_trace("LimStore", "Trace_LimConc.tla", "Trace_LimConc.cfg", bad, timeout=1800, deque=False)
        if okb:
            raise vf.MachineryError("tamper test: Trace_LimConc accepted a falsified history (binding lost)")
        info["tamper_rejected"] = True
        return
    k = min(hw, total)
    # the line that could not be consumed, and its round (rounds restart per regime: walk back to the reset line)
    j = k - 1
    while j > 0 and json.loads(lines[j])["t"] != "reset":
        j -= 1
    head = json.loads(lines[j])
    e = j + 1
    while e < total and json.loads(lines[e])["t"] != "reset":
        e += 1
    rlines = lines[j:e]
    stuck = json.loads(lines[k - 1])
    if stuck["t"] == "q":
        what = ("with no call in flight the store maps %s (len %s, bound %s), which no order of the recorded Gets explains: "
                "storing one key cost more than one resident entry, or a mapping changed without an eviction"
                % (stuck.get("store"), stuck.get("len"), head.get("max")))
        key = "limconc/quiescent"
    elif stuck["t"] == "cleanup":
        what = "Cleanup left the store mapping %s, which is not a sub-map of what it held" % (stuck.get("store"),)
        key = "limconc/cleanup"
    else:
        # the Gets in flight around the stuck line, per key: who was handed what
        by_key = {}
        b0 = k - 1
        while b0 > j and json.loads(lines[b0 - 1])["t"] in ("inv", "res"):
            b0 -= 1
        b1 = k - 1
        while b1 < e and json.loads(lines[b1])["t"] in ("inv", "res"):
            b1 += 1
        for x in lines[b0:b1]:
            o = json.loads(x)
            if o["t"] == "inv":
                by_key.setdefault(o["k"] - 1, set()).add(o["rid"])
        split = ["key %d -> limiters %s" % (kk, sorted(v)) for kk, v in sorted(by_key.items()) if len(v) > 1]
        what = ("the limiters handed out by concurrent Gets are not explained by any order of get-or-create on a map: "
                "a client was handed a limiter its key does not yield%s" % ((" (" + "; ".join(split) + ")") if split else ""))
        key = "limconc/get"
    ctx.violation(key, "%s[LimConc %s] %s" % (prefix, head.get("kind"), what),
                  {"driver": "limconc", "regime": head.get("kind"), "round": head.get("round"), "history": rlines,
                   "seed": ctx.seed})
