"""C16 -- bounded concurrent tables behave as maps and stay within capacity.

ProbeMap.tla  (UInt64Map, literal)  : TLC exhaustive + every-edge replay + simulate replay
SegCache.tla  (SegmentUInt64Map + cache.Cache) : TLC exhaustive over writer interleavings,
              TLC-chosen schedules forced on the real cache through the verif gate hook,
              recorded concurrent traces validated by Trace_SegCache.
"""
import json
import os
import random
import re

import vf


def fn_list(f, lo, hi):
    """TLC function/sequence value -> python list indexed lo..hi."""
    if isinstance(f, list):  # sequence: domain 1..n
        return [f[i - 1] if 1 <= i <= len(f) else 0 for i in range(lo, hi + 1)]
    return [f.get(i, f.get(str(i), 0)) for i in range(lo, hi + 1)]


def pm_node(st, nk):
    n = st["n"]
    am = st["am"]
    if isinstance(am, list):  # no zero key: domain 1..NK
        aml = [0] + list(am)
    else:
        aml = fn_list(am, 0, nk)
    return {"am": aml, "slots": fn_list(st["data"], 0, n - 1), "n": n, "size": st["size"],
            "ideal8": fn_list(st["ideal8"], 1, nk), "ideal16": fn_list(st["ideal16"], 1, nk)}


def probemap_graph(ctx, cfg, nk, use_zero, timeout, shapes):
    spec = cfg.replace(".cfg", ".tla")
    r, nodes, edges, inits = ctx.tlc_graph("ProbeMap", spec, cfg, timeout=timeout, workers=4, heap="6g")
    # distinct labelled edges
    uniq = sorted(set(edges))
    paths = vf.cover_paths(nodes, uniq, inits, max_len=40)
    ctx.log("ProbeMap %s: %d nodes, %d labelled edges, %d covering paths" % (cfg, len(nodes), len(uniq), len(paths)))
    covered = set()
    inp = {"nk": nk, "useZero": use_zero, "shapes": shapes,
           "nodes": {k: pm_node(v, nk) for k, v in nodes.items()}, "paths": []}
    for p in paths:
        inp["paths"].append({"init": p[0][0], "steps": [{"l": e[2], "d": e[1]} for e in p]})
        covered.update(p)
    if len(covered) != len(uniq):
        raise vf.MachineryError("edge cover incomplete: %d of %d" % (len(covered), len(uniq)))
    res = ctx.go_driver("./c16", "TestProbeMapReplay", inp, name="pm_" + cfg, timeout=900)
    ctx.take_driver_result(res, "[ProbeMap %s] " % cfg)
    ctx.cov["replay"]["probemap_" + cfg] = {
        "edges_covered": len(uniq), "paths": len(paths), "replays": res["cases"],
        "steps": res.get("counters", {}).get("steps", 0), "drift": res["drift"],
        "drift_notes": res.get("drift_notes", []), "skipped": res.get("skipped", [])}
    for e in uniq:
        ctx._distinct.add("pm-edge:%s:%s:%s" % e)
    if res.get("skipped"):
        raise vf.MachineryError("ProbeMap replay skipped cases: %s" % res["skipped"][:3])
    return r


def probemap_sim(ctx, cfg, nk, use_zero, num, depth, shapes):
    spec = cfg.replace(".cfg", ".tla")
    behs = ctx.tlc_behaviours("ProbeMap", spec, cfg, num=num, depth=depth)
    nodes, paths = {}, []
    for bi, b in enumerate(behs):
        ids = []
        for si, (lab, st) in enumerate(b):
            nid = "b%d_%d" % (bi, si)
            nodes[nid] = pm_node(st, nk)
            ids.append(nid)
        paths.append({"init": ids[0], "steps": [{"l": b[i][0], "d": ids[i]} for i in range(1, len(b))]})
        ctx._distinct.add("pm-sim:" + "|".join(x[0] for x in b))
    inp = {"nk": nk, "useZero": use_zero, "shapes": shapes, "nodes": nodes, "paths": paths}
    res = ctx.go_driver("./c16", "TestProbeMapReplay", inp, name="pmsim_" + cfg, timeout=900)
    ctx.take_driver_result(res, "[ProbeMap sim %s] " % cfg)
    ctx.cov["replay"]["probemap_sim_" + cfg] = {
        "behaviours": len(behs), "depth": depth, "replays": res["cases"], "drift": res["drift"],
        "drift_notes": res.get("drift_notes", []), "skipped": res.get("skipped", [])}
    if res.get("skipped"):
        raise vf.MachineryError("ProbeMap sim replay skipped cases: %s" % res["skipped"][:3])


def run(ctx, replay):
    thorough = ctx.tier == "thorough"
    ctx.overlay_tags.add("x16ls")     # harness/c16 is one package: the LimStore accessors are needed from the first build
    ctx.cov["rule"] = ("behaviours = every labelled edge of the TLC state graph of ProbeMap (covering paths) "
                       "+ simulated behaviours, each replayed on the real UInt64Map under several real-key shapes; "
                       "SegCache schedules forced through the gate hook; distinct = distinct labelled edges / "
                       "behaviours / schedules")
    ctx.assumptions += [
        "real keys are searched so that primaryIndex(key)&7 and &15 equal the model's ideal slots (overlay shim VerifPrimaryIndex)",
        "tables above 16 slots are reached only by the trace direction",
    ]
    # ---- ProbeMap ------------------------------------------------------
    probemap_graph(ctx, "MC_Cluster8.cfg", 4, True, 600, shapes=4)
    probemap_sim(ctx, "MC_Wrap5.cfg", 5, True, num=300 if not thorough else 3000, depth=30, shapes=2)
    if thorough:
        ctx.tlc("ProbeMap", "MC_Adversarial.tla", "MC_Adversarial.cfg", timeout=3000, heap="24g")
        probemap_sim(ctx, "MC_Adversarial.cfg", 4, False, num=4000, depth=25, shapes=2)
        ctx.tlc("ProbeMap", "MC_Wrap5.tla", "MC_Wrap5.cfg", timeout=3000, heap="24g")
    segcache(ctx, thorough)
    linmap(ctx, thorough)
    limstore(ctx, thorough)


SEG_MODELS = {
    # name: (module, nk, nv, segOf, prog, S)
    "W2": ("MC_W2", 4, 2, [0, 0, 1, 1],
           {"1": [{"k": 1, "v": 1}, {"k": 3, "v": 1}, {"k": 2, "v": 1}],
            "2": [{"k": 2, "v": 2}, {"k": 4, "v": 2}, {"k": 1, "v": 2}]}, 2),
}


def segcache(ctx, thorough):
    for cap in (1, 2):
        ctx.tlc("SegCache", "MC_W2.tla", "MC_W2_cap%d.cfg" % cap, workers=8, timeout=900, heap="8g")
    if thorough:
        for cfg in ("MC_W3_cap1.cfg", "MC_W3_cap2.cfg", "MC_W3_cap3.cfg"):
            ctx.tlc("SegCache", "MC_W3.tla", cfg, workers=16, timeout=3000, heap="24g")
    total_traces = 0
    for cap in (1, 2):
        module, nk, nv, seg_of, prog, S = SEG_MODELS["W2"]
        behs = ctx.tlc_behaviours("SegCache", "MC_W2.tla", "Sim_W2_cap%d.cfg" % cap,
                                  num=400 if not thorough else 6000, depth=60)
        scheds = []
        seen = set()
        for b in behs:
            labs = [x[0] for x in b[1:]]
            key = ";".join(labs)
            if key not in seen:
                seen.add(key)
                scheds.append(labs)
        trace = os.path.join(ctx.scratch, "segtrace_cap%d.ndjson" % cap)
        inp = {"cap": cap, "s": S, "nk": nk, "nv": nv, "segOf": seg_of, "prog": prog,
               "schedules": scheds, "traceOut": trace}
        res = ctx.go_driver("./c16", "TestSegCacheSchedules", inp, name="seg_cap%d" % cap, timeout=900)
        ctx.take_driver_result(res, "[SegCache cap=%d] " % cap)
        if res.get("skipped"):
            raise vf.MachineryError("SegCache schedule replay stalled: %s" % res["skipped"][:3])
        info = {"schedules": len(scheds), "steps": res["counters"].get("steps", 0),
                "steps_not_enabled": res["counters"].get("steps_not_enabled", 0),
                "events": res["counters"].get("events", 0)}
        # code -> spec: validate the recorded executions
        nlines = sum(1 for _ in open(trace))
        ok, r = ctx.tlc_trace("SegCache", "Trace_W2.tla", "Trace_W2_cap%d.cfg" % cap, trace, timeout=900)
        info["trace_lines"] = nlines
        info["trace_matched"] = max(0, r.depth - 1)
        if r.violated and r.violated != "TraceAccepted":
            # an invariant failed on a state reached by the real execution
            lines = open(trace).read().splitlines()[: r.depth + 1]
            ctx.violation("segcache/trace/" + r.violated,
                          "[SegCache cap=%d] invariant %s is false on a recorded execution of cache.Cache "
                          "(trace line %d)" % (cap, r.violated, r.depth), {"trace_prefix": lines[-40:]})
        elif not ok:
            if res.get("violations"):
                ctx.log("trace rejected after %d of %d lines (driver already reported a violation)" % (r.depth - 1, nlines))
            else:
                ctx.cov["drift"] += 1
                ctx.log("DRIFT: recorded execution not explained by SegCache.tla after %d of %d lines; "
                        "no property predicate failed" % (r.depth - 1, nlines))
                info["trace_rejected_tail"] = r.out.splitlines()[-15:]
        else:
            total_traces += len(scheds)
        ctx.cov["replay"]["segcache_cap%d" % cap] = info
    ctx.cov["traces_validated_against_impl"] += total_traces


def linmap(ctx, thorough, prefix=""):
    """Free-running concurrent histories of the real cache.Cache judged by Trace_LinMap.tla."""
    import json
    trace = os.path.join(ctx.scratch, "linmap.ndjson")
    inp = {"rounds": 200 if not thorough else 2000, "procs": 6, "ops": 5, "nk": 3, "traceOut": trace}
    res = ctx.go_driver("./c16", "TestLinMapStress", inp, name="linmap", timeout=900)
    ctx.take_driver_result(res, prefix + "[LinMap] ")
    c = res.get("counters", {})
    if c.get("overlapping_calls", 0) < inp["rounds"]:
        raise vf.MachineryError("LinMap histories contain too few overlapping calls (%s): vacuous" % c)
    lines = open(trace).read().splitlines()
    ok, r = ctx.tlc_trace("SegCache", "Trace_LinMap.tla", "Trace_LinMap.cfg", trace, timeout=1800, deque=False)
    m = re.search(r'"linmap-high-water", (\d+), (\d+)', r.out)
    if not m:
        raise vf.MachineryError("Trace_LinMap did not reach its postcondition\n" + "\n".join(r.out.splitlines()[-30:]))
    hw, total = int(m.group(1)), int(m.group(2))
    info = {"rounds": inp["rounds"], "calls": c.get("calls", 0), "overlapping_calls": c.get("overlapping_calls", 0),
            "lines": total, "explained": min(hw - 1, total) if hw else 0, "tlc_states": r.distinct}
    ctx.cov["replay"]["linmap"] = info
    ctx.log("Trace_LinMap: %d of %d lines explained, %d states" % (info["explained"], total, r.distinct))
    if ok:
        ctx.cov["traces_validated_against_impl"] += inp["rounds"]
        ctx.cov["evaluations"] += c.get("calls", 0)
        # binding: a falsified response must be rejected
        objs = [json.loads(x) for x in lines]
        # (a flipped call result may still be linearizable next to concurrent calls; a quiescent length is not)
        for o in objs:
            if o["t"] == "q":
                o["len"] += 1
                break
        else:
            raise vf.MachineryError("tamper test: no quiescent line in the history")
        bad = os.path.join(ctx.scratch, "linmap_tampered.ndjson")
        with open(bad, "w") as f:
            for o in objs:
                f.write(json.dumps(o) + "\n")
        okb, _ = ctx.tlc_trace("SegCache", "Trace_LinMap.tla", "Trace_LinMap.cfg", bad, timeout=1800, deque=False)
        if okb:
            raise vf.MachineryError("tamper test: Trace_LinMap accepted a falsified history (binding lost)")
        info["tamper_rejected"] = True
        return
    # the line that could not be consumed and its round
    k = min(hw, total)
    stuck = json.loads(lines[k - 1])
    rnd = stuck.get("round")
    rlines = [x for x in lines if json.loads(x).get("round") == rnd]
    head = json.loads(rlines[0])
    if stuck["t"] == "q":
        what = ("after the writers stopped, Get / iteration / Len disagree with every order in which the recorded calls "
                "could have taken effect: get=%s iter=%s len=%s" % (stuck.get("get"), stuck.get("iter"), stuck.get("len")))
        key = "linmap/quiescent"
    else:
        what = ("the result of %s by goroutine %s (ok=%s v=%s) is not explained by any placement of the concurrent calls: "
                "the table did not behave as a map" % (stuck.get("op"), stuck.get("p"), stuck.get("ok"), stuck.get("v")))
        key = "linmap/" + str(stuck.get("op"))
    ctx.violation(key, "%s[LinMap %s cap=%s] %s" % (prefix, head.get("kind"), head.get("cap"), what),
                  {"driver": "linmap", "round": rnd, "kind": head.get("kind"), "history": rlines, "seed": ctx.seed})


LS_KEYS = [0, 0x1111111111111111, 0xFFFFFFFFFFFFFFFF, 0x8000000000000000]


def limstore(ctx, thorough, prefix=""):
    """LimStore.tla <-> middleware/ratelimit.LimiterStore: exhaustive model (as-built passes, the
    evict-after-insert mutant fails in the sampled regime), TLC-chosen call sequences on the real store in both
    regimes, the recorded observations validated against Trace_LimStore.tla, and a volume stage."""
    from concurrent.futures import ThreadPoolExecutor
    ctx.spec_dir("LimStore")

    def mc(cfg, must):
        return ctx.tlc("LimStore", "MC_LimStore.tla", cfg, workers=4, timeout=600, heap="3g", must_pass=must,
                       count=must, tag=None if must else "mutant-must-fail")
    with ThreadPoolExecutor(3) as ex:
        fs = [ex.submit(mc, "MC_LimStore_exact.cfg", True), ex.submit(mc, "MC_LimStore_sampled.cfg", True),
              ex.submit(mc, "MC_LimStore_sampled_mutant.cfg", False)]
        rs = [f.result() for f in fs]
    if rs[2].violated != "JustWrittenStays":
        raise vf.MachineryError("MC_LimStore_sampled_mutant: expected JustWrittenStays to fail, got %r" % rs[2].violated)
    for regime, fill in (("exact", 0), ("sampled", 1000)):
        behs = ctx.tlc_behaviours("LimStore", "MC_LimStore.tla", "Sim_LimStore_%s.cfg" % regime,
                                  num=150 if not thorough else 1500, depth=10, timeout=600)
        seqs, seen = [], set()
        for b in behs:
            steps = [s["last"] for _, s in b[1:]]
            k = repr(steps)
            if k not in seen and steps:
                seen.add(k)
                seqs.append(steps)
        trace = os.path.join(ctx.scratch, "limstore_%s.ndjson" % regime)
        inp = {"regime": regime, "fill": fill, "room": 2, "keys": LS_KEYS, "behaviours": seqs,
               "volume": 0 if regime == "exact" else (40000 if not thorough else 400000), "traceOut": trace}
        res = ctx.go_driver("./c16", "TestLimStore", inp, name="limstore_" + regime, timeout=900)
        ctx.take_driver_result(res, prefix + "[LimStore %s] " % regime)
        c = res.get("counters", {})
        if not res.get("violations"):
            if c.get("gets", 0) == 0 or (regime == "sampled" and c.get("volume_inserts", 0) < inp["volume"] * 0.9):
                raise vf.MachineryError("LimStore %s replay was vacuous: %s" % (regime, c))
            if regime == "exact" and c.get("evictions_key", 0) == 0:
                raise vf.MachineryError("LimStore exact replay saw no eviction: %s" % c)
        info = {"behaviours": len(seqs), "counters": c, "drift": res["drift"], "drift_notes": res.get("drift_notes", [])[:5]}
        ctx.cov["replay"]["limstore_" + regime] = info
        if res.get("violations"):
            continue
        nlines = sum(1 for _ in open(trace))
        ok, r = ctx.tlc_trace("LimStore", "Trace_LimStore.tla", "Trace_LimStore_%s.cfg" % regime, trace, timeout=900)
        info["trace_lines"] = nlines
        info["trace_matched"] = max(0, r.depth - 1)
        if r.violated:
            ctx.violation("limstore/%s/trace/%s" % (regime, r.violated),
                          prefix + "[LimStore %s] %s is false on a history recorded from the real LimiterStore (line %d of the trace)" % (regime, r.violated, r.depth),
                          {"driver": "limstore", "regime": regime, "input": inp})
        elif not ok:
            ctx.cov["drift"] += 1
            info["drift_notes"].append("Trace_LimStore_%s matched %d of %d lines" % (regime, r.depth - 1, nlines))
            ctx.log("DRIFT LimStore %s: trace matched %d of %d lines" % (regime, r.depth - 1, nlines))
        else:
            ctx.cov["traces_validated_against_impl"] += len(seqs)
