"""C12 core -- the request-tree work ledger of the recursion firewall.

State-machine level of C12 (the topology / scripted-authority level is a separate driver merged
by checks/c12.py):

Ledger.tla   middleware.RecursionWorkLedger + the lazy owner pin of middleware.Chain
  - TLC exhaustive, every atomic of the code one action (CAS loop as load / compare-and-swap):
    three concurrent debitors on a cap-1 counter, lifecycle (pin, retain, release, finish) racing
    debits, per mode off / shadow / enforce; negative config (`>` instead of `>=` must violate
    AcceptedNeverExceedsCap).
  - spec->code: sequential call orders chosen by TLC replayed on the real exported API.
  - code->spec: concurrent stress histories (invocation/response lines under one harness-side
    sequence) validated by TLC against Trace_Ledger.tla, predicates evaluated directly in the driver.
"""
import json
import os

import vf

CAPS = {"out": 1, "int": 2, "key": 1}


def label_parts(lab):
    lab = lab.strip()
    if "(" not in lab:
        return lab, []
    name, rest = lab.split("(", 1)
    return name, [a.strip().strip('"') for a in rest.rstrip(")").split(",")]


def fn(v, key, default=None):
    if isinstance(v, list):
        i = int(key) - 1
        return v[i] if 0 <= i < len(v) else default
    return v.get(key, v.get(str(key), default))


def model_projection(st):
    cnt = st["counter"]
    return {"rootState": st["rootState"], "counter": {k: cnt[k] for k in cnt}, "exhausted": list(st["exhausted"]),
            "first": st["first"], "refs": st["refs"], "finished": st["finished"], "published": st["published"]}


START = {"DebitStart": "debit", "CheckLocal": "local", "RetainStart": "retain", "ReleaseStart": "release", "Finish": "finish"}


def ledger_ops(beh):
    """A sequential (Atomic) Ledger behaviour -> the API calls with model result and post-state."""
    ops, cur = [], None
    for i in range(1, len(beh)):
        lab, post = beh[i]
        name, a = label_parts(lab)
        if name in START:
            if cur is not None:
                raise vf.MachineryError("ledger behaviour is not sequential at %s" % lab)
            p = int(a[0])
            cur = {"label": lab, "op": START[name], "p": p, "k": "", "lt": False, "u": 0}
            if name == "DebitStart":
                cur.update(k=a[1], lt=a[2] == "TRUE")
            elif name == "CheckLocal":
                cur.update(k=a[1], u=int(a[2]), lt=a[3] == "TRUE")
        if cur is None:
            raise vf.MachineryError("ledger behaviour: internal step %s outside a call" % lab)
        if fn(post["pc"], cur["p"]) == "idle":
            cur["result"] = fn(post["lastRes"], cur["p"])
            cur["post"] = model_projection(post)
            ops.append(cur)
            cur = None
    return ops


def replay(ctx, thorough):
    plan = [("Enforce", "enforce", True, 150), ("Shadow", "shadow", True, 100), ("Off", "off", True, 40),
            ("EnforceDirect", "enforce", False, 80)]
    if thorough:
        plan = [(n, m, lz, num * 15) for n, m, lz, num in plan + [("ShadowDirect", "shadow", False, 80)]]
    runs, infos = [], {}
    for name, mode, lazy, num in plan:
        behs = ctx.tlc_behaviours("Ledger", "MC_Ledger.tla", "Sim_%s.cfg" % name, num=num, depth=70, timeout=900)
        uniq = {}
        kinds = {}
        for b in behs:
            ops = ledger_ops(b)
            if not ops:
                continue
            key = ";".join(o["label"] for o in ops)
            if key in uniq:
                continue
            uniq[key] = {"id": "%s-%d" % (name, len(uniq)), "ops": ops}
            for o in ops:
                kinds[o["op"] + ":" + str(o["result"])] = kinds.get(o["op"] + ":" + str(o["result"]), 0) + 1
        if len(uniq) < 10:
            raise vf.MachineryError("ledger replay %s: only %d distinct call orders (vacuous)" % (name, len(uniq)))
        need = {"enforce": ["debit:nil", "debit:limit", "retain:retained", "release:released"],
                "shadow": ["debit:nil", "retain:retained", "release:released"],
                "off": ["debit:nil", "debit:canceled"]}[mode]
        if lazy and mode != "off":
            need = need + ["debit:canceled", "retain:refused"]
        miss = [k for k in need if not kinds.get(k)]
        if miss:
            raise vf.MachineryError("ledger replay %s: no call with outcome %s among the behaviours (vacuous)" % (name, miss))
        runs.append({"name": name, "mode": mode, "lazy": lazy, "caps": CAPS, "behaviours": list(uniq.values())})
        infos[name] = {"tlc_behaviours": len(behs), "distinct_call_orders": len(uniq), "outcomes": kinds}
    res = ctx.go_driver("./c12", "TestLedgerReplay", {"runs": runs}, name="ledger_replay", timeout=1800)
    ctx.take_driver_result(res, "[ledger replay] ")
    cnt = res.get("counters", {})
    for name, info in infos.items():
        info.update(replayed=cnt.get("cases_" + name, 0), calls=cnt.get("calls_" + name, 0))
        ctx.cov["replay"]["ledger_replay_" + name] = info
    ctx.cov["replay"]["ledger_replay"] = {"drift": res["drift"], "drift_notes": res.get("drift_notes", []),
                                          "skipped": res.get("skipped", [])}
    if res.get("skipped"):
        raise vf.MachineryError("ledger replay skipped: %s" % res["skipped"][:3])
    if not res.get("violations"):
        for name, info in infos.items():
            if info["replayed"] != info["distinct_call_orders"]:
                raise vf.MachineryError("ledger replay %s ran %d of %d call orders" % (
                    name, info["replayed"], info["distinct_call_orders"]))


def stress(ctx, thorough):
    plan = [("Enforce", "enforce", True), ("Shadow", "shadow", True), ("Off", "off", True)]
    if thorough:
        plan += [("EnforceDirect", "enforce", False), ("ShadowDirect", "shadow", False)]
    rounds = 12 if not thorough else 150
    runs, traces = [], {}
    for name, mode, lazy in plan:
        traces[name] = os.path.join(ctx.scratch, "ledger_%s.ndjson" % name)
        base = {"mode": mode, "lazy": lazy, "caps": CAPS}
        # four goroutines with a recorded history, then many goroutines judged by the predicates only
        runs.append(dict(base, name=name, rounds=rounds, procs=4, ops=8, traceOut=traces[name]))
        runs.append(dict(base, name=name + "32", rounds=max(6, rounds // 4), procs=32, ops=40, traceOut=""))
    res = ctx.go_driver("./c12", "TestLedgerStress", {"runs": runs}, name="ledger_stress", timeout=1800)
    ctx.take_driver_result(res, "[ledger stress] ")
    cnt = res.get("counters", {})
    if res.get("skipped"):
        raise vf.MachineryError("ledger stress could not run: %s" % res["skipped"][:3])
    ok_traces = 0
    tampered = False
    for name, mode, lazy in plan:
        if res.get("violations"):
            break
        trace = traces[name]
        info = {"rounds": cnt.get("rounds_" + name, 0), "calls": cnt.get("calls_" + name, 0),
                "overlapping_calls": cnt.get("overlapping_calls_" + name, 0),
                "rounds32": cnt.get("rounds_" + name + "32", 0), "calls32": cnt.get("calls_" + name + "32", 0)}
        ctx.cov["replay"]["ledger_stress_" + name] = info
        if info["rounds"] != rounds or info["rounds32"] == 0:
            raise vf.MachineryError("ledger stress %s ran %d of %d rounds" % (name, info["rounds"], rounds))
        if info["overlapping_calls"] < 5:
            raise vf.MachineryError("ledger stress %s: the recorded histories contain no overlapping calls (vacuous)" % name)
        # code -> spec
        nlines = sum(1 for _ in open(trace))
        ok, r = ctx.tlc_trace("Ledger", "Trace_Ledger.tla", "Trace_%s.cfg" % name, trace, timeout=1500, deque=False)
        info["trace_lines"] = nlines
        if ok:
            ok_traces += cnt.get("traces_" + name, 0)
            info["trace_states"] = r.distinct
        elif r.violated and r.violated != "TraceAccepted":
            ctx.violation("ledger/trace/" + r.violated,
                          "[ledger stress %s] invariant %s is false on a recorded concurrent history of the "
                          "RecursionWorkLedger" % (name, r.violated), {"trace": open(trace).read().splitlines()[:400]})
        else:
            ctx.cov["drift"] += 1
            ctx.log("DRIFT: recorded ledger history (%s) is not explained by Ledger.tla; no property predicate failed" % name)
            info["trace_rejected_tail"] = r.out.splitlines()[-12:]
        # binding: a corrupted response must be rejected (once per run)
        if not tampered and ok and mode == "enforce":
            tampered = True
            lines = [json.loads(x) for x in open(trace)]
            for ln in lines:
                if ln.get("ev") == "res" and ln.get("op") == "debit" and ln.get("res") == "limit":
                    ln["res"] = "nil"
                    break
            else:
                raise vf.MachineryError("tamper test: no rejected debit in the %s history" % name)
            bad = os.path.join(ctx.scratch, "ledger_%s_tampered.ndjson" % name)
            with open(bad, "w") as f:
                for ln in lines:
                    f.write(json.dumps(ln) + "\n")
            okb, rb = ctx.tlc_trace("Ledger", "Trace_Ledger.tla", "Trace_%s.cfg" % name, bad, timeout=1500, deque=False)
            if okb:
                raise vf.MachineryError("tamper test: Trace_Ledger accepted a history in which an over-cap debit "
                                        "was accepted (binding lost)")
            info["tamper_rejected"] = True
    # the first debits of a tree released together (the CAS window)
    rounds_race = 30000 if not thorough else 300000
    resr = ctx.go_driver("./c12", "TestLedgerCapRace", {"rounds": rounds_race, "procs": 8}, name="ledger_race", timeout=900)
    ctx.take_driver_result(resr, "[ledger cap race] ")
    ctx.cov["replay"]["ledger_cap_race"] = {"rounds": rounds_race, "debits": resr.get("counters", {}).get("debits", 0)}
    if not resr.get("violations") and resr.get("counters", {}).get("debits", 0) < rounds_race * 8:
        raise vf.MachineryError("ledger cap race did not run all rounds")
    ctx.cov["traces_validated_against_impl"] += ok_traces
    if ok_traces == 0 and not ctx.violations:
        raise vf.MachineryError("no recorded ledger history was accepted by Trace_Ledger (binding lost)")


def model_check(ctx, thorough):
    quick = [("MC_EnforceDebit3.cfg", 4), ("MC_EnforceLocal2.cfg", 4), ("MC_EnforceLife2.cfg", 4),
             ("MC_ShadowDebit3.cfg", 2), ("MC_ShadowLocal2.cfg", 2), ("MC_ShadowLife2.cfg", 4), ("MC_OffLife2.cfg", 2)]
    full = quick + [("MC_EnforceAll2.cfg", 6), ("MC_ShadowAll2.cfg", 6), ("MC_OffAll2.cfg", 4), ("MC_EnforceDirect2.cfg", 6),
                    ("MC_ShadowDirect2.cfg", 6), ("MC_EnforceLife3.cfg", 8), ("MC_ShadowLife3.cfg", 8), ("MC_OffLife3.cfg", 4), ("MC_OffDebit3.cfg", 2),
                    ("MC_EnforceDebit3x3.cfg", 6), ("MC_ShadowDebit3x3.cfg", 6)]
    # -coverage on two configs that together contain every action of the model
    cov = {"MC_EnforceLife2.cfg": {"ShadowAdd", "CheckLocal", "LocalEnter"},
           "MC_ShadowLocal2.cfg": {"Load", "CAS", "MarkFirst", "RetainStart", "RetainEnter", "RetainLoad", "RetainCAS",
                                   "ReleaseStart", "ReleaseDec", "ReleaseFin", "Publish", "Finish", "FinishEnter"}}
    for cfg, w in (full if thorough else quick):
        args = ["-coverage", "1"] if cfg in cov else []
        r = ctx.tlc("Ledger", "MC_Ledger.tla", cfg, workers=w, timeout=2400, heap="10g", tag="exhaustive", args=args)
        if cfg in cov:
            zero = [a for a in r.zero_coverage() if a not in cov[cfg]]
            if zero:
                raise vf.MachineryError("Ledger actions never taken in %s: %s" % (cfg, zero))
    r = ctx.tlc("Ledger", "MC_Ledger.tla", "MC_NegGt.cfg", workers=2, timeout=300, heap="4g", must_pass=False,
                tag="negative", count=False)
    if r.violated != "AcceptedNeverExceedsCap":
        raise vf.MachineryError("negative config MC_NegGt did not violate AcceptedNeverExceedsCap (got %s)" % r.violated)


def replay_core(ctx, path):
    """bin/check C12 --replay <file>: re-run exactly the recorded failing case."""
    with open(path) as f:
        rec = json.load(f)
    rp = rec.get("replay", rec)
    drv = rp.get("driver")
    if drv == "ledger-replay":
        ctx.seed = int(rec.get("seed", ctx.seed))
        # the kind mapping is chosen by (behaviour index + seed); put the behaviour at the same residue
        idx = {"network": 0, "dnssec": 1, "mixed": 2}[rp["kinds"]]
        pad = (idx - ctx.seed) % 3
        filler = {"id": "pad", "ops": []}
        inp = {"runs": [{"name": "replay", "mode": rp["mode"], "lazy": rp["lazy"], "caps": rp["caps"],
                         "behaviours": [filler] * pad + [rp["behaviour_full"]]}]}
        res = ctx.go_driver("./c12", "TestLedgerReplay", inp, name="replay_ledger", timeout=600)
    elif drv == "ledger-race":
        ctx.seed = int(rp.get("seed", ctx.seed))
        res = ctx.go_driver("./c12", "TestLedgerCapRace", {"rounds": int(rp.get("round", 0)) + 6000, "procs": rp.get("procs", 8)},
                            name="replay_race", timeout=900)
    elif drv == "ledger-stress":
        ctx.seed = int(rp.get("seed", ctx.seed))
        inp = {"runs": [{"name": "replay", "mode": rp["mode"], "lazy": rp["lazy"], "caps": rp["caps"],
                         "rounds": int(rp.get("round", 0)) + 25, "procs": 32, "ops": 40, "traceOut": ""}]}
        res = ctx.go_driver("./c12", "TestLedgerStress", inp, name="replay_stress", timeout=900)
    else:
        raise vf.MachineryError("replay file %s: unknown driver %r" % (path, drv))
    ctx.take_driver_result(res, "[replay] ")
    ctx.cov["states"] = max(1, ctx.cov["states"])
    ctx.cov["transitions"] = max(1, ctx.cov["transitions"])
    ctx.cov["replay"]["replayed_file"] = path


def run_core(ctx):
    thorough = ctx.tier == "thorough"
    ctx.cov["rule"] = (ctx.cov.get("rule", "") + " | C12 core: behaviours = TLC simulated sequential call orders of Ledger.tla "
                       "replayed on the real ledger API (distinct = distinct call orders) + concurrent stress histories "
                       "validated against Trace_Ledger.tla").strip(" |")
    ctx.assumptions += [
        "C12 core: one ledger per model; pool reuse of ResponseMeta across requests is not modelled",
        "C12 core: the atomics inside one ledger call cannot be scheduled from outside; their interleavings are "
        "exhausted by TLC and matched against recorded concurrent histories (linearizability), not forced",
    ]
    model_check(ctx, thorough)
    replay(ctx, thorough)
    stress(ctx, thorough)
