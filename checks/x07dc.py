"""X07DC -- delegation assembly under concurrency: the provisional server set in the delegation cache (serves C07;
C08 as drift only).

tla/DelegAssembly/DelegAssembly.tla   the life of one delegation's authority.Servers object as a SHARED object:
             processDelegation builds it (checkGlueRR), labels it (Zone, CheckingDisable), lookupV4Nss appends
             hosts, PUBLISHES it provisionally in the delegation cache while a glue-less NS host is still being
             resolved, appends addresses, processDelegation publishes it for good; concurrent queries pick whatever
             is published (searchCache / the Get in processDelegation) and judge the reply of the child's
             (adversarial) server with the identity the object carries at that moment.
  - TLC exhaustive over every interleaving (MC_*: window, three names + referral gate, no glued host = several
    assemblers of one delegation, two delegations at once, client CD keys with an insecure and a secure chain, the
    late IPv6 append): PublishedIdentity, PublishedCD, ReaderCD, NoMixture, HostsWhole, PublishedUsable,
    FilterFaithful, Containment.  The adversary's move is symbolic; FilterFaithful / Containment quantify over
    every move kind.  Negative twins (identity assigned after Publish = seeded C07-r2-1, torn append, identity /
    CD taken from a shared register, provisional set under the parent's key) must each violate a named invariant.
  - spec -> code: GSpec = the behaviours a gated driver can force (a gate step only at quiescent states).  TLC dumps
    the GSpec graph of every scenario; the gate-level graph (gate step + internal closure; where the code's own
    scheduling decides, a belief set) is covered by schedules over {start q, release referral(s), release host
    lookup with an outcome, release the child's answer with a move kind}; each is forced on the REAL cache+resolver
    pipeline against authkit scripted authorities (harness/x07dc).  The counter-example TLC finds for the seeded
    order is forced too.  After every step the published set of every (zone, CD) key, the gates and the replies
    are compared with the observations the model allows (drift); verdicts come from harness/c07's containment
    predicates on client replies, the trap server and the later victim queries.
"""
import json
import os
import random
import re
from collections import defaultdict, deque
from concurrent.futures import ThreadPoolExecutor

import vf

PAR = 6
MOVES = ["honest", "ans_foreign", "cname_out", "auth_foreign", "ref_up", "ref_self", "ref_glue_out"]
FILTER_MOVES = ["cname_out", "ans_foreign", "ref_up", "ref_self"]     # their outcome hangs on the identity

# must mirror tla/DelegAssembly/MC_DelegAssembly.tla
def _q(zone, name, cd=True):
    return {"zone": zone, "name": name, "cd": cd}


SCENARIOS = {
    "W": {"hosts": {"1": ["glued", "slow"]}, "gateRef": False, "variant": "unsigned",
          "queries": {"A": _q(1, "a"), "B": _q(1, "b"), "C": _q(1, "a")}},
    "R": {"hosts": {"1": ["glued", "slow"]}, "gateRef": True, "variant": "unsigned",
          "queries": {"A": _q(1, "a"), "B": _q(1, "b"), "C": _q(1, "c")}},
    "S": {"hosts": {"1": ["slow", "slow"]}, "gateRef": False, "variant": "unsigned",
          "queries": {"A": _q(1, "a"), "B": _q(1, "b"), "C": _q(1, "c")}},
    "Z": {"hosts": {"1": ["glued", "slow"], "2": ["glued", "slow", "slow"]}, "gateRef": False, "variant": "unsigned",
          "queries": {"A": _q(1, "a"), "B": _q(2, "b"), "C": _q(2, "c")}},
    "R2": {"hosts": {"1": ["glued", "slow"]}, "gateRef": True, "variant": "unsigned",
           "queries": {"A": _q(1, "a"), "B": _q(1, "b")}},
    "S2": {"hosts": {"1": ["slow", "slow"]}, "gateRef": False, "variant": "unsigned",
           "queries": {"A": _q(1, "a"), "B": _q(1, "b")}},
    "Z2": {"hosts": {"1": ["glued", "slow"], "2": ["glued", "slow", "slow"]}, "gateRef": False, "variant": "unsigned",
           "queries": {"A": _q(1, "a"), "B": _q(2, "b")}},
    "V": {"hosts": {"1": ["glued", "slow"]}, "gateRef": False, "variant": "unsigned", "v6": True,
          "queries": {"A": _q(1, "a"), "B": _q(1, "b")}},
    "C": {"hosts": {"1": ["glued", "slow"]}, "gateRef": False, "variant": "signed",
          "queries": {"A": _q(1, "a", True), "B": _q(1, "b", False), "C": _q(1, "c", False)}},
}

EXHAUSTIVE = ["MC_Z.cfg", "MC_S.cfg", "MC_R.cfg", "MC_V6.cfg", "MC_K.cfg", "MC_C.cfg", "MC_W.cfg"]
EXHAUSTIVE_QUICK = ["MC_S.cfg", "MC_R.cfg", "MC_K.cfg", "MC_C.cfg", "MC_W.cfg"]      # MC_Z / MC_V6: thorough
NEGATIVE = [  # cfg -> the invariant it must refute
    ("Neg_LabelAfter_Identity.cfg", "PublishedIdentity"),
    ("Neg_LabelAfter_Filter.cfg", "FilterFaithful"),
    ("Neg_LabelAfter_CD.cfg", "PublishedCD"),
    ("Neg_TornAppend.cfg", "HostsWhole"),
    ("Neg_SharedIdentity.cfg", "PublishedIdentity"),
    ("Neg_SharedIdentity_Filter.cfg", "FilterFaithful"),
    ("Neg_SharedCD.cfg", "PublishedCD"),
    ("Neg_ParentKey.cfg", "PublishedIdentity"),
    ("Neg_ParentKey_Mixture.cfg", "NoMixture"),
]
NEGATIVE_QUICK = [0, 1, 3, 4, 6, 7]      # one twin per mutant class
QUIET = {"idle", "refgate", "hostgate", "ansgate", "v6", "done"}
ANSWERED = {"done", "v6"}


def parallel(jobs, par=PAR):
    with ThreadPoolExecutor(max_workers=par) as ex:
        futs = [ex.submit(j) for j in jobs]
        return [f.result() for f in futs]


def ensure_overlay(ctx):
    ctx.overlay_tags.add("x07dc")
    ov = os.path.join(ctx.scratch, "overlay.json")
    if os.path.exists(ov):
        with open(ov) as f:
            if "verif_x07dc_shim.go" not in f.read():
                os.remove(ov)


def tlc(ctx, cfg, **kw):
    kw.setdefault("workers", 2)
    kw.setdefault("timeout", 600)
    kw.setdefault("heap", "3g")
    return ctx.tlc("DelegAssembly", "MC_DelegAssembly.tla", cfg, **kw)


def outcome_table(r):
    m = re.search(r'<<"X07DC_OUTCOME", "(.*)">>', r.out)
    if not m:
        raise vf.MachineryError("the model did not print its outcome table")
    return json.loads(json.loads('"' + m.group(1) + '"'))


def counterexample(r):
    parts = re.split(r"\nState (\d+): <(.*?)>\n", r.out)
    return [vf.parse_tla_state(parts[i + 2].split("\n\n")[0]) for i in range(1, len(parts) - 2, 3)]


def model_jobs(ctx, thorough):
    exhaustive = EXHAUSTIVE if thorough else EXHAUSTIVE_QUICK
    negative = NEGATIVE if thorough else [NEGATIVE[i] for i in NEGATIVE_QUICK]
    jobs = [lambda c=c: tlc(ctx, c, workers=4 if c in ("MC_Z.cfg", "MC_S.cfg", "MC_R.cfg") else 2) for c in exhaustive]
    jobs += [lambda c=c: tlc(ctx, c, workers=1, heap="2g", must_pass=False, count=False, tag="negative-must-fail")
             for c, _ in negative]

    def post(out):
        refuted = {}
        for (cfg, want), r in zip(negative, out[len(exhaustive):]):
            if r.violated != want:
                raise vf.MachineryError("%s: the negative twin must refute %s on the model, TLC says %r (vacuous spec?)"
                                        % (cfg, want, r.violated))
            refuted[cfg] = want
        ctx.cov["replay"]["deleg_model"] = {
            "exhaustive": {c: {"distinct": r.distinct, "generated": r.generated} for c, r in zip(exhaustive, out)},
            "negative_twins_refute": refuted}
    return jobs, post


# ---- the gate-level graph ------------------------------------------------------------------------------------------
def quiescent(st):
    for q, p in st["pc"].items():
        if p in QUIET:
            continue
        if p == "joined" and st["pc"][st["lead"][q]] not in ANSWERED:
            continue
        return False
    return True


def step_of(last):
    op = last["op"]
    if op == "start":
        return {"op": "start", "q": last["q"]}
    if op == "relref":
        return {"op": "relref", "qs": sorted(last["qs"])}
    if op == "relhost":
        return {"op": "relhost", "zone": int(last["zone"]), "host": int(last["host"]), "out": last["out"]}
    if op == "relans":
        return {"op": "relans", "q": last["q"]}
    if op == "v6":
        return {"op": "v6", "q": last["q"]}
    raise vf.MachineryError("unknown gate step %r" % (last,))


def step_key(st):
    return json.dumps(st, sort_keys=True)


class GateGraph:
    """Quiescent states, gate steps between them (internal steps closed over), belief sets where the code decides."""

    def __init__(self, nodes, edges, inits):
        self.nodes = nodes
        internal, gate = defaultdict(set), defaultdict(list)
        for s, d, _ in edges:
            if s == d:
                continue
            if nodes[s]["last"] == nodes[d]["last"]:
                internal[s].add(d)
            else:
                gate[s].append(d)
        self._closure = {}
        self.internal = internal

        self.G = {}
        for n in nodes:
            if not quiescent(nodes[n]):
                continue
            acts = defaultdict(set)
            for d in gate.get(n, ()):
                acts[step_key(step_of(nodes[d]["last"]))] |= self.closure(d)
            self.G[n] = acts
        if len(inits) != 1 or inits[0] not in self.G:
            raise vf.MachineryError("gate graph: no single quiescent initial state")
        self.init = frozenset([inits[0]])

    def closure(self, n):
        if n in self._closure:
            return self._closure[n]
        seen, out, dq = {n}, set(), deque([n])
        while dq:
            u = dq.popleft()
            if quiescent(self.nodes[u]):
                out.add(u)
            for v in self.internal.get(u, ()):
                if v not in seen:
                    seen.add(v)
                    dq.append(v)
        self._closure[n] = out
        return out

    def enabled(self, belief):
        acts = None
        for n in belief:
            ks = set(self.G[n].keys())
            acts = ks if acts is None else acts & ks
        return sorted(acts or ())

    def after(self, belief, act):
        out = set()
        for n in belief:
            out |= self.G[n][act]
        return frozenset(out)

    def belief_graph(self):
        ids, edges, dq = {self.init: "b0"}, [], deque([self.init])
        while dq:
            b = dq.popleft()
            for a in self.enabled(b):
                nb = self.after(b, a)
                if nb not in ids:
                    ids[nb] = "b%d" % len(ids)
                    dq.append(nb)
                edges.append((ids[b], ids[nb], a))
        return {v: k for k, v in ids.items()}, edges


def zone_label(z):
    return z if z in ("E", "P") else "Z" + z


def obs_of(st, sc, moves, table):
    """The driver's observation string (harness/x07dc observe) of a model state."""
    qids = sorted(sc["queries"])
    qs, refs, hosts, anss, ps, rs, pars = [], set(), set(), set(), [], [], set()
    for q in qids:
        p = st["pc"][q]
        d = sc["queries"][q]
        qs.append("%s=%s" % (q, "idle" if p == "idle" else "done" if p in ANSWERED else "busy"))
        nm = "%d.%s" % (d["zone"], d["name"])
        if st["par"][q]:
            pars.add(nm)
        if p == "refgate":
            refs.add(nm)
        elif p == "ansgate":
            anss.add(nm)
        elif p == "hostgate":
            hosts.add("%d/%d" % (d["zone"], st["hi"][q]))
        if p in ANSWERED:
            rs.append("%s=%s" % (q, reply_class(st, q, sc, moves, table)))
    for z in sorted(sc["hosts"]):
        for cd in (False, True):
            own = st["nsc"][json.dumps([z, cd])]
            if own == "none":
                ps.append("%s.%d=-" % (z, cd))
                continue
            s = st["sets"][own]
            ps.append("%s.%d=%s/cd%s/h%s/a%s" % (z, cd, zone_label(s["zone"]), "1" if s["cd"] == "1" else "0",
                                                "".join(str(h) for h in s["hosts"]),
                                                "".join(str(a) if a <= len(sc["hosts"][z]) else "6" for a in sorted(s["addrs"]))))
    for cd in (False, True):
        own = st["nsc"][json.dumps(["P", cd])]
        if own != "none":
            ps.append("P.%d=%s" % (cd, zone_label(st["sets"][own]["zone"])))
    return "%s|par:%s|ref:%s|host:%s|ans:%s|%s|%s" % (",".join(qs), ",".join(sorted(pars)), ",".join(sorted(refs)), ",".join(sorted(hosts)),
                                                ",".join(sorted(anss)), ";".join(ps), ",".join(rs))


def reply_class(st, q, sc, moves, table):
    r = st["reply"][q]
    if r["id"] == "-":
        return "SERVFAIL:"          # no reachable server for the zone
    src = q
    # a joined query carries its leader's reply: the move is the leader's
    if st["lead"][q] != "none":
        src = st["lead"][q]
    zone = str(sc["queries"][q]["zone"])
    rid = r["id"] if r["id"] in ("E", "P") else ("1" if r["id"] == zone else "2")
    o = table[moves[src]][rid]
    return "%s:%s" % (o["rc"], "+".join(sorted(o["cls"])))


def window_step(nodes, belief, act):
    """Is this the release of an answer while an assembly of the same zone is parked at a host gate?"""
    st = json.loads(act)
    if st["op"] != "relans":
        return False
    for n in belief:
        s = nodes[n]
        for q, p in s["pc"].items():
            if p == "hostgate":
                return True
    return False


def two_assemblers(st):
    """Two live, not yet final objects built for the same key."""
    live = [(v["forZone"], v["forCD"]) for v in st["sets"].values() if v["live"] and not v["final"]]
    return len(live) != len(set(live))


def interest(gg, path):
    """How much of the concurrency this schedule exercises (windows, concurrent assemblers, queries in flight)."""
    sc = 0
    for (b, a, nb) in path:
        if window_step(gg.nodes, b, a):
            sc += 3
        if any(two_assemblers(gg.nodes[n]) for n in nb):
            sc += 3
        if len(nb) > 1:
            sc += 2
        n0 = gg.nodes[next(iter(nb))]
        if sum(1 for p in n0["pc"].values() if p not in ("idle", "done")) >= 2:
            sc += 1
    return sc


def build_cases(ctx, name, sc, gg, paths, table, rng, all_moves_for=()):
    """paths: list of lists of (belief, act, belief').  One case per path and move assignment."""
    cases = []
    for pi, path in enumerate(paths):
        relans = [json.loads(a)["q"] for (_, a, _) in path if json.loads(a)["op"] == "relans"]
        assigns = []
        if pi in all_moves_for and relans:
            for m in MOVES:
                assigns.append({q: (m if i == 0 else rng.choice(MOVES)) for i, q in enumerate(relans)})
        else:
            assigns.append({q: rng.choice(FILTER_MOVES if rng.random() < 0.6 else MOVES) for q in relans})
        for ai, moves in enumerate(assigns):
            steps = []
            for (_, a, nb) in path:
                st = json.loads(a)
                if st["op"] == "relans":
                    st["move"] = moves[st["q"]]
                st["expect"] = sorted({obs_of(gg.nodes[n], sc, moves, table) for n in nb})
                steps.append(st)
            cases.append({"id": "%s/%d.%d" % (name, pi, ai), "hosts": sc["hosts"], "queries": sc["queries"],
                          "gateRef": sc["gateRef"], "gateAns": True, "variant": sc["variant"], "v6": sc.get("v6", False),
                          "steps": steps})
    return cases


def scenario_graph(ctx, name):
    r, nodes, edges, inits = ctx.tlc_graph("DelegAssembly", "MC_DelegAssembly.tla", "Gate_%s.cfg" % name, timeout=600,
                                           workers=2, heap="3g")
    # TLC's node ids are fingerprints picked at random per run: rename by the rank of the state
    rank = {n: "n%05d" % i for i, n in enumerate(sorted(nodes, key=lambda n: json.dumps(nodes[n], sort_keys=True)))}
    nodes = {rank[n]: st for n, st in nodes.items()}
    edges = sorted(set((rank[s], rank[d], "") for (s, d, _) in edges))
    gg = GateGraph(nodes, edges, [rank[i] for i in inits])
    beliefs, bedges = gg.belief_graph()
    return gg, beliefs, bedges, outcome_table(r)


def schedules(ctx, name, gg, beliefs, bedges, max_len=14):
    paths = vf.cover_paths(beliefs, bedges, ["b0"], max_len=max_len)
    covered = set()
    for p in paths:
        covered.update(p)
    if len(covered) != len(set(bedges)):
        raise vf.MachineryError("%s: belief-graph edge cover incomplete: %d of %d" % (name, len(covered), len(set(bedges))))
    out = []
    for p in paths:
        out.append([(beliefs[s], a, beliefs[d]) for (s, d, a) in p])
    return out


def walk(gg, acts):
    """Follow a sequence of gate steps through the (as-built) belief graph."""
    b, path = gg.init, []
    for a in acts:
        if a not in gg.enabled(b):
            raise vf.MachineryError("the counter-example's schedule leaves the as-built gate graph at %s" % a)
        nb = gg.after(b, a)
        path.append((b, a, nb))
        b = nb
    return path


def cex_schedule(ctx):
    """The seeded order (identity assigned after Publish) restricted to forceable schedules: TLC's counter-example to
    Containment, as a sequence of gate steps."""
    r = tlc(ctx, "NegGate_LabelAfter_Containment.cfg", workers=1, must_pass=False, count=False, tag="negative-must-fail")
    if r.violated != "Containment":
        raise vf.MachineryError("NegGate_LabelAfter_Containment: expected Containment to fail, got %r" % r.violated)
    states = counterexample(r)
    acts, prev = [], None
    for st in states:
        if prev is not None and st["last"] != prev:
            acts.append(step_key(step_of(st["last"])))
        prev = st["last"]
    if not any(json.loads(a)["op"] == "relans" for a in acts):
        raise vf.MachineryError("the counter-example has no answer released in the window: %s" % acts)
    return acts


def run_cases(ctx, cases, tag, workers=6, verbose=False):
    inp = {"cases": cases, "workers": workers, "verbose": verbose, "settleMs": 250}
    res = ctx.go_driver("./x07dc", "TestDelegSchedules", inp, name="deleg_" + tag, timeout=1500)
    ctx.take_driver_result(res, "[DelegAssembly] ")
    if res.get("skipped"):
        raise vf.MachineryError("delegation schedule replay: %s" % res["skipped"][:3])
    if res["cases"] != len(cases):
        raise vf.MachineryError("delegation schedule replay ran %d of %d cases" % (res["cases"], len(cases)))
    return res


def race_tier(ctx, cases):
    """Thorough: the same driver under the Go race detector.  A data race on the shared authority.Servers object is
    the code-side face of HostsWhole / 'append mutates a published set non-atomically'; it is reported as an
    observation (drift), the containment predicates stay the verdict."""
    fin = os.path.join(ctx.scratch, "deleg_race.in.json")
    fout = os.path.join(ctx.scratch, "deleg_race.out.json")
    with open(fin, "w") as f:
        json.dump({"cases": cases, "workers": 6, "verbose": False, "settleMs": 400}, f)
    rc, out = ctx.go_test("./x07dc", "^TestDelegSchedules$", timeout=1800, race=True,
                          env={"VERIF_IN": fin, "VERIF_OUT": fout, "VERIF_SCRATCH": ctx.scratch,
                               "GORACE": "halt_on_error=0 exitcode=0"})
    if not os.path.exists(fout):
        raise vf.MachineryError("race run produced no result (rc=%d)\n%s" % (rc, "\n".join(out.splitlines()[-40:])))
    with open(fout) as f:
        res = json.load(f)
    if rc != 0 and not res.get("violations"):
        raise vf.MachineryError("race run failed rc=%d without a violation\n%s" % (rc, "\n".join(out.splitlines()[-40:])))
    ctx.take_driver_result(res, "[DelegAssembly -race] ")
    if res.get("skipped"):
        raise vf.MachineryError("race run: %s" % res["skipped"][:3])
    races = out.count("WARNING: DATA RACE")
    info = {"cases": res["cases"], "data_races": races, "drift": res["drift"]}
    if races:
        ctx.cov["drift"] += races
        i = out.find("WARNING: DATA RACE")
        frames = [ln.strip() for ln in out[i:i + 6000].splitlines() if "sdns/" in ln and "verifharness" not in ln][:6]
        info["first_report"] = frames
        ctx.log("OBSERVATION: the race detector reports %d data race(s) during the delegation schedules (no containment "
                "predicate failed on them); first: %s" % (races, " <- ".join(frames[:3])))
    return info


def run_tier(ctx):
    thorough = ctx.tier == "thorough"
    ensure_overlay(ctx)
    ctx.assumptions += [
        "X07DC: parent (<tld>.) and the NS hosts' zone are honest; only the delegated zones' own servers lie (D1); leases "
        "are not modelled, a published set outliving the referral's NS TTL is reported as drift (C08)",
        "X07DC: schedules are the behaviours a gated driver can force (GSpec): client queries are parked inside the scripted "
        "authoritative servers they wait for (parent referral, NS-host address, the child's answer); between two gate "
        "steps the code runs freely, and where its own scheduling decides (several queries released at once) every "
        "outcome the model allows is accepted; the full interleaving is exhausted by TLC on Spec only",
        "X07DC: a published set whose identity differs from the model's is drift; VIOLATION only when a client reply "
        "carries a record owned outside the zone whose servers sent it, the trap server is contacted, or a later victim "
        "query is not answered with the owner zone's truth (SERVFAIL = fail-closed, drift)",
    ]
    ctx.spec_dir("DelegAssembly")
    scen = ["W", "R", "S", "Z", "C", "V"] if thorough else ["W", "R2", "S2", "Z2", "C"]
    if os.environ.get("X07DC_SCEN"):          # debugging knob: W is always needed (the counter-example walks it)
        scen = ["W"] + [x for x in os.environ["X07DC_SCEN"].split(",") if x != "W"]
    mjobs, mpost = model_jobs(ctx, thorough)
    # what the replay needs first; the exhaustive runs go on while the driver runs
    pool = ThreadPoolExecutor(max_workers=PAR)
    fcex = pool.submit(lambda: cex_schedule(ctx))
    fgraphs = [pool.submit(lambda s=s: scenario_graph(ctx, s)) for s in scen]
    fmodels = [pool.submit(j) for j in mjobs]
    try:
        cex = fcex.result()
        graphs = dict(zip(scen, [f.result() for f in fgraphs]))
        table = graphs[scen[0]][3]
    except BaseException:
        pool.shutdown(wait=True, cancel_futures=True)
        raise

    rng = random.Random(ctx.seed * 7919 + 17)
    cases, info = [], {}
    for s in scen:
        gg, beliefs, bedges, _ = graphs[s]
        sc = SCENARIOS[s]
        paths = schedules(ctx, s, gg, beliefs, bedges)
        win = [i for i, p in enumerate(paths) if any(window_step(gg.nodes, b, a) for (b, a, _) in p)]
        info[s] = {"states": len(gg.nodes), "quiescent": len(gg.G), "beliefs": len(beliefs), "gate_edges": len(bedges),
                   "covering_schedules": len(paths), "with_window_answer": len(win),
                   "largest_belief": max(len(b) for b in beliefs.values())}
        for e in bedges:
            ctx._distinct.add("deleg-edge:%s:%s:%s:%s" % ((s,) + e))
        if not thorough:
            quota = {"W": 90, "R2": 42, "S2": 42, "Z2": 60, "C": 60}[s]
            # the most concurrent schedules first (seeded tie-break), then a few at random
            order = sorted(range(len(paths)), key=lambda i: (-interest(gg, paths[i]), rng.random()))
            top = order[:quota - quota // 3]
            rest = [i for i in order if i not in top]
            pick = top + rng.sample(rest, min(len(rest), quota // 3))
            allm = set([0, 1]) if pick else set()
            sel = [paths[i] for i in pick]
        else:
            sel = paths
            allm = set(range(0, len(paths), 7))
        cs = build_cases(ctx, s, sc, gg, sel, table, rng, all_moves_for=allm)
        info[s]["cases"] = len(cs)
        cases += cs
    # the seeded order's counter-example, with every identity-dependent move in the window
    ggW = graphs["W"][0]
    cpath = walk(ggW, cex)
    cx = build_cases(ctx, "W-cex", SCENARIOS["W"], ggW, [cpath], table, rng, all_moves_for={0})
    cases = cx + cases
    ctx.log("DelegAssembly schedules: %s; counter-example of the seeded order: %s" % (
        "; ".join("%s %d beliefs / %d gate edges -> %d schedules (%d run)" % (s, i["beliefs"], i["gate_edges"],
                                                                             i["covering_schedules"], i["cases"])
                  for s, i in info.items()), [json.loads(a)["op"] for a in cex]))
    unsigned = [c for c in cases if c["variant"] == "unsigned"]
    signed = [c for c in cases if c["variant"] == "signed"]
    try:
        res = run_cases(ctx, unsigned + signed, "all", workers=8 if thorough else 6)
    finally:
        pool.shutdown(wait=True)
    mpost([f.result() for f in fmodels])
    race = None
    if thorough and not res.get("violations"):
        rcases = [c for c in cases if not c.get("v6")]
        race = race_tier(ctx, rcases[:60] + rng.sample(rcases[60:], min(340, max(0, len(rcases) - 60))))
    c = res.get("counters", {})
    info["driver"] = {"cases": res["cases"], "steps": c.get("steps", 0), "steps_outside_model": c.get("steps_outside_model", 0),
                      "answers_released_in_window": c.get("answers_released_in_window", 0),
                      "set_replaced_by_another_assembler": c.get("set_replaced_by_another_assembler", 0),
                      "steps_with_concurrent_assemblers": c.get("concurrent_assemblers", 0),
                      "lease_beyond_ns_ttl": c.get("lease_beyond_ns_ttl", 0),
                      "replies": {k[len("replies_"):]: v for k, v in c.items() if k.startswith("replies_")},
                      "moves_played": {k[len("moves_played_"):]: v for k, v in c.items() if k.startswith("moves_played_")},
                      "victim_truth": c.get("victim_truth", 0), "victim_servfail": c.get("victim_servfail", 0),
                      "drift": res["drift"], "drift_notes": res.get("drift_notes", []), "wall_ms": c.get("wall_ms", 0)}
    info["driver"]["v6_steps_matched"] = c.get("v6_steps_matched", 0)
    if race is not None:
        info["race_detector"] = race
    ctx.cov["replay"]["deleg"] = info
    for n in res.get("drift_notes", [])[:4]:
        ctx.log("DRIFT: " + n)
    if not res.get("violations"):
        d = info["driver"]
        if (d["steps"] == 0 or d["answers_released_in_window"] == 0 or d["replies"].get("OK:cname+truth", 0) == 0
                or d["victim_truth"] == 0 or d["steps_with_concurrent_assemblers"] == 0
                or (thorough and "V" in scen and d["v6_steps_matched"] == 0)):
            raise vf.MachineryError("delegation replay was vacuous (no answer in the window / no alias chased / "
                                    "never two assemblers of one delegation / IPv6 enrichment never seen): %s" % d)
        if d["steps_outside_model"] * 4 > d["steps"]:
            raise vf.MachineryError("delegation replay: %d of %d steps left the model (the binding does not follow the "
                                    "code any more): %s" % (d["steps_outside_model"], d["steps"], d["drift_notes"][:3]))


def run(ctx, replay):
    if replay:
        return replay_file(ctx, replay)
    ctx.cov["rule"] = ("every gate-level edge of the forceable DelegAssembly graphs (5 scenarios; quick: a seeded sample of "
                       "the covering schedules, windows first) and the seeded order's counter-example, forced on the real "
                       "cache+resolver pipeline against scripted authorities; distinct = gate-level edges / cases")
    run_tier(ctx)


def replay_file(ctx, path):
    """bin/check X07DC --replay <file>: re-run exactly the recorded schedule."""
    with open(path) as f:
        rec = json.load(f)
    rp = rec.get("replay", rec)
    if rp.get("driver") != "deleg":
        raise vf.MachineryError("replay file %s: unknown driver %r" % (path, rp.get("driver")))
    ensure_overlay(ctx)
    tlc(ctx, "MC_W.cfg")
    res = run_cases(ctx, [rp["case"]], "replay", workers=1, verbose=True)
    res["drift"] = 0
    ctx.cov["rule"] = "replay of %s" % path
    ctx.sample({"replayed": path, "driver": "deleg"})
    ctx._distinct.update(["replay", path])
