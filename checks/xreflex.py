"""XREFLEX -- the reflex (amplification / reflection detection) middleware as a state machine (ties: C17, C11).

Reflex.tla      middleware/reflex: Reflex.ServeDNS, IPTracker.RecordQuery / RecordResponse / RecordTCP / calculateScore /
                evictOne / Cleanup, the replay mark of middleware.Chain, with the chain around it as far as it decides
                what reflex sees (accesslist ahead of it, the cache's inline handoff behind it).
  - TLC exhaustive: one action per entry-point call (bursts of identical requests), ticks, cleanup; a scoring ladder
    shrunk to a handful of requests for the small configs and the real ladder with bursts of 10-25 requests; one
    negative config per property (a seeded model defect that must violate exactly that property); the pair
    MC_MiniMonitor / MC_FindMonitor about the one place where the entries do not account alike (see below).
  - spec -> code (harness/xreflex TestReplay): every edge of two small state graphs + TLC-simulated call orders of eight
    menus replayed on ONE real server (default chain recovery .. cache + scripted upstream) through ServeMsg / ServeRaw /
    ServeRawInline+ServeRawReplay with a virtual clock (overlay shim: stored stamps shifted, leaked real time snapped away);
    decision and projected per-key table compared after every request (drift), predicates evaluated on what the code did
    (violation); every behaviour re-run through the decoded entry only (twin): differences are C05's subject, drift here.
  - code -> spec (TestStress): free-running concurrent calls; the recorded history is judged by the monitor spec
    Trace_Reflex.tla (linearizable w.r.t. Reflex.tla, Obs* invariants on the recorded lines) and by order-independent totals.
  - fixed scenarios (TestFixed): reflex stands behind the rate limiter; observations about configuration defaults.

Verdict classes.  `c17/*`: predicates the C17 statement bears (an internal sub-query is never subjected to reflection policy;
a source outside the access list gets no reply and causes no work).  `c11/*`: predicates the C11 statement bears (a query the
reflection policy admits receives exactly one reply, never two).  `reflex/*`: the middleware's own documentation (README,
doc comments, config docs).  A property check that runs this tier for ITS statement sets ONLY = ("c17/",) or ("c11/",): the
other classes are then logged as drift.  XREFLEX_STATEMENT_ONLY=1 reports `reflex/*` as drift in the standalone run too.
"""
import json
import os
import re
import threading

import vf

MOD = "Reflex"
SPEC = "MC_Reflex.tla"
TAG = "x17rx"   # overlay/middleware/reflex/verif_x17rx_shim.go
STATEMENT_ONLY = os.environ.get("XREFLEX_STATEMENT_ONLY", "") not in ("", "0")
ONLY = None     # set by c17.py / c11.py: ("c17/",) / ("c11/",)

OBS_CLASS = {"ObsAtMostOneReply": "c11/", "ObsExemptNeverRefused": "c17/", "ObsDeniedSilent": "c17/", "ObsProvenNeverRefused": "reflex/",
             "ObsModeRespected": "reflex/", "ObsReplayNeverDecides": "reflex/", "ObsScoredOnce": "reflex/", "ObsRespondedOnce": "reflex/",
             "TypeOK": "reflex/", "TableBounded": "reflex/", "ProvenNeverSuspect": "reflex/"}


def counts(key):
    if STATEMENT_ONLY and key.startswith("reflex/"):
        return False
    return ONLY is None or any(key.startswith(p) for p in ONLY)


def negatives():
    out = []
    with open(os.path.join(vf.VERIF, "tla", MOD, "negatives.txt")) as f:
        for line in f:
            if line.strip():
                cfg, prop = line.split()
                out.append((cfg, prop))
    return out


# ---------------------------------------------------------------------------------------------------
# TLC output -> driver behaviours
# ---------------------------------------------------------------------------------------------------
def cfg_consts(cfg):
    text = open(os.path.join(vf.VERIF, "tla", MOD, cfg)).read()

    def num(name):
        return int(re.search(r"^\s*%s = (\d+)" % name, text, re.M).group(1))

    def strs(name):
        return re.findall(r'"([^"]+)"', re.search(r"^\s*%s = (\{.*\})" % name, text, re.M).group(1))

    keyof = {"c1": "k1", "c1m": "k1", "c2": "k2", "c3": "k3", "c4": "k4", "v6a": "k6a", "v6b": "k6b", "den": "kd"}
    keys = sorted({keyof[c] for c in strs("Clients") if c in keyof})
    return {"cfg": {"thr": num("Thr"), "mode": re.search(r'Mode = "(\w+)"', text).group(1), "cap": num("Cap")},
            "keys": keys, "types": strs("Types")}


def fnget(v, k):
    if isinstance(v, list):
        return v[int(k) - 1]
    return v[k]


def post_of(st):
    clk = st["clk"]
    e = {}
    for k, r in st["tab"].items():
        if not r["on"]:
            e[k] = {"on": False}
            continue
        e[k] = {"on": True, "fs": clk - r["fs"], "ls": clk - r["ls"], "tq": r["tq"], "haq": r["haq"], "amp": r["amp"], "req": r["req"],
                "resp": r["resp"], "tcp": bool(r["tcp"]), "norm": bool(r["norm"]), "types": ",".join(sorted(r["types"]))}
    return {"e": e, "lru": list(st["lru"])}


def step_of(prev, st):
    """One transition (states as parsed dicts) -> one driver step."""
    o = st["out"]
    kind = o["kind"]
    if kind == "tick":
        return {"op": "tick", "k": st["clk"] - prev["clk"], "label": "Tick(%d)" % (st["clk"] - prev["clk"]), "post": post_of(st)}
    if kind == "cleanup":
        return {"op": "cleanup", "label": "Cleanup", "post": post_of(st)}
    q = o["q"]
    exp = {"decs": list(o["decs"]), "tail": o["tail"]}
    if kind == "replay":
        return {"op": "replay", "id": o["id"], "label": "Replay(%d)" % o["id"], "exp": exp, "post": post_of(st)}
    if kind == "query":
        return {"op": "call", "id": o["id"], "c": q["c"], "proto": q["pr"], "t": q["t"], "entry": q["e"], "n": q["n"], "cnt": q["cnt"],
                "label": "Query(%s,%s,%s,%s,%s,%d)" % (q["c"], q["pr"], q["t"], q["e"], q["n"], q["cnt"]), "exp": exp, "post": post_of(st)}
    raise vf.MachineryError("unknown transition kind %r" % kind)


def fix_ids(steps):
    """A call that is not handed off has id 0 in the model: the driver wants distinct ids."""
    used = {s["id"] for s in steps if s.get("id")}
    nxt = max(used or {0}) + 1000
    for s in steps:
        if s["op"] == "call" and not s.get("id"):
            s["id"] = nxt
            nxt += 1
    return steps


STATE_RE = re.compile(r"\\\* <(.*?) line \d+, col \d+ to line \d+, col \d+ of module \w+>\s*\nSTATE_\d+ ==\s*\n(.*?)(?=\n\n|\Z)", re.S)


def simulate(ctx, cfg, num, depth, timeout=300):
    d = ctx.spec_dir(MOD)
    pref = os.path.join(d, "sim_%s_%d" % (cfg.replace(".cfg", ""), threading.get_ident() % 100000))
    r = ctx.tlc(MOD, SPEC, cfg, workers=1, timeout=timeout, heap="2g",
                args=["-simulate", "file=%s,num=%d" % (pref, num), "-depth", str(depth), "-seed", str(ctx.seed)],
                must_pass=False, tag="simulate", count=False)
    if r.rc != 0:
        raise vf.MachineryError("TLC simulate failed on %s rc=%d\n%s" % (cfg, r.rc, "\n".join(r.out.splitlines()[-30:])))
    import glob
    c = cfg_consts(cfg)
    behs = []
    for k, path in enumerate(sorted(glob.glob(pref + "_*"))):
        with open(path) as f:
            text = f.read()
        os.remove(path)
        states = [vf.parse_tla_state(m.group(2)) for m in STATE_RE.finditer(text)]
        steps = [step_of(states[i - 1], states[i]) for i in range(1, len(states))]
        if steps:
            behs.append(dict(c, name="%s-%d" % (cfg[4:-4], k), steps=fix_ids(steps)))
    return behs


def graph_behaviours(ctx, cfg, max_len):
    r, nodes, edges, inits = ctx.tlc_graph(MOD, SPEC, cfg, workers=2, timeout=600, heap="3g", tag="graph")
    paths = vf.cover_paths(nodes, edges, inits, max_len)
    taken = {nodes[v]["out"]["kind"] for (_, v, _) in edges}     # (TLC labels the quantified Replay(j) edges "Next")
    if cfg in GRAPH_ACTIONS and not GRAPH_ACTIONS[cfg] <= taken:
        raise vf.MachineryError("Reflex actions never taken in %s: %s" % (cfg, sorted(GRAPH_ACTIONS[cfg] - taken)))
    c = cfg_consts(cfg)
    behs = []
    for k, path in enumerate(paths):
        steps = [step_of(nodes[u], nodes[v]) for (u, v, _) in path]
        behs.append(dict(c, name="%s-%d" % (cfg[3:-4], k), steps=fix_ids(steps)))
    ctx.cov["replay"]["graph_" + cfg[3:-4]] = {"states": r.distinct, "edges": len(edges), "paths": len(paths)}
    return behs


def dedup(behs):
    seen, out = set(), []
    for b in behs:
        key = json.dumps(b["cfg"], sort_keys=True) + ";".join(s["label"] for s in b["steps"])
        if key in seen:
            continue
        seen.add(key)
        out.append(b)
    return out


def parallel(jobs, width=5):
    results, errs = [None] * len(jobs), []
    sem = threading.Semaphore(width)

    def run(i, f):
        with sem:
            if errs:
                return
            try:
                results[i] = f()
            except BaseException as ex:  # noqa: BLE001
                errs.append(ex)

    ts = [threading.Thread(target=run, args=(i, f)) for i, f in enumerate(jobs)]
    for t in ts:
        t.start()
    for t in ts:
        t.join()
    if errs:
        raise errs[0]
    return results


# ---------------------------------------------------------------------------------------------------
def fold(ctx, res, prefix):
    """take_driver_result with the verdict classes applied."""
    keep = []
    for v in res.get("violations", []):
        if counts(v.get("key", "")):
            keep.append(v)
        else:
            ctx.cov["drift"] += 1
            ctx.log("DRIFT (class %s is not this run's statement): %s" % (v.get("key", "").split("/")[0], v.get("what")))
    res["violations"] = keep
    ctx.take_driver_result(res, prefix)
    for n in res.get("drift_notes", [])[:8]:
        ctx.log("DRIFT: " + n)


QUICK_POS = [("MC_MiniQ.cfg", 2), ("MC_MiniMonitor.cfg", 1), ("MC_Real2.cfg", 2)]
FULL_POS = [("MC_Mini.cfg", 4), ("MC_MiniHigh.cfg", 4), ("MC_MiniEvict.cfg", 4), ("MC_MiniExempt.cfg", 2), ("MC_MiniV6.cfg", 1),
            ("MC_MiniMonitor.cfg", 1), ("MC_MiniLearning.cfg", 1), ("MC_Real1.cfg", 4), ("MC_Real2.cfg", 2), ("MC_MiniQ.cfg", 2)]
SIMS = [("Sim_Attack.cfg", 14, 40), ("Sim_Low.cfg", 14, 40), ("Sim_Exempt.cfg", 12, 40), ("Sim_Evict.cfg", 12, 40),
        ("Sim_Monitor.cfg", 10, 36), ("Sim_Learning.cfg", 6, 30), ("Sim_Bytes.cfg", 4, 30), ("Sim_Floor.cfg", 6, 30)]
GRAPH_ACTIONS = {"MC_EdgeA.cfg": {"query", "replay", "tick", "cleanup"}, "MC_EdgeC.cfg": {"query", "replay", "tick", "cleanup"}}


def tlc_jobs(ctx, thorough):
    negs = negatives()
    if not thorough:
        # the quick tier re-checks six negative twins per run (which six rotates with the seed); thorough runs all
        k = (ctx.seed * 6) % len(negs)
        negs = (negs + negs)[k:k + 6]
    negs = negs + [("MC_FindMonitor.cfg", "ReplayAccountsAlike")]
    sims = SIMS if not thorough else [(c, n * 12, d) for c, n, d in SIMS]
    graphs = ["MC_EdgeA.cfg", "MC_EdgeB.cfg", "MC_EdgeC.cfg"]

    def neg(cfg, prop):
        r = ctx.tlc(MOD, SPEC, cfg, workers=1, timeout=300, heap="2g", must_pass=False, tag="negative", count=False)
        if r.violated != prop:
            raise vf.MachineryError("negative config %s did not violate %s (got %s)" % (cfg, prop, r.violated))

    def pos(cfg, w):
        ctx.tlc(MOD, SPEC, cfg, workers=w, timeout=1500, heap="6g", tag="exhaustive")

    jobs = [(lambda g=g: graph_behaviours(ctx, g, 10)) for g in graphs]
    jobs += [(lambda c=c, n=n, d=d: simulate(ctx, c, n, d)) for c, n, d in sims]
    nbeh = len(jobs)
    jobs += [(lambda c=c, w=w: pos(c, w)) for c, w in (FULL_POS if thorough else QUICK_POS)]
    jobs += [(lambda c=c, p=p: neg(c, p)) for c, p in negs]
    return jobs, nbeh


def replay_input(groups):
    behs = dedup([b for g in groups for b in g])
    nreq = sum(s.get("cnt", 1) for b in behs for s in b["steps"] if s["op"] in ("call", "replay"))
    if len(behs) < 30 or nreq < 400:
        raise vf.MachineryError("pipeline replay: only %d behaviours / %d requests (vacuous)" % (len(behs), nreq))
    want = {}
    for b in behs:
        for s in b["steps"]:
            if "exp" in s:
                for d in s["exp"]["decs"]:
                    k = d + ("/" + s["entry"] if s["op"] == "call" else "/replay")
                    want[k] = want.get(k, 0) + 1
        for s in b["steps"]:
            if s["op"] in ("tick", "cleanup"):
                want[s["op"]] = want.get(s["op"], 0) + 1
    need = ["pass/msg", "pass/wire", "pass/inline", "handoff/inline", "pass/replay", "refused/msg", "refused/wire", "refused/inline",
            "silent/msg", "silent/wire", "silent/inline", "tick", "cleanup"]
    miss = [k for k in need if not want.get(k)]
    if miss:
        raise vf.MachineryError("pipeline replay: no request with model outcome %s among the behaviours (vacuous)" % miss)
    return behs, {"behaviours": len(behs), "requests": nreq, "model_outcomes": want}


def replay_verdict(ctx, info, cnt):
    n = info["behaviours"]
    info.update(counters=cnt)
    ctx.cov["replay"]["pipeline"] = info
    if cnt.get("stalled", 0) > n // 10:
        raise vf.MachineryError("pipeline replay: %d of %d behaviours stalled (machine too loaded for a verdict)" % (cnt.get("stalled", 0), n))
    if cnt.get("behaviours", 0) + cnt.get("stalled", 0) != n:
        raise vf.MachineryError("pipeline replay ran %d of %d behaviours" % (cnt.get("behaviours", 0), n))
    if cnt.get("wire_born", 0) < 50 or cnt.get("twins", 0) < 10 or cnt.get("seen_refused", 0) < 10:
        raise vf.MachineryError("pipeline replay: %d wire-born requests, %d twin runs, %d refusals seen (vacuous)" % (
            cnt.get("wire_born", 0), cnt.get("twins", 0), cnt.get("seen_refused", 0)))
    if cnt.get("drifted", 0) > n // 2:
        raise vf.MachineryError("pipeline replay: %d of %d behaviours drifted from the model -- the model no longer describes this "
                                "tree (no predicate failed)" % (cnt.get("drifted", 0), n))
    if cnt.get("twin_accounts_differently", 0) or cnt.get("twin_decides_differently", 0):
        ctx.log("OBSERVATION (C05's subject, drift here): %d behaviours account and %d decide differently depending on the entry point"
                % (cnt.get("twin_accounts_differently", 0), cnt.get("twin_decides_differently", 0)))
    if cnt.get("clock_jitter_over_30ms", 0):
        ctx.log("note: %d requests reached the tracker more than 30 ms after the clock was snapped (loaded machine)" % cnt["clock_jitter_over_30ms"])


def stress(ctx, thorough):
    """code -> spec.  Nothing is judged on this thread: returns the data for stress_verdict."""
    rounds = 6 if not thorough else 80
    trace = os.path.join(ctx.scratch, "stress.ndjson")
    res = ctx.go_driver("./xreflex", "TestAll", {"stress": {"rounds": rounds, "procs": 4, "ops": 14, "traceOut": trace}, "fixed": True},
                        name="stress", timeout=900)
    cnt = res.get("counters", {})
    info = {"rounds": cnt.get("stress_rounds", 0), "calls": cnt.get("stress_calls", 0), "overlapping_calls": cnt.get("stress_overlapping_calls", 0),
            "stalled_rounds": cnt.get("stress_stalled_rounds", 0), "trace_lines": cnt.get("stress_trace_lines", 0)}
    out = {"res": res, "info": info, "trace": trace, "verdict": None, "fixed": {k[6:]: v for k, v in cnt.items() if k.startswith("fixed_")}}
    if res.get("violations"):
        return out
    if res.get("skipped"):
        raise vf.MachineryError("stress / fixed scenarios could not run: %s" % res["skipped"][:3])
    if info["rounds"] < max(2, rounds // 2):
        raise vf.MachineryError("stress: only %d of %d rounds were recorded (machine too loaded)" % (info["rounds"], rounds))
    if info["overlapping_calls"] < 5:
        raise vf.MachineryError("stress: the recorded histories contain no overlapping calls (vacuous)")
    ok, r = ctx.tlc_trace(MOD, "Trace_Reflex.tla", "Trace_Free.cfg", trace, timeout=900, deque=False)
    if ok:
        info["trace_states"] = r.distinct
        out["verdict"] = "accepted"
    elif r.violated and r.violated != "TraceAccepted":
        out["verdict"] = "invariant:" + r.violated
        return out
    else:
        out["verdict"] = "rejected"
        info["matched_lines"] = max(0, r.depth - 1)
        info["trace_rejected_tail"] = r.out.splitlines()[-12:]
        return out
    if not thorough:
        return out
    # binding (thorough tier): a corrupted history must be rejected -- a refusal turned into an answer
    lines = [json.loads(x) for x in open(trace)]
    how = None
    for ln in lines:
        if ln.get("ev") == "res" and ln.get("kind") == "refused":
            ln["kind"] = "pass"
            how = "a refusal reported as an answer"
            break
    if how is None:
        for ln in lines:
            if ln.get("ev") == "end":
                k = sorted(ln["tq"])[0]
                ln["tq"][k] += 1
                how = "one more scored query in the quiescent table than were sent"
                break
    bad = os.path.join(ctx.scratch, "stress_tampered.ndjson")
    with open(bad, "w") as f:
        for ln in lines:
            f.write(json.dumps(ln) + "\n")
    okb, _ = ctx.tlc_trace(MOD, "Trace_Reflex.tla", "Trace_Free.cfg", bad, timeout=900, deque=False)
    if okb:
        raise vf.MachineryError("tamper test: Trace_Reflex accepted a history with %s (binding lost)" % how)
    info["tamper_rejected"] = how
    return out


def stress_verdict(ctx, out):
    res, info = out["res"], out["info"]
    fold(ctx, res, "[concurrent stress / fixed scenarios] ")
    ctx.cov["replay"]["stress"] = info
    ctx.cov["replay"]["fixed"] = out["fixed"]
    v = out["verdict"]
    if v == "accepted":
        ctx.cov["traces_validated_against_impl"] += info["rounds"]
    elif v and v.startswith("invariant:"):
        inv = v[10:]
        key = OBS_CLASS.get(inv, "reflex/") + "stress/" + inv
        if counts(key):
            ctx.violation(key, "[concurrent stress] %s is false on a recorded concurrent history of the real pipeline" % inv,
                          {"driver": "stress", "trace": open(out["trace"]).read().splitlines()[:400]})
        else:
            ctx.cov["drift"] += 1
            ctx.log("DRIFT (not this run's statement): %s is false on a recorded concurrent history" % inv)
    elif v == "rejected":
        ctx.cov["drift"] += 1
        ctx.log("DRIFT: a recorded concurrent history (%d lines, %d matched) is not explained by Reflex.tla; no predicate failed"
                % (info["trace_lines"], info.get("matched_lines", 0)))
    fx = out["fixed"]
    obs = sorted(k for k in fx if k.startswith("obs_"))
    if obs:
        ctx.log("OBSERVATIONS (documentation vs code, not predicates of C11 / C17): " + ", ".join(obs))


def run_tier(ctx):
    thorough = ctx.tier == "thorough"
    if TAG not in ctx.overlay_tags:
        ctx.overlay_tags.add(TAG)
        cached = os.path.join(ctx.scratch, "overlay.json")   # a property check may have built its overlay before this tier
        if os.path.exists(cached):
            os.remove(cached)
    ctx.cov["rule"] = ("XREFLEX: behaviours = TLC call orders of Reflex.tla (edge cover of two small graphs + simulation of eight menus) "
                       "replayed on one real server through ServeMsg / ServeRaw / ServeRawInline+ServeRawReplay; distinct = distinct call orders")
    ctx.assumptions += [
        "XREFLEX: time is moved by shifting the tracker's stored FirstSeen / LastSeen stamps through an overlay shim; the real time "
        "that leaks in between two steps is snapped away right before every request, so an entry's duration is whole seconds plus the "
        "microseconds a request needs to reach the tracker (< 1/30 s assumed; counted when exceeded)",
        "XREFLEX: the table is bounded to 1-3 entries through the shim (production bound 100000); thresholds are set off the 0.05 grid "
        "of attainable scores, so `>=` and `exceeding` cannot be told apart",
        "XREFLEX: the scripted upstream pads its answers so that a client receives exactly 1200 / 400 / 150 bytes per watched type "
        "(calibrated against the running pipeline, checked on every reply)",
    ]
    ctx.harness_prepare()
    ctx.overlay_file()
    jobs, nbeh = tlc_jobs(ctx, thorough)
    results = parallel([lambda: stress(ctx, thorough)] + jobs, width=10 if not thorough else 5)
    sout, results = results[0], results[1:]
    ctx.cov["replay"]["finding_monitor_inline_model"] = (
        "MC_FindMonitor: with the code's behaviour (Quirk) ReplayAccountsAlike fails in monitor mode -- a suspicious query that is only "
        "logged is not response-tracked on the decoded / wire entries but is on the replay pass of the inline entry; MC_MiniMonitor "
        "(Quirk off) passes")
    stress_verdict(ctx, sout)
    if ctx.violations:
        return
    behs, info = replay_input(results[:nbeh])
    res = ctx.go_driver("./xreflex", "TestReplay", {"behaviours": behs, "twin": True}, name="replay", timeout=2400)
    fold(ctx, res, "[pipeline] ")
    ctx.cov["replay"]["drift_notes"] = res.get("drift_notes", [])
    if res.get("violations"):
        return
    if res.get("skipped"):
        raise vf.MachineryError("replay driver skipped work: %s" % res["skipped"][:3])
    replay_verdict(ctx, info, res.get("counters", {}))


def run(ctx, replay_file):
    if replay_file:
        with open(replay_file) as f:
            rec = json.load(f)
        rp = rec.get("replay", rec)
        if not rp.get("steps") or not rp.get("cfg"):
            # recorded by the free-running driver or a fixed scenario: the generators are seeded, the tier is re-run
            run_tier(ctx)
            return
        ctx.overlay_tags.add(TAG)
        beh = {"name": "replayed", "cfg": rp["cfg"], "keys": rp.get("keys", ["k1", "k2", "k3"]), "types": rp.get("types", ["TXT", "A"]),
               "steps": rp["steps"]}
        res = ctx.go_driver("./xreflex", "TestReplay", {"behaviours": [beh], "twin": False}, name="replay_file", timeout=600)
        fold(ctx, res, "[replay] ")
        ctx.cov["states"] = max(1, ctx.cov["states"])
        ctx.cov["transitions"] = max(1, ctx.cov["transitions"])
        ctx.cov["replay"]["replayed_file"] = replay_file
        return
    run_tier(ctx)
