"""X02HM -- the request-tree NSEC3 hash memo under concurrent validations (serves C02; C12 as drift).

tla/HashMemo/HashMemo.tla   validations (processes) that each need the digests of a short sequence of keys from the
             three memo compartments with the production Read/Write split (required / resolver-optional /
             cache-optional): Load (Read.load: absent -> loadOrCompute, present -> WAIT on entry.ready), Loc (register a
             pending entry, wait, or compute privately at the ceiling), Release / Refuse (work.BeginNSEC3Hash admits or
             refuses the parked computation), Publish (value stored, an error entry deleted, ready closed), WaitDone.
  - TLC exhaustive on every interleaving of the scenarios of MC_HashMemo.tla: ValuesCorrect (every digest a validation
    obtains for key k is H(k), never empty / another key's), WaiterAfterPublish, NoPoison (a failed entry never stays in
    the map), OneCompute (C12: one hash unit per digest and compartment), BoundRespected, Directional, OwnerHoldsPending,
    and Termination under fairness (no lost wake-up).  Negative twins (model mutants that MUST violate the named
    invariant): NoWait (= seeded change C02-r2-2), LocNoWait, EarlyClose, KeepFailed, NoCloseOnError, KeyNoParams,
    OverBoundRegisters, NoDedup, CoptReadsReq.
  - spec -> code: Gated = TRUE are the behaviours a driver can FORCE with a gate in BeginNSEC3Hash.  Every labelled edge
    of the gated graphs of the small scenarios, simulated behaviours of the larger ones and the counter-examples TLC finds
    for the mutants are forced on goroutines running the REAL verifiers (NXDOMAIN proof, the same genuine ring offered as
    "proof" for an existing name, NODATA, wildcard NODATA, wildcard-answer next closer, insecure delegation, RFC 8198
    classification) over ONE shared memo set through the production NSEC3Work adapters.
  - code -> spec: before every forced step the projected real state (per validation: parked in BeginNSEC3Hash / blocked on
    an entry's ready channel (goroutine dump) / returned; per compartment: resident and pending entries) is compared with
    the model's state; differences are drift.
  - predicate judged on the real code (C02): a denial ACCEPTED by a call that shares the memo is true in the zone (an
    existing name is never denied, a present type never reported absent, a signed delegation never demoted, an Opt-Out
    proof never secure).  A spurious rejection / work error is fail-closed: drift.  The same predicate judges a
    production-park family (the resolver-wide crypto limiter saturated) and a free-running stage (no gates).
"""
import glob
import json
import os
import random
import re
import threading
from concurrent.futures import ThreadPoolExecutor

import vf

MODULE = "HashMemo"
SPEC = "MC_HashMemo.tla"
PAR = 8


def C(kind, name, qtype="A", zone="z", ring="A", scope="req", enc=""):
    return {"kind": kind, "zone": zone, "ring": ring, "name": name, "qtype": qtype, "enc": enc, "scope": scope}


def nxnope(r):
    return [r + ":nope", r + ":@", r + ":*"]


WILDND = ["A:x.wild", "A:wild", "A:*.wild"]

# must mirror tla/HashMemo/MC_HashMemo.tla (the driver checks every program against the code)
SCENARIOS = {
    "Pair": {"procs": [C("ND", "www", "TXT"), C("NX", "www"), C("NX", "nope")],
             "progs": [["A:www"], ["A:www"], nxnope("A")]},
    "Cross": {"procs": [C("NX", "nope"), C("AGG", "nope", scope="ropt"), C("AGG", "nope", scope="copt")],
              "progs": [nxnope("A")] * 3},
    "Resalt": {"procs": [C("NX", "www"), C("NX", "www", ring="B"), C("NX", "www", ring="C"), C("ND", "www", "TXT", ring="B")],
               "progs": [["A:www"], ["B:www"], ["C:www"], ["B:www"]]},
    "Bound": {"procs": [C("NX", "nope"), C("ND", "x.wild", "TXT"), C("NX", "nope")],
              "progs": [nxnope("A"), WILDND, nxnope("A")], "bound": 2},
    "Wild": {"procs": [C("WC", "x.wild", enc="wild"), C("ND", "x.wild", "TXT"), C("WC", "host.wild", enc="wild"),
                       C("ND", "host.wild", "TXT")],
             "progs": [["A:x.wild"], WILDND, ["A:host.wild"], ["A:host.wild"]]},
    "OptOut": {"procs": [C("ND", "sec", "TXT", zone="oo", ring="O"), C("DELEG", "sec", zone="oo", ring="O"),
                         C("DELEG", "ins", zone="oo", ring="O")],
               "progs": [["O:sec"], ["O:sec"], ["O:ins", "O:@"]]},
    "Ropt": {"procs": [C("AGG", "www", "TXT", scope="ropt"), C("AGG", "www", "A", scope="ropt"), C("AGG", "nope", scope="ropt")],
             "progs": [["A:www"], ["A:www"], nxnope("A")]},
    "Four": {"procs": [C("NX", "nope"), C("NX", "nope"), C("AGG", "nope", scope="ropt"), C("NX", "www")],
             "progs": [nxnope("A")] * 3 + [["A:www"]]},
}
CEILING = 64

# calls of the free-running stage beyond those of the scenarios
EXTRA_MENU = [C("ND", "www", "A"), C("ND", "mail", "TXT"), C("ND", "mail", "MX"), C("NX", "mail"), C("NX", "nope.www"),
              C("NX", "x.wild"), C("NX", "ent"), C("ND", "ent", "A"), C("DELEG", "sub"), C("DELEG", "sec"),
              C("ND", "sub", "DS"), C("ND", "sec", "DS"), C("AGG", "www", "TXT", scope="ropt"), C("AGG", "www", "A", scope="copt"),
              C("AGG", "host.wild", "TXT", scope="copt"), C("WC", "a.b.wild", enc="wild"), C("WC", "deep.ent", enc="@"),
              C("NX", "nope", ring="B"), C("NX", "nope", ring="C"), C("AGG", "nope", ring="B", scope="ropt"),
              C("AGG", "www", "A", ring="C", scope="ropt"), C("ND", "www", "A", ring="C"),
              C("NX", "nope", zone="oo", ring="O"), C("NX", "www", zone="oo", ring="O"), C("ND", "ins", "DS", zone="oo", ring="O"),
              C("ND", "sec", "DS", zone="oo", ring="O"), C("WC", "x.wild", zone="oo", ring="O", enc="wild"),
              C("WC", "www", zone="oo", ring="O", enc="@")]

# (cfg, invariant that must fail, quick tier too?)
NEGATIVE = [
    ("Neg_Pair_NoWait_ValuesCorrect.cfg", "ValuesCorrect", False),      # quick: NegGate_Pair_NoWait (a restriction) refutes it
    ("Neg_Pair_NoWait_WaiterAfterPublish.cfg", "WaiterAfterPublish", True),
    ("Neg_Pair_KeepFailed_NoPoison.cfg", "NoPoison", False),             # quick: NegGate_Pair_KeepFailed
    ("Neg_Pair_NoDedup_OneCompute.cfg", "OneCompute", True),
    ("Neg_Pair_NoDedup_OwnerHoldsPending.cfg", "OwnerHoldsPending", True),
    ("Neg_Bound_OverBoundRegisters_BoundRespected.cfg", "BoundRespected", True),
    ("Neg_Cross_CoptReadsReq_Directional.cfg", "Directional", True),
    ("Neg_Pair_NoCloseOnError_Termination.cfg", "Termination", True),
    ("Neg_Pair_EarlyClose_ValuesCorrect.cfg", "ValuesCorrect", False),
    ("Neg_Pair_EarlyClose_WaiterAfterPublish.cfg", "WaiterAfterPublish", False),
    ("Neg_Resalt_KeyNoParams_ValuesCorrect.cfg", "ValuesCorrect", False),
]
# mutants restricted to forceable schedules: their counter-examples are forced on the real code first
# (cfg, scenario, invariant that must fail, quick tier too?)
NEGGATE = [("NegGate_Pair_NoWait.cfg", "Pair", "ValuesCorrect", True), ("NegGate_OptOut_NoWait.cfg", "OptOut", "ValuesCorrect", True),
           ("NegGate_Ropt_LocNoWait.cfg", "Ropt", "ValuesCorrect", True), ("NegGate_Resalt_KeyNoParams.cfg", "Resalt", "ValuesCorrect", True),
           ("NegGate_Pair_KeepFailed.cfg", "Pair", "NoPoison", True), ("NegGate_Wild_NoWait.cfg", "Wild", "ValuesCorrect", False),
           ("NegGate_Four_NoWait.cfg", "Four", "ValuesCorrect", False), ("NegGate_Ropt_NoDedup.cfg", "Ropt", "OneCompute", False)]
CONTROLLED = ("Start", "Release", "Refuse")
NOOBJ = [0, 0]


def parallel(jobs):
    with ThreadPoolExecutor(max_workers=PAR) as ex:
        futs = [ex.submit(j) for j in jobs]
        return [f.result() for f in futs]


def ensure_overlay(ctx):
    """The driver needs the x02hm shims (dnssec snapshot, the production work adapters of resolver and cache)."""
    ctx.overlay_tags.add("x02hm")
    ov = os.path.join(ctx.scratch, "overlay.json")
    if os.path.exists(ov):
        with open(ov) as f:
            if "verif_x02hm_shim.go" not in f.read():
                os.remove(ov)


# ---- model state -> what the driver can observe ------------------------------------------------------------------
def seq(v):
    if isinstance(v, list):
        return v
    return [v[k] for k in sorted(v, key=lambda x: int(x))]


def jkey(o):
    return json.dumps(o, sort_keys=True)


def wait_enabled(st, i):
    return st["obj"][jkey(seq(st["ref"])[i])]["st"] in ("closed", "ok", "err")


def quiescent(st):
    for i, pc in enumerate(seq(st["pc"])):
        if pc in ("idle", "parked", "done"):
            continue
        if pc == "wait" and not wait_enabled(st, i):
            continue
        return False
    return True


def project(st):
    procs = {}
    outs = seq(st["out"])
    for i, pc in enumerate(seq(st["pc"])):
        procs[str(i + 1)] = "done:" + outs[i] if pc == "done" else pc
    memo = {}
    for m in ("req", "ropt", "copt"):
        objs = [o for o in st["map"][m].values() if o != NOOBJ]
        memo[m] = [len(objs), sum(1 for o in objs if st["obj"][jkey(o)]["st"] == "pending")]
    return {"procs": procs, "memo": memo}


def label_of(prev, cur):
    """The controlled step between two states, or None for an internal / stuttering one."""
    ppc, cpc = seq(prev["pc"]), seq(cur["pc"])
    for i, (a, b) in enumerate(zip(ppc, cpc)):
        if a == b:
            continue
        if a == "idle":
            return ("Start", i + 1)
        if a == "parked":
            return ("Refuse" if seq(cur["res"])[i]["err"] else "Release", i + 1)
        return None
    return None


def schedule_of_states(scn, tag, states, expect=True):
    steps = []
    for prev, cur in zip(states, states[1:]):
        lab = label_of(prev, cur)
        if lab is None:
            continue
        step = {"a": lab[0], "p": lab[1]}
        if expect:
            if not quiescent(prev):
                raise vf.MachineryError("a controlled step leaves a non-quiescent state of the gated model (%s)" % scn)
            step["exp"] = project(prev)
        steps.append(step)
    sc = {"scn": scn, "tag": tag, "steps": steps}
    if expect and states and quiescent(states[-1]):
        sc["final"] = project(states[-1])
    return sc


def sched_key(sc):
    return sc["scn"] + ":" + ";".join("%s%d" % (s["a"], s["p"]) for s in sc["steps"])


def has_wait(sc):
    return any("wait" in (s.get("exp") or {}).get("procs", {}).values() for s in sc["steps"]) or \
        "wait" in (sc.get("final") or {}).get("procs", {}).values()


# ---- TLC jobs ----------------------------------------------------------------------------------------------------
def graph_schedules(ctx, scn, max_len):
    r, nodes, edges, inits = ctx.tlc_graph(MODULE, SPEC, "Gate_%s.cfg" % scn, timeout=600, workers=2, heap="3g")
    # TLC's node ids are fingerprints of a per-run polynomial: rename by state rank so a seed gives the same schedules
    rank = {n: "n%05d" % i for i, n in enumerate(sorted(nodes, key=lambda n: json.dumps(nodes[n], sort_keys=True)))}
    nodes = {rank[n]: st for n, st in nodes.items()}
    uniq = sorted(set((rank[s], rank[d], lab) for (s, d, lab) in edges if lab != "Terminated"))
    paths = vf.cover_paths(nodes, uniq, sorted(rank[n] for n in inits), max_len=max_len)
    covered = set()
    for p in paths:
        covered.update(p)
    if len(covered) != len(uniq):
        raise vf.MachineryError("edge cover of Gate_%s incomplete: %d of %d" % (scn, len(covered), len(uniq)))
    out = []
    for p in paths:
        states = [nodes[p[0][0]]] + [nodes[e[1]] for e in p]
        # the edge labels must agree with what the state difference says
        for e in p:
            m = re.match(r"(\w+)\((\d+)\)", e[2])
            lab = label_of(nodes[e[0]], nodes[e[1]])
            if m and m.group(1) in CONTROLLED and lab != (m.group(1), int(m.group(2))):
                raise vf.MachineryError("cannot recover the label %s from the states (%s)" % (e[2], lab))
        out.append(schedule_of_states(scn, "graph", states))
    return out, len(nodes), len(uniq)


SIM_STATE = re.compile(r"\\\* <(.*?) line \d+, col \d+ to line \d+, col \d+ of module \w+>\s*\nSTATE_\d+ ==\s*\n(.*?)(?=\n\n|\Z)", re.S)
PC_LINE = re.compile(r"/\\ pc = (<<.*?>>)\s*(?:\n/\\|\Z)", re.S)


def sim_schedules(ctx, scn, num, depth):
    """-simulate on the gated model; only the states around a forced step are parsed (vf's value parser is slow and
    a state is large), the others are skipped by looking at their pc line."""
    cfg = "Gate_%s.cfg" % scn
    d = ctx.spec_dir(MODULE)
    pref = os.path.join(d, "sim_%s" % scn)
    r = ctx.tlc(MODULE, SPEC, cfg, workers=1, timeout=600, heap="3g", must_pass=False, tag="simulate", count=False,
                args=["-simulate", "file=%s,num=%d" % (pref, num), "-depth", str(depth), "-seed", str(ctx.seed)])
    if r.rc != 0:
        raise vf.MachineryError("TLC simulate failed rc=%d\n%s" % (r.rc, "\n".join(r.out.splitlines()[-40:])))
    seen, out = set(), []
    for fn in sorted(glob.glob(pref + "_*")):
        with open(fn) as f:
            raw = [m.group(2) for m in SIM_STATE.finditer(f.read())]
        os.remove(fn)
        pcs = []
        for t in raw:
            m = PC_LINE.search(t)
            if not m:
                raise vf.MachineryError("cannot find pc in a simulated state of %s" % cfg)
            pcs.append(m.group(1))
        keep = []                      # indices of the states next to a change of some process from idle / parked
        for i in range(1, len(raw)):
            if pcs[i] != pcs[i - 1]:
                a, b = vf.parse_tla_value(pcs[i - 1]), vf.parse_tla_value(pcs[i])
                if any(x != y and x in ("idle", "parked") for x, y in zip(a, b)):
                    keep += [i - 1, i]
        last = max(i for i in range(len(raw)) if i == 0 or pcs[i] != pcs[i - 1] or raw[i] != raw[i - 1])
        keep = sorted(set(keep + [last]))
        states = [vf.parse_tla_state(raw[i]) for i in keep]
        # between two kept states only internal steps happened, unless they are the two sides of a forced step
        sc = schedule_of_states(scn, "sim", states)
        k = sched_key(sc)
        if sc["steps"] and k not in seen:
            seen.add(k)
            out.append(sc)
    return out


def counterexample(r):
    parts = re.split(r"\nState (\d+): <(.*?)>\n", r.out)
    return [vf.parse_tla_state(parts[i + 2].split("\n\n")[0]) for i in range(1, len(parts) - 2, 3)]


def gated_cex(ctx, cfg, scn, inv):
    r = ctx.tlc(MODULE, SPEC, cfg, workers=1, timeout=300, heap="2g", must_pass=False, count=False, tag="mutant-must-fail")
    if r.violated != inv:
        raise vf.MachineryError("%s: the mutant must refute %s on the forceable model, TLC says %r" % (cfg, inv, r.violated))
    states = counterexample(r)
    if len(states) < 4:
        raise vf.MachineryError("could not read the counter-example of %s" % cfg)
    sc = schedule_of_states(scn, "cex:" + cfg[len("NegGate_"):-len(".cfg")], states, expect=False)
    if len(sc["steps"]) < 2:
        raise vf.MachineryError("the counter-example of %s has no forceable steps" % cfg)
    return sc


def model_jobs(ctx, thorough):
    # MC_Pair / Cross / Ropt / Resalt / OptOut also check Termination under FairSpec (no lost wake-up)
    mcs = ["MC_Bound.cfg", "MC_Cross.cfg", "MC_Wild.cfg", "MC_Pair.cfg", "MC_Ropt.cfg", "MC_Resalt.cfg", "MC_OptOut.cfg"]
    negs = [n for n in NEGATIVE if thorough or n[2]]
    jobs = [lambda c=c: ctx.tlc(MODULE, SPEC, c, workers=2, timeout=600, heap="3g") for c in mcs]
    jobs += [lambda c=c: ctx.tlc(MODULE, SPEC, c[0], workers=1, timeout=300, heap="2g", must_pass=False, count=False,
                                 tag="mutant-must-fail") for c in negs]

    def post(out):
        refuted = {}
        for (cfg, want, _), r in zip(negs, out[len(mcs):]):
            got = r.violated
            if want == "Termination":
                got = "Termination" if re.search(r"Temporal propert(y Termination was|ies were) violated", r.out) else got
            if got != want:
                raise vf.MachineryError("%s: the mutant must refute %s on the model, TLC says %r (vacuous invariant?)"
                                        % (cfg, want, got))
            refuted[cfg] = want
        ctx.cov["replay"]["hashmemo_model"] = {
            "exhaustive": {c: {"distinct": r.distinct, "generated": r.generated} for c, r in zip(mcs, out)},
            "mutants_refuted": refuted}
    return jobs, post


# ---- driver input ------------------------------------------------------------------------------------------------
def scenario_input(names):
    out = []
    for n in names:
        s = SCENARIOS[n]
        out.append({"name": n, "procs": s["procs"], "progs": s["progs"],
                    "prefill": CEILING - s["bound"] if s.get("bound") else 0})
    return out


def limiter_pairs():
    pairs, seen = [], set()
    for s in SCENARIOS.values():
        for i, a in enumerate(s["procs"]):
            for j, b in enumerate(s["procs"]):
                if i != j and s["progs"][i][0] == s["progs"][j][0]:
                    k = jkey([a, b])
                    if k not in seen:
                        seen.add(k)
                        pairs.append({"first": a, "second": b})
    return pairs


def free_menu():
    menu, seen = [], set()
    for s in SCENARIOS.values():
        for c in s["procs"]:
            if jkey(c) not in seen:
                seen.add(jkey(c))
                menu.append(c)
    for c in EXTRA_MENU:
        if jkey(c) not in seen:
            seen.add(jkey(c))
            menu.append(c)
    return menu


_FOLD_LOCK = threading.Lock()


def fold(ctx, res, name, prefix):
    with _FOLD_LOCK:      # the race stage reports from its own thread; one class is reported once per run
        seen = ctx.__dict__.setdefault("_x02hm_reported", set())
        fresh = [v for v in res.get("violations", []) if v.get("key") not in seen]
        seen.update(v.get("key") for v in fresh)
        ctx.take_driver_result(dict(res, violations=fresh), prefix)
    if res.get("skipped"):
        raise vf.MachineryError("hash-memo replay stalled: %s" % res["skipped"][:3])
    c = res.get("counters", {})
    info = {k: v for k, v in sorted(c.items())}
    info["drift"] = res["drift"]
    info["drift_notes"] = res.get("drift_notes", [])
    ctx.cov["replay"][name] = info
    return c


def validate_trace(ctx, scn, had_violation):
    """Runs recorded off TLC's path, validated against the gated model (hidden steps searched)."""
    tf = os.path.join(ctx.scratch, "trace_%s.ndjson" % scn)
    if not os.path.exists(tf):
        return {"runs": 0}
    lines = open(tf).read().splitlines()
    runs = sum(1 for ln in lines if '"reset"' in ln) - 1
    ok, r = ctx.tlc_trace(MODULE, "Trace_HashMemo.tla", "Trace_%s.cfg" % scn, tf, timeout=900, deque=False)
    m = re.search(r'"X02HMTRACE", (\d+), (\d+)', r.out)
    info = {"runs": runs, "lines": len(lines)}
    if m is None:
        raise vf.MachineryError("trace spec did not report its progress (%s)\n%s" % (scn, "\n".join(r.out.splitlines()[-30:])))
    reached = int(m.group(1))
    info["lines_matched"] = reached
    if ok and reached == len(lines):
        info["runs_explained"] = runs
        return info
    done = sum(1 for ln in lines[:reached] if '"reset"' in ln) - 1
    info["runs_explained"] = max(0, done)
    if r.violated:
        raise vf.MachineryError("trace validation of %s violated %s on the model" % (scn, r.violated))
    if had_violation:
        ctx.log("trace %s not matched beyond line %d of %d (the driver already reported a violation)" % (scn, reached, len(lines)))
        return info
    ctx.cov["drift"] += 1
    tail = lines[max(0, reached - 3):reached + 1]
    ctx.log("DRIFT: a recorded run of scenario %s is not a behaviour of HashMemo.tla: matched %d of %d lines (run %d of %d); "
            "no property predicate failed.  Lines around the mismatch:\n  %s" % (scn, reached, len(lines), done + 1, runs,
                                                                                "\n  ".join(tail)))
    info["rejected_at"] = tail
    return info


def run_tier(ctx):
    thorough = ctx.tier == "thorough"
    ensure_overlay(ctx)
    ctx.assumptions += [
        "X02HM: a validation is 'waiting' when the goroutine dump shows it blocked receiving from a channel inside "
        "nsec3_memo.go, 'parked' when it sits in the harness gate in front of the production adapter's BeginNSEC3Hash",
        "X02HM: schedules are the behaviours a gate in BeginNSEC3Hash can force (Gated = TRUE): no step can be placed "
        "between Read.load and Write.loadOrCompute or inside Publish; those interleavings (two callers missing the memo "
        "before either registers, a reader between close(ready) and the value store) are exhausted by TLC on the ungated "
        "model only and met on the code only by chance in the free-running stage",
        "X02HM: the zone's ground truth is the authkit zone model; records reach the verifiers as the complete genuine "
        "NSEC3 ring of the signer (RRSIG validation is C01's subject)",
    ]
    ctx.spec_dir(MODULE)
    ctx.harness_prepare()
    ctx.overlay_file()
    # the race-detector stage needs nothing from TLC: it runs next to the model checking
    race_pool = ThreadPoolExecutor(max_workers=1)
    race = race_pool.submit(race_stage, ctx, 1500 if thorough else 150)
    try:
        main_stage(ctx, thorough)
    except BaseException:
        try:
            race.result()       # let the stage finish before the scratch directory goes away
        except Exception:
            pass
        raise
    race.result()


def main_stage(ctx, thorough):
    # ---- TLC: the model alone, the forceable graphs / walks, the mutants' counter-examples
    graphs = ["Pair", "OptOut", "Resalt", "Ropt"] + (["Wild", "Cross"] if thorough else [])
    sims = [("Cross", 60, 60), ("Bound", 60, 60), ("Wild", 60, 50), ("Four", 80, 70)]
    if thorough:
        sims = [("Cross", 700, 60), ("Bound", 900, 60), ("Wild", 500, 50), ("Four", 1500, 70)]
    mjobs, mpost = model_jobs(ctx, thorough)
    jobs = list(mjobs)
    jobs += [lambda s=s: graph_schedules(ctx, s, 60) for s in graphs]
    jobs += [lambda a=a: sim_schedules(ctx, *a) for a in sims]
    jobs += [lambda n=n: gated_cex(ctx, *n[:3]) for n in NEGGATE if thorough or n[3]]
    out = parallel(jobs)
    mpost(out[:len(mjobs)])
    out = out[len(mjobs):]
    gout, sout, cex = out[:len(graphs)], out[len(graphs):len(graphs) + len(sims)], out[len(graphs) + len(sims):]
    if thorough:
        ctx.tlc(MODULE, SPEC, "MC_Four.cfg", workers=8, timeout=1800, heap="8g")
    for sc in cex:
        # every edge of these scenarios' graphs is replayed with the model's state next to it; the counter-example runs
        # (which carry none) need not go through the trace spec as well
        sc["notrace"] = sc["scn"] in graphs
    plan, ginfo = list(cex), {}
    for s, (scheds, nn, ne) in zip(graphs, gout):
        scheds.sort(key=lambda sc: (not has_wait(sc), len(sc["steps"])))
        plan += scheds
        ginfo.setdefault(s, {}).update({"states": nn, "edges": ne, "covering_schedules": len(scheds)})
        for sc in scheds:
            ctx._distinct.add("hm-sched:" + sched_key(sc))
    rng = random.Random(ctx.seed)
    for (s, _, _), scheds in zip(sims, sout):
        scheds.sort(key=lambda sc: (not has_wait(sc), sched_key(sc)))
        if len(scheds) < 10:
            raise vf.MachineryError("simulation of Gate_%s gave only %d schedules" % (s, len(scheds)))
        plan += scheds
        ginfo.setdefault(s, {}).update({"simulated_schedules": len(scheds)})
        for sc in scheds:
            ctx._distinct.add("hm-sched:" + sched_key(sc))
    # interleave the families so that a wall budget cuts all of them evenly, the counter-examples stay first
    head, tail = plan[:len(cex)], plan[len(cex):]
    rng.shuffle(tail)
    tail.sort(key=lambda sc: not has_wait(sc))
    plan = head + tail
    ctx.log("HashMemo schedules: %s; %d counter-examples of the mutants; %d in all (%d with a waiter)" % (
        ginfo, len(cex), len(plan), sum(1 for sc in plan if has_wait(sc))))
    ctx.sample({"schedule": {"scn": plan[0]["scn"], "tag": plan[0]["tag"], "steps": [[s["a"], s["p"]] for s in plan[0]["steps"]]}})
    # ---- the real verifiers over one shared memo set
    inp = {"scenarios": scenario_input(SCENARIOS), "schedules": plan, "limiter": limiter_pairs(),
           "free": {"rounds": 4000 if thorough else 250, "width": 10, "refusePermille": 15, "menu": free_menu(),
                    "budgetS": 90 if thorough else 5},
           "budgetS": 0 if thorough else 9, "traceDir": ctx.scratch}
    for s in SCENARIOS:
        tf = os.path.join(ctx.scratch, "trace_%s.ndjson" % s)
        if os.path.exists(tf):
            os.remove(tf)
    res = ctx.go_driver("./x02hm", "TestHashMemo", inp, name="hashmemo", timeout=1800)
    c = fold(ctx, res, "hashmemo", "[HashMemo] ")
    ctx.cov["replay"]["hashmemo"]["graphs"] = ginfo
    # ---- code -> spec: the runs that left TLC's own path must still be behaviours of the gated model
    tinfo = parallel([lambda s=s: validate_trace(ctx, s, bool(res.get("violations"))) for s in SCENARIOS])
    ctx.cov["replay"]["hashmemo"]["traces"] = dict(zip(SCENARIOS, tinfo))
    explained = sum(i.get("runs_explained", 0) for i in tinfo)
    nproc = sum(len(s["procs"]) for s in SCENARIOS.values())
    ctx.log("HashMemo replay: %d schedules (%d on TLC's path, %d off it of which %d explained by the trace spec, %d stalled), "
            "%d waits on a pending entry, %d computations answered "
            "(%d refused), %d limiter-parked pairs, free-running %d rounds / %d validations (%d digests shared); programs "
            "confirmed %d/%d; drift %d" % (
                c.get("schedules_conforming", 0) + c.get("schedules_off_path", 0) + c.get("schedules_stalled", 0),
                c.get("schedules_conforming", 0), c.get("schedules_off_path", 0), explained, c.get("schedules_stalled", 0),
                c.get("waits_observed", 0), c.get("computations_answered", 0),
                c.get("refusals", 0), c.get("limiter_parked", 0), c.get("free_rounds", 0), c.get("free_validations", 0),
                c.get("free_digests_shared", 0), c.get("programs_confirmed", 0), nproc, ctx.cov["drift"]))
    if c.get("hung_validations", 0):
        print("OBSERVATION: %d validation(s) never returned from the hash memo (lost wake-up; C12 termination)" %
              c["hung_validations"], flush=True)
    if not res.get("violations"):
        need = {"waits_observed": 20, "computations_answered": 100, "refusals": 10, "limiter_parked": 3, "limiter_waiters": 3,
                "accepted_true": 50, "free_rounds": 20, "free_digests_shared": 20, "schedules_conforming": 30}
        short = {k: c.get(k, 0) for k, v in need.items() if c.get(k, 0) < v}
        if short and not (ctx.cov["drift"] or c.get("program_mismatch", 0)):
            raise vf.MachineryError("hash-memo replay was vacuous: %s (wanted at least %s)" % (short, {k: need[k] for k in short}))
        if short:
            ctx.log("DRIFT: the replay does not conform to the model and exercised little: %s" % short)
    ctx.cov["traces_validated_against_impl"] += c.get("schedules_conforming", 0) + explained


def race_stage(ctx, rounds):
    """The free-running stage once more under the Go race detector: an unsynchronised access inside nsec3_memo.go (a
    reader that can see a half-published entry) cannot be forced through the BeginNSEC3Hash gate and is met by the plain
    free-running stage only by luck; the detector reports it from the happens-before order alone.  A data race is not
    a predicate of C02: drift + OBSERVATION (a verdict of the same run, if any, is still a verdict)."""
    inp = {"scenarios": [], "schedules": [], "limiter": limiter_pairs(),
           "free": {"rounds": rounds, "width": 10, "refusePermille": 15, "menu": free_menu(), "budgetS": 60}, "budgetS": 0}
    fin, fout = os.path.join(ctx.scratch, "hashmemo_race.in.json"), os.path.join(ctx.scratch, "hashmemo_race.out.json")
    with open(fin, "w") as f:
        json.dump(inp, f)
    if os.path.exists(fout):
        os.remove(fout)
    rc, out = ctx.go_test("./x02hm", "^TestHashMemo$", env={"VERIF_IN": fin, "VERIF_OUT": fout, "VERIF_SCRATCH": ctx.scratch},
                          timeout=900, race=True)
    if not os.path.exists(fout):
        raise vf.MachineryError("race stage produced no result (rc=%d)\n%s" % (rc, "\n".join(out.splitlines()[-40:])))
    with open(fout) as f:
        res = json.load(f)
    races = [b for b in out.split("==================") if "DATA RACE" in b]
    memo_races = [b for b in races if "nsec3_memo.go" in b]
    if rc != 0 and not res.get("violations") and not races:
        raise vf.MachineryError("race stage failed rc=%d without a violation or a race report\n%s" % (rc, "\n".join(out.splitlines()[-40:])))
    c = fold(ctx, res, "hashmemo_race", "[HashMemo -race] ")
    ctx.cov["replay"]["hashmemo_race"]["data_races"] = len(races)
    ctx.cov["replay"]["hashmemo_race"]["data_races_in_nsec3_memo"] = len(memo_races)
    if memo_races:
        ctx.cov["drift"] += 1
        lines = [ln.strip() for ln in memo_races[0].splitlines() if ln.strip()][:14]
        print("OBSERVATION: the race detector reports %d unsynchronised access(es) inside nsec3_memo.go (an entry can be read "
              "while it is being published):\n    %s" % (len(memo_races), "\n    ".join(lines)), flush=True)
    elif races:
        ctx.log("race detector: %d report(s), none inside nsec3_memo.go:\n%s" % (len(races), races[0][:1500]))
    ctx.log("HashMemo -race: %d free-running rounds, %d limiter pairs, %d race reports (%d in nsec3_memo.go)" % (
        c.get("free_rounds", 0), c.get("limiter_pairs", 0), len(races), len(memo_races)))


def run(ctx, replay):
    if replay:
        return replay_file(ctx, replay)
    ctx.cov["rule"] = ("every labelled edge of the forceable HashMemo graphs (Pair, OptOut, Resalt, Ropt), simulated behaviours of "
                       "Cross / Bound / Wild / Four and the mutants' counter-examples, forced on goroutines running the real "
                       "verifiers over one shared memo set; a production-park family and a free-running stage; distinct = "
                       "distinct schedules / (family, call, outcome)")
    run_tier(ctx)


def replay_file(ctx, path):
    """bin/check X02HM --replay <file>: re-run exactly the recorded schedule / pair / round."""
    with open(path) as f:
        rec = json.load(f)
    rp = rec.get("replay", rec)
    fam = rp.get("family")
    ensure_overlay(ctx)
    inp = {"scenarios": [], "schedules": [], "limiter": [], "free": None, "budgetS": 0}
    scn = rp.get("scenario") if rp.get("scenario") in SCENARIOS else "Pair"
    ctx.tlc(MODULE, SPEC, "MC_%s.cfg" % scn, workers=2, timeout=600, heap="3g")
    if fam == "gated":
        inp["scenarios"] = scenario_input([scn])
        inp["schedules"] = [rp["schedule"]]
    elif fam == "limiter":
        inp["limiter"] = [rp["pair"]]
    elif fam == "free":
        inp["free"] = dict(rp["free"], only=rp["round"], budgetS=0)
        ctx.log("a free-running round is re-run with its seed; the interleaving itself is the scheduler's")
    elif fam == "alone":
        inp["scenarios"] = [{"name": "alone", "procs": [rp["call"]], "progs": [[]], "prefill": 0}]
    else:
        raise vf.MachineryError("replay file %s: unknown family %r" % (path, fam))
    res = ctx.go_driver("./x02hm", "TestHashMemo", inp, name="replay_hashmemo", timeout=600)
    ctx.take_driver_result(res, "[replay HashMemo] ")
    if res.get("skipped"):
        raise vf.MachineryError("replay stalled: %s" % res["skipped"][:3])
    ctx.cov["rule"] = "replay of %s" % path
    ctx.sample({"replayed": path, "family": fam})
    ctx._distinct.update(["replay", path])
