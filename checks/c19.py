"""C19 -- client subnet data is neither leaked upstream nor across audiences."""
import re

import serve_common as sc
import x04pf
import x11fw
import vf

ADDRS = ["98.51.100.10", "98.51.100.200", "98.51.101.5", "98.77.0.1", "10.1.2.3", "98.51.0.9"]


def ecs_family(ctx, thorough):
    """Ecs.tla: forwarding clamp, scoped storage key, audience, TTL cap."""
    for cfg, enabled, floor in (("floor16", True, 16), ("floor24", True, 24), ("off", False, 24)):
        ctx.tlc("Ecs", "MC_Ecs.tla", "MC_Ecs_%s.cfg" % cfg, workers=4, timeout=900, heap="6g")
        behs = ctx.tlc_behaviours("Ecs", "MC_Ecs.tla", "Sim_Ecs_%s.cfg" % cfg, num=250 if not thorough else 4000, depth=7)
        out = []
        for b in behs:
            steps = []
            for lab, st in b[1:]:
                # Ecs.tla's Query carries two more arguments (cd, upstream CD bit) since the C03 audience tier; fixed here by the cfgs
                m = re.match(r"Query\((\d+),\s*(\d+),\s*(\d+)[,)]", lab)
                if not m:
                    raise vf.MachineryError("unexpected label " + lab)
                steps.append({"c": int(m.group(1)), "sent": int(m.group(2)), "scope": int(m.group(3)),
                              "expHit": st["last"]["kind"] == "hit"})
            if steps:
                out.append({"steps": steps})
                ctx._distinct.add("ecs:%s:%r" % (cfg, steps))
        inp = {"enabled": enabled, "fwdMax": 24, "floor": floor, "addrs": ADDRS, "behaviours": out}
        res = ctx.go_driver("./c19", "TestEcsReplay", inp, name="ecs_" + cfg, timeout=900)
        ctx.take_driver_result(res, "[Ecs %s] " % cfg)
        ctx.cov["replay"]["ecs_" + cfg] = {"behaviours": len(out), "cases": res["cases"], "drift": res["drift"],
                                           "drift_notes": res.get("drift_notes", [])[:5], "counters": res.get("counters", {})}
        if res["cases"] == 0:
            raise vf.MachineryError("ecs replay ran no cases")


def denial_family(ctx, thorough, focus=""):
    """EcsDenial.tla: ECS- and CD-carrying queries neither consume nor create shared synthesised denials."""
    ctx.tlc("Ecs", "MC_EcsDenial.tla", "MC_EcsDenial.cfg", workers=2, timeout=300, heap="2g")
    for cfg, want in (("MC_EcsDenial_mutant.cfg", ("NeverCreates", "NeverConsumes", "ADDiscipline")), ("MC_EcsDenial_reach.cfg", ("NeverSynth",))):
        r = ctx.tlc("Ecs", "MC_EcsDenial.tla", cfg, workers=2, timeout=300, heap="2g", must_pass=False, count=False, tag="must-fail")
        if r.violated not in want:
            raise vf.MachineryError("%s: expected %s to fail, got %r" % (cfg, want, r.violated))
    behs = ctx.tlc_behaviours("Ecs", "MC_EcsDenial.tla", "Sim_EcsDenial.cfg", num=150 if not thorough else 2000, depth=7)
    out, seen = [], set()
    for b in behs:
        steps = []
        for i in range(1, len(b)):
            m = re.match(r'Ask\("(\w+)",\s*"(\w+)"', b[i][0])
            if not m:
                raise vf.MachineryError("unexpected label " + b[i][0])
            last = b[i][1]["last"]
            steps.append({"kind": m.group(1), "born": m.group(2), "do": bool(last["f"]["do"]), "ad": bool(last["f"]["ad"]),
                          "out": last["out"], "cut": bool(b[i - 1][1]["cut"])})
        k = repr(steps)
        if steps and k not in seen:
            seen.add(k)
            out.append({"steps": steps})
            ctx._distinct.add("ecsdenial:" + k)
    if len(out) < 30:
        raise vf.MachineryError("EcsDenial simulation produced only %d behaviours" % len(out))
    res = ctx.go_driver("./c19", "TestEcsDenialBypass", {"behaviours": out, "focus": focus}, name="ecs_denial", timeout=900)
    ctx.take_driver_result(res, "[EcsDenial] ")
    cnt = res.get("counters", {})
    ctx.cov["replay"]["ecs_denial"] = {"behaviours": len(out), "cases": res["cases"], "drift": res["drift"],
                                       "drift_notes": res.get("drift_notes", [])[:5], "counters": cnt}
    if res.get("skipped"):
        raise vf.MachineryError("EcsDenial replay skipped: %s" % res["skipped"][:3])
    if cnt.get("synthesised", 0) < 10 and not res.get("violations"):
        raise vf.MachineryError("vacuous: the shared cut was hardly ever used (%s)" % cnt)


def run(ctx, replay):
    thorough = ctx.tier == "thorough"
    ctx.cov["rule"] = ("cases = behaviours of Serve.tla's ecs and cookies families (ECS policy off/on/invalid x client "
                       "subnet option kinds x OPT shapes x upstream content incl. scoped answers), concretised and served "
                       "by the real default chain; the upstream query seen by the scripted tail and the client reply are "
                       "judged by the ECS predicates")
    fams = ["ecs", "cookies"]
    sc.run_family_models(ctx, fams, thorough)
    sc.regression_model(ctx)
    sc.replay(ctx, "C19", fams, num=500 if not thorough else 6000, variants=2 if not thorough else 4)
    ecs_family(ctx, thorough)
    denial_family(ctx, thorough)
    # forwarder mode: what leaves toward a configured upstream carries no client option except the clamped ECS (Forward.tla)
    ctx.overlay_tags.add("x11fw")
    import os
    ov = os.path.join(ctx.scratch, "overlay.json")
    if os.path.exists(ov):
        os.remove(ov)
    x11fw.run_tier(ctx, families=("c19",))
    # "never background-refreshed" / audience through the refresh path: an ECS client's hit on a SHARED entry claims
    # its refresh; the refresh request must carry no client subnet and the shared key must never come to hold a
    # subnet-specific answer (Prefetch.tla: RefreshOfSharedCarriesNoClientSubnet, SharedEntryNeverHoldsScopedAnswer)
    ctx.overlay_tags.add("x04pf")
    ov = os.path.join(ctx.scratch, "overlay.json")
    if os.path.exists(ov):
        os.remove(ov)
    x04pf.run_ecs_refresh(ctx, judge=True)
