"""C19 -- client subnet data is neither leaked upstream nor across audiences."""
import re

import serve_common as sc
import x04pf
import x11fw
import vf

ADDRS = ["98.51.100.10", "98.51.100.200", "98.51.101.5", "98.77.0.1", "10.1.2.3", "98.51.0.9"]


def ecs_family(ctx, thorough):
    """Ecs.tla: forwarding clamp, scoped storage key, audience, TTL cap, and the subnet the authority's option
    names (Echoes: 0 = the one it was sent, k = client k's; RFC 7871 7.3 has a mismatching reply dropped)."""
    # negative twin: the writer as built keys the answer on the ECHOED address and serves the asker; it must refute
    # one of the two audience properties, or the echo dimension of the model is vacuous
    r = ctx.tlc("Ecs", "MC_Ecs.tla", "MC_Ecs_echo_asbuilt.cfg", workers=4, timeout=600, heap="4g",
                must_pass=False, count=False, tag="echo-as-built-must-fail")
    if r.violated not in ("ScopedAudience", "DeclaredScopeAudience"):
        raise vf.MachineryError("MC_Ecs_echo_asbuilt.cfg: expected an audience property to fail, got %r" % (r.violated,))
    for cfg, enabled, floor in (("floor16", True, 16), ("floor24", True, 24), ("off", False, 24)):
        ctx.tlc("Ecs", "MC_Ecs.tla", "MC_Ecs_%s.cfg" % cfg, workers=4, timeout=900, heap="6g")
        behs = ctx.tlc_behaviours("Ecs", "MC_Ecs.tla", "Sim_Ecs_%s.cfg" % cfg, num=250 if not thorough else 4000, depth=7)
        out = []
        for b in behs:
            steps = []
            for lab, st in b[1:]:
                m = re.match(r"Query\((\d+),\s*(\d+),\s*(\d+),\s*(\d+)\)", lab)
                if not m:
                    raise vf.MachineryError("unexpected label " + lab)
                steps.append({"c": int(m.group(1)), "sent": int(m.group(2)), "scope": int(m.group(3)), "echo": int(m.group(4)),
                              "expHit": st["last"]["kind"] == "hit", "expKind": st["last"]["kind"]})
            if steps:
                out.append({"steps": steps})
                ctx._distinct.add("ecs:%s:%r" % (cfg, steps))
        inp = {"enabled": enabled, "fwdMax": 24, "floor": floor, "addrs": ADDRS, "behaviours": out}
        res = ctx.go_driver("./c19", "TestEcsReplay", inp, name="ecs_" + cfg, timeout=900)
        ctx.take_driver_result(res, "[Ecs %s] " % cfg)
        ctx.cov["replay"]["ecs_" + cfg] = {"behaviours": len(out), "cases": res["cases"], "drift": res["drift"],
                                           "drift_notes": res.get("drift_notes", [])[:5], "counters": res.get("counters", {})}
        if res["cases"] == 0:
            raise vf.MachineryError("ecs replay ran no cases")
        cnt = res.get("counters", {})
        if enabled and cnt.get("echo_mismatch_scoped_exchanges", 0) < 5 and not res.get("violations"):
            raise vf.MachineryError("vacuous: the authority hardly ever echoed another subnet with a non-zero scope (%s)" % cnt)


def _denial_steps(b):
    """One simulated behaviour of EcsDenial.tla -> steps (Ask(kind, born, flags, shape) | Birth)."""
    steps = []
    for i in range(1, len(b)):
        lab = b[i][0]
        if lab.startswith("Birth"):
            steps.append({"kind": "birth"})
            continue
        m = re.match(r'Ask\("(\w+)",\s*"(\w+)"', lab)
        if not m:
            raise vf.MachineryError("unexpected label " + lab)
        last = b[i][1]["last"]
        if last["kind"] != m.group(1) or last["born"] != m.group(2):
            raise vf.MachineryError("label %s does not match state %r" % (lab, last))
        steps.append({"kind": m.group(1), "born": m.group(2), "do": bool(last["f"]["do"]), "ad": bool(last["f"]["ad"]),
                      "shape": "" if last["shape"] == "none" else last["shape"], "out": last["out"], "sub": bool(last["sub"]),
                      "cut": bool(b[i - 1][1]["cut"])})
    return steps


def denial_family(ctx, thorough, focus=""):
    """EcsDenial.tla: ECS- and CD-carrying queries neither consume nor create shared synthesised denials -- whatever
    the shape of the subnet option (real prefix, /0, the RFC 7871 empty option), message- or wire-born, at the cache's
    hit ladder and (resolver tier) at the Store the resolver reads for its private DS / DNSKEY sub-queries."""
    ctx.tlc("Ecs", "MC_EcsDenial.tla", "MC_EcsDenial.cfg", workers=2, timeout=300, heap="2g")
    # negative twins: the marker lost on the wire-born detach; the wire-born parser not taking the empty option for
    # ECS (seeded C19-r3-1); the resolver's sub-queries reaching the Store without the marker (seeded C19-r3-3);
    # reachability of a synthesised answer and of a marked tree passing the Store under a live cut
    for cfg, want in (("MC_EcsDenial_mutant.cfg", ("NeverCreates", "NeverConsumes", "ADDiscipline")),
                      ("MC_EcsDenial_mutant_empty.cfg", ("NeverCreates", "NeverConsumes")),
                      ("MC_EcsDenial_mutant_sub.cfg", ("NeverConsumes",)),
                      ("MC_EcsDenial_reach.cfg", ("NeverSynth",)), ("MC_EcsDenial_reach_sub.cfg", ("NeverSubPassed",))):
        r = ctx.tlc("Ecs", "MC_EcsDenial.tla", cfg, workers=2, timeout=300, heap="2g", must_pass=False, count=False, tag="must-fail")
        if r.violated not in want:
            raise vf.MachineryError("%s: expected %s to fail, got %r" % (cfg, want, r.violated))
    behs = ctx.tlc_behaviours("Ecs", "MC_EcsDenial.tla", "Sim_EcsDenial.cfg", num=150 if not thorough else 2000, depth=7)
    # the stub tier (edns + cache, a handler in the resolver's place) has no namespace that could change: Birth is
    # projected away there (the driver keeps its own account of the cut); the resolver tier below plays it
    out, seen = [], set()
    for b in behs:
        steps = [s for s in _denial_steps(b) if s["kind"] != "birth"]
        k = repr(steps)
        if steps and k not in seen:
            seen.add(k)
            out.append({"steps": steps})
            ctx._distinct.add("ecsdenial:" + k)
    if len(out) < 30:
        raise vf.MachineryError("EcsDenial simulation produced only %d behaviours" % len(out))
    # directed (audit aud19; not a shape of EcsDenial.tla yet): the subnet option rides in the FIRST of two OPT records.
    # edns.hasClientECS and cache.hasEDNSClientSubnet read only the OPT IsEdns0 selects (the last), SetEdns0 then drops the
    # first: the marker is never set and the query consumes / creates shared denials.  C19_DUP_OPT_DENIAL=0 leaves them out.
    import os
    if os.environ.get("C19_DUP_OPT_DENIAL", "1") == "1" and not focus:
        plain = {"kind": "plain", "born": "msg", "do": True, "ad": False, "shape": "", "out": "", "sub": False, "cut": False}
        dup = dict(plain, kind="ecs", shape="dup")
        out = out + [{"steps": [plain, dup]}, {"steps": [dup, plain]}]
    res = ctx.go_driver("./c19", "TestEcsDenialBypass", {"behaviours": out, "focus": focus}, name="ecs_denial", timeout=900)
    ctx.take_driver_result(res, "[EcsDenial] ")
    cnt = res.get("counters", {})
    ctx.cov["replay"]["ecs_denial"] = {"behaviours": len(out), "cases": res["cases"], "drift": res["drift"],
                                       "drift_notes": res.get("drift_notes", [])[:5], "counters": cnt}
    if res.get("skipped"):
        raise vf.MachineryError("EcsDenial replay skipped: %s" % res["skipped"][:3])
    if cnt.get("synthesised", 0) < 10 and not res.get("violations"):
        raise vf.MachineryError("vacuous: the shared cut was hardly ever used (%s)" % cnt)
    if not res.get("violations") and not focus:
        for tag in ("ecs-empty/wire", "ecs-empty/msg", "ecs-zero/wire", "ecs-v6/wire", "ecs/wire"):
            if cnt.get("carried/" + tag, 0) < 3:
                raise vf.MachineryError("vacuous: subnet option shape %s hardly ever sent (%s)" % (tag, cnt))
    if not focus:
        denial_resolver_tier(ctx, thorough)


def denial_resolver_tier(ctx, thorough):
    """EcsDenial.tla with Birth, on the full edns + cache + resolver pipeline against a signed scripted namespace:
    the second site at which a request tree meets shared denial state is the Store the resolver reads for its private
    DS / DNSKEY look-ups ("even through ... internal sub-queries")."""
    want = 24 if not thorough else 120
    behs = ctx.tlc_behaviours("Ecs", "MC_EcsDenial.tla", "Sim_EcsDenial_sub.cfg", num=2000 if not thorough else 8000, depth=6)
    strata, seen = {}, set()
    for b in behs:
        steps = _denial_steps(b)
        k = repr(steps)
        if len(steps) < 3 or k in seen:
            continue
        seen.add(k)
        kinds = [s["kind"] for s in steps]
        if "birth" not in kinds:
            cls = "2nobirth"
        elif any(s.get("sub") for s in steps):
            # a marked validating tree reads the new zone's DNSKEY while the cut is there; sub-strata by the option
            # shape and entry of that step, so every seed plays each of them (stable violation keys)
            f = [s for s in steps if s.get("sub")][0]
            cls = "0sub/%s/%s" % (f["shape"], f["born"])
        else:
            cls = "1birth"
        strata.setdefault(cls, []).append({"steps": steps})
    rnd = __import__("random").Random(ctx.seed)
    picked = []
    subs = sorted(k for k in strata if k.startswith("0sub/"))
    if len(subs) < 4:
        raise vf.MachineryError("EcsDenial resolver tier: the simulation reaches the sub site under a live cut only as %s" % subs)
    for k in subs:
        rnd.shuffle(strata[k])
    quota = max(len(subs), int(round(want * 0.6)))
    while len(picked) < quota and any(strata[k] for k in subs):
        for k in subs:
            if strata[k] and len(picked) < quota:
                picked.append(strata[k].pop())
    nsub = len(picked)
    for cls in ("1birth", "2nobirth"):
        pool = strata.get(cls, [])
        rnd.shuffle(pool)
        picked += pool[:max(2, int(round(want * 0.2)))]
    for p in picked:
        ctx._distinct.add("ecsdenial-resolver:" + repr(p["steps"]))
    ctx.overlay_tags.add("c19")     # overlay/middleware/cache/verif_c19_shim.go also when C06 borrows this family
    res = ctx.go_driver("./c19", "TestEcsDenialResolver", {"behaviours": picked}, name="ecs_denial_resolver", timeout=900)
    ctx.take_driver_result(res, "[EcsDenial resolver] ")
    cnt = res.get("counters", {})
    ctx.cov["replay"]["ecs_denial_resolver"] = {"behaviours": len(picked), "cases": res["cases"], "drift": res["drift"],
                                                "drift_notes": res.get("drift_notes", [])[:5], "counters": cnt,
                                                "played_sub_behaviours": nsub}
    if res.get("skipped"):
        raise vf.MachineryError("EcsDenial resolver replay skipped: %s" % res["skipped"][:3])
    if res.get("violations"):
        return
    if (cnt.get("synthesised", 0) < 5 or cnt.get("births", 0) < nsub or cnt.get("sub_site_passed_under_cut", 0) < 4
            or cnt.get("obs/pos", 0) < 8 or cnt.get("obs/down", 0) < 8):
        raise vf.MachineryError("vacuous: EcsDenial resolver tier (%s)" % cnt)
    if res["drift"] > res["cases"] // 5:
        raise vf.MachineryError("EcsDenial resolver tier: %d drift notes on %d steps (binding lost): %s"
                                % (res["drift"], res["cases"], res.get("drift_notes", [])[:3]))


def resolver_scope_observation(ctx):
    """The audience clause in resolver (iterative) mode (a verdict; C19_RESOLVER_SCOPE_STRICT=0 demotes it to an observation).  resolver.answer() replaces a
    positive answer's additional section with the request's OPT (subnet option, SCOPE 0), so the scope the authority
    declared is lost and the subnet-specific answer is stored under the shared key.  Set C19_RESOLVER_SCOPE_STRICT=1 to
    judge it (digest keys c19/resolver-scope-lost/<subnet>)."""
    import os
    judge = os.environ.get("C19_RESOLVER_SCOPE_STRICT", "1") == "1"      # a verdict since the resolver keeps the authority's option
    res = ctx.go_driver("./c19", "TestResolverScopeObservation", {"judge": judge}, name="resolver_scope", timeout=300)
    cnt = res.get("counters", {})
    ctx.cov["replay"]["resolver_scope_observation"] = {"cases": res["cases"], "counters": cnt}
    if res.get("skipped"):
        ctx.log("resolver-scope observation skipped: %s" % res["skipped"][:2])
        return
    if judge:
        ctx.take_driver_result(res, "[resolver scope] ")
    elif cnt.get("scoped_answer_served_outside_its_scope", 0):
        print("OBSERVATION property=C19 resolver mode with [ecs] enabled: an answer the authority scoped /24 to one subnet was "
              "served from cache to %d client(s) outside it (scope lost in resolver.answer/clearAdditional); authorities that saw "
              "the client subnet: %s" % (cnt["scoped_answer_served_outside_its_scope"],
                                         sorted(k.split("/", 1)[1] for k in cnt if k.startswith("authority_saw_client_subnet/"))), flush=True)


FLIGHT_CASES = [  # (leader, follower, late) as (index into ADDRS, announced bits); one per branch of EcsFlight!Arrive x leader kind
    ((0, 24), (4, 0), (3, 0)),      # follower announces nothing: as built it rides the leader's flight and files its answer as shared
    ((0, 24), (1, 24), (2, 24)),    # follower of the leader's own /24: shares legitimately; a late client of another /24
    ((0, 24), (2, 24), (4, 0)),     # follower of another /24
    ((4, 0), (0, 24), (1, 24)),     # leader announces nothing, follower does
    ((0, 32), (5, 0), (1, 32)),     # leader's /32 is clamped to /24; plain follower; late client of the leader's /24
    ((0, 16), (3, 0), (5, 16)),     # a /16 leader; late client of the same /16
]


def flight_family(ctx, thorough):
    """EcsFlight.tla: the audience clause across the resolver's shared wire look-up (groupLookup).  A follower is handed a
    copy of the leader's response; its own cache writer files it by ITS request - a follower that announced no subnet
    compares no echo, reads no scope and files the leader's tailored answer under the shared key.  C19_FLIGHT_STRICT=0
    demotes the verdict to an observation."""
    import os
    ctx.tlc("Ecs", "MC_EcsFlight.tla", "MC_EcsFlight.cfg", workers=4, timeout=600, heap="4g")
    # negative twins: the flight key as built (question | zone | CD | servers: everybody shares) must refute the audience
    # property; somebody does share a flight in the specified model (same announced subnet)
    for cfg, want in (("MC_EcsFlight_asbuilt.cfg", ("ServedWithinScope", "SharedEntryNeverScoped")), ("MC_EcsFlight_reach.cfg", ("NobodyJoins",))):
        r = ctx.tlc("Ecs", "MC_EcsFlight.tla", cfg, workers=4, timeout=300, heap="2g", must_pass=False, count=False, tag="must-fail")
        if r.violated not in want:
            raise vf.MachineryError("%s: expected %s to fail, got %r" % (cfg, want, r.violated))
    judge = os.environ.get("C19_FLIGHT_STRICT", "1") == "1"
    cases = [{"leader": {"c": l[0], "sent": l[1]}, "follower": {"c": f[0], "sent": f[1]}, "late": {"c": t[0], "sent": t[1]}}
             for l, f, t in FLIGHT_CASES]
    for c in cases:
        ctx._distinct.add("ecsflight:%r" % (c,))
    res = ctx.go_driver("./c19", "TestResolverFlightAudience", {"judge": judge, "fwdMax": 24, "addrs": ADDRS, "cases": cases},
                        name="resolver_flight", timeout=600)
    cnt = res.get("counters", {})
    ctx.cov["replay"]["resolver_flight"] = {"cases": res["cases"], "counters": cnt}
    if res.get("skipped"):
        raise vf.MachineryError("resolver flight replay skipped: %s" % res["skipped"][:3])
    if res["cases"] != len(cases):
        raise vf.MachineryError("resolver flight replay ran %d of %d cases" % (res["cases"], len(cases)))
    if cnt.get("tailored_answer_inside_scope/leader", 0) < 3 and not res.get("violations"):
        raise vf.MachineryError("vacuous: the authority hardly ever tailored an answer (%s)" % cnt)
    if judge:
        ctx.take_driver_result(res, "[resolver flight] ")
    elif cnt.get("scoped_answer_served_outside_its_scope", 0):
        print("OBSERVATION property=C19 resolver mode with [ecs] enabled: %d replies carried an answer tailored to another "
              "subnet (shared wire look-up, groupLookup key without the subnet option)" % cnt["scoped_answer_served_outside_its_scope"], flush=True)


def replay_record(ctx, rec):
    """--replay of a violation recorded by the Ecs driver: the recorded history alone."""
    rp = rec.get("replay", rec)
    if isinstance(rp, dict) and rp.get("driver") in ("ecs-denial", "ecs-denial-resolver") and rp.get("steps"):
        # a recorded EcsDenial history (stub tier / resolver tier): the statement's model, then the history alone
        ctx.tlc("Ecs", "MC_EcsDenial.tla", "MC_EcsDenial.cfg", workers=2, timeout=300, heap="2g")
        test = "TestEcsDenialBypass" if rp["driver"] == "ecs-denial" else "TestEcsDenialResolver"
        res = ctx.go_driver("./c19", test, {"behaviours": [{"steps": rp["steps"]}], "focus": ""}, name="ecs_denial_replay_file", timeout=600)
        ctx.take_driver_result(res, "[replay] ")
        ctx.cov["replay"]["replayed_file"] = {"cases": res["cases"], "driver": rp["driver"]}
        return True
    if isinstance(rp, dict) and rp.get("driver") == "resolver-flight" and rp.get("cases"):
        ctx.tlc("Ecs", "MC_EcsFlight.tla", "MC_EcsFlight.cfg", workers=4, timeout=600, heap="4g")
        res = ctx.go_driver("./c19", "TestResolverFlightAudience", {"judge": True, "fwdMax": rp.get("fwdMax", 24), "addrs": rp.get("addrs", ADDRS),
                                                                     "cases": rp["cases"]}, name="resolver_flight_replay_file", timeout=600)
        ctx.take_driver_result(res, "[replay] ")
        ctx.cov["replay"]["replayed_file"] = {"cases": res["cases"], "driver": rp["driver"]}
        return True
    if not isinstance(rp, dict) or rp.get("driver") != "ecs" or not rp.get("steps"):
        return False
    inp = {"enabled": rp["enabled"], "fwdMax": rp.get("fwdMax", 24), "floor": rp["floor"], "addrs": rp.get("addrs", ADDRS),
           "behaviours": [{"steps": rp["steps"]}]}
    res = ctx.go_driver("./c19", "TestEcsReplay", inp, name="ecs_replay_file", timeout=600)
    ctx.take_driver_result(res, "[replay] ")
    ctx.cov["states"] = max(1, ctx.cov["states"])
    ctx.cov["transitions"] = max(1, ctx.cov["transitions"])
    ctx.cov["replay"]["replayed_file"] = {"cases": res["cases"]}
    return True


def run(ctx, replay):
    thorough = ctx.tier == "thorough"
    if replay:
        import json
        with open(replay) as f:
            rec = json.load(f)
        if sc.replay_record(ctx, rec, "C19") or replay_record(ctx, rec):
            return
    ctx.cov["rule"] = ("cases = behaviours of Serve.tla's ecs and cookies families (ECS policy off/on/invalid x client "
                       "subnet option kinds x OPT shapes x upstream content incl. scoped answers), concretised and served "
                       "by the real default chain; the upstream query seen by the scripted tail and the client reply are "
                       "judged by the ECS predicates")
    import os
    if os.environ.get("VERIF_C19_ONLY") == "flight":     # development switch: the EcsFlight family alone
        flight_family(ctx, thorough)
        return
    if os.environ.get("VERIF_C19_ONLY") == "denial":     # development switch: the EcsDenial family alone
        denial_family(ctx, thorough)
        return
    fams = ["ecs", "cookies"]
    sc.run_family_models(ctx, fams, thorough)
    sc.regression_model(ctx)
    sc.replay(ctx, "C19", fams, num=500 if not thorough else 6000, variants=2 if not thorough else 4)
    # a request that arrives with TWO OPT records: every client option of every one of them is gone before the upstream
    # query (tail and real forwarder + socket upstream); an upstream's subnet echo in a second OPT record never reaches
    # the client
    sc.relay_family(ctx, "C19", thorough)
    ecs_family(ctx, thorough)
    resolver_scope_observation(ctx)
    flight_family(ctx, thorough)
    denial_family(ctx, thorough)
    # forwarder mode: what leaves toward a configured upstream carries no client option except the clamped ECS (Forward.tla)
    ctx.overlay_tags.add("x11fw")
    import os
    ov = os.path.join(ctx.scratch, "overlay.json")
    if os.path.exists(ov):
        os.remove(ov)
    x11fw.run_tier(ctx, families=("c19",))
    # "never background-refreshed" / audience through the refresh path: an ECS client's hit on a SHARED entry claims
    # its refresh; the refresh request must carry no client subnet and the shared key must never come to hold a
    # subnet-specific answer (Prefetch.tla: RefreshOfSharedCarriesNoClientSubnet, SharedEntryNeverHoldsScopedAnswer)
    ctx.overlay_tags.add("x04pf")
    ov = os.path.join(ctx.scratch, "overlay.json")
    if os.path.exists(ov):
        os.remove(ov)
    x04pf.run_ecs_refresh(ctx, judge=True)
