"""C19 -- client subnet data is neither leaked upstream nor across audiences."""
import serve_common as sc


def run(ctx, replay):
    thorough = ctx.tier == "thorough"
    ctx.cov["rule"] = ("cases = behaviours of Serve.tla's ecs and cookies families (ECS policy off/on/invalid x client "
                       "subnet option kinds x OPT shapes x upstream content incl. scoped answers), concretised and served "
                       "by the real default chain; the upstream query seen by the scripted tail and the client reply are "
                       "judged by the ECS predicates")
    fams = ["ecs", "cookies"]
    sc.run_family_models(ctx, fams, thorough)
    sc.regression_model(ctx)
    sc.replay(ctx, "C19", fams, num=500 if not thorough else 6000, variants=2 if not thorough else 4)
