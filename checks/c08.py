"""C08 -- a delegation never outlives the lease its parent granted (ghost domains).

API tier: checks/c08_api.py (Lease.tla delegation half on the real authority.Cache and
the resolver's lease arithmetic).  The full-pipeline tier against scripted parent/child
authoritative servers is merged here when present (checks/c08_pipeline.py).
"""
import importlib

import c08_api


def run(ctx, replay):
    ctx.cov["rule"] = ("behaviours = TLC -simulate behaviours of Lease.tla (delegation half) replayed step by step on the "
                       "real authority.Cache + resolver lease helpers under two virtual-clock mechanisms; distinct = "
                       "distinct action sequences; every recorded run validated by Trace_Lease with the property "
                       "invariants evaluated on the observed deadlines")
    if replay and c08_api.run_replay(ctx, replay):
        return
    c08_api.run_api(ctx)
    try:
        pipe = importlib.import_module("c08_pipeline")
    except ImportError:
        pipe = None
    if pipe is not None:
        pipe.run_pipeline(ctx)
