"""C08 -- a delegation never outlives the lease its parent granted (ghost domains).

API tier: checks/c08_api.py (Lease.tla delegation half on the real authority.Cache and
the resolver's lease arithmetic).  Pipeline tier: checks/c08_pipe.py (LeasePipe.tla
scenarios played by scripted parent/child authoritative servers against the real
edns+cache+resolver pipeline; oracle = the referral log the scripted parent served; its
long-lease family runs referral TTLs of 6 h / 1 d / 2 d against the statement's 12 h ceiling
under a virtual clock, and logs -- without a verdict -- what the resolver's un-timed NS-host
address maps do when an out-of-zone name-server host moves).
Derived-entry tier: checks/x08al.py (AliasLease.tla: what an alias chase served from
cache re-publishes must end with the lease of the delegation it was learned through).
"""
import c08_api
import c08_pipe
import x08al


def run(ctx, replay):
    ctx.cov["rule"] = ("behaviours = TLC -simulate behaviours of Lease.tla (delegation half) replayed step by step on the "
                       "real authority.Cache + resolver lease helpers under two virtual-clock mechanisms; distinct = "
                       "distinct action sequences; every recorded run validated by Trace_Lease with the property "
                       "invariants evaluated on the observed deadlines")
    x08al.ONLY = "C08"
    if replay:
        if c08_api.run_replay(ctx, replay):
            return
        if x08al.run_replay(ctx, replay):
            return
        if c08_pipe.replay_pipe(ctx, replay):
            return
    c08_api.run_api(ctx)
    c08_pipe.run_pipe(ctx)
    x08al.run_tier(ctx)
