"""C03 -- a cached response only answers the exact question and audience it was stored for.

CacheKey.tla : decision structure of middleware/cache (which key each route computes, which
               preimage fields it re-verifies) under an ADVERSARIAL hash: TLC enumerates every
               function kdom -> 0..KMax for each family of colliding preimages, plus forged
               filings, refreshes, purges, failure entries and subtree cuts.
               Invariants ExactAudience / ExactAudienceServed / KeysInDom, action properties
               PurgeComplete / PurgeExact / RefreshInherits.
conformance  : simulated behaviours (with the model's verdict `obs` for every route x query)
               are replayed on the real edns+cache pipeline; model collisions are staged for
               real through the exported pre-keyed writers (and VerifC03 shims for the failure
               cache / cut wire index); every reply is judged by the property predicate from
               the provenance uid in its rdata; model/code differences that break no predicate
               are drift.
by-product   : Key / KeyString / KeyWire / KeyWithPrefix / KeyWireWithPrefix agreement on
               names whose label bytes are SAMPLED from 0..255 (not enumerated).

Environment knobs (all recorded in the evidence file when used):
  VERIF_C03_FAMILIES=plain,dotlabel,octets   restrict the name families of the replay (the
                     kelvin / rawhi families -- presentation text with raw bytes >= 0x80, as a
                     text front end such as the DoH JSON API or the purge API can hand in -- are
                     where the findings on the unchanged tree live)
  VERIF_C03_SIM=<n>  number of Sim_Quick behaviours
  VERIF_C03_SKIP_MC=1  skip the exhaustive TLC runs (mutation trials: they do not depend on the code)
"""
import glob
import json
import os
import re

import vf
import x03au   # sibling tier: audience / CD partition at bit level in forwarder mode (Ecs.tla), see checks/x03au.py

MOD = "CacheKey"


# --------------------------------------------------------------------------- parsing
def _val(text):
    return vf.unset(vf.parse_tla_value(text))


def _fn_items(v):
    """TLC prints a function with domain 1..n as a tuple, any other as (k :> v @@ ...),
    the empty function as <<>>."""
    if isinstance(v, list):
        return {str(i + 1): x for i, x in enumerate(v)}
    if isinstance(v, dict):
        return {str(k): x for k, x in v.items()}
    raise vf.MachineryError("unexpected TLC function value %r" % (v,))


WANTED = ("phase", "steps", "kdom", "kfun", "pos", "fail", "cuts", "chash", "last", "obs")


def parse_sim(path):
    """[(state dict restricted to WANTED)] of one `-simulate file=` trace."""
    with open(path) as f:
        text = f.read()
    out = []
    for m in re.finditer(r"STATE_\d+ ==\s*\n(.*?)(?=\n\n|\Z)", text, re.S):
        st = {}
        for part in re.split(r"(?:^|\n)/\\ ", "\n" + m.group(1).strip()):
            part = part.strip()
            if not part:
                continue
            mm = re.match(r"([A-Za-z_][A-Za-z0-9_]*)\s*=\s*", part)
            if not mm:
                raise vf.MachineryError("bad state conjunct in %s: %r" % (path, part[:60]))
            if mm.group(1) in WANTED:
                st[mm.group(1)] = _val(part[mm.end():])
        out.append(st)
    return out


def to_behaviour(name, states):
    if not states:
        return None
    s0 = states[0]
    kdom = s0["kdom"]
    kf = s0["kfun"]
    kfun = []
    if isinstance(kf, list):      # cannot happen (domain is a set of records)
        raise vf.MachineryError("kfun printed as a tuple")
    byrec = {k: v for k, v in kf.items()}
    for p in kdom:
        key = json.dumps(p, sort_keys=True)
        # vf keeps record keys as json.dumps(parsed, sort_keys=True) of the *parsed* value
        if key not in byrec:
            raise vf.MachineryError("kfun has no value for %s" % key)
        kfun.append(byrec[key])
    steps = []
    for i in range(2, len(states), 2):
        st = states[i]
        if st.get("phase") != "m" or states[i - 1].get("phase") != "o":
            raise vf.MachineryError("trace %s does not alternate mutate/observe at state %d" % (name, i))
        steps.append({
            "op": st["last"],
            "pos": _fn_items(st["pos"]),
            "fail": _fn_items(st["fail"]),
            "cuts": st["cuts"],
            "chash": _fn_items(st["chash"]),
            "obs": st["obs"],
        })
    if not steps:
        return None
    return {"name": name, "kdom": kdom, "kfun": kfun, "steps": steps}


def beh_signature(b):
    return json.dumps([b["kdom"], b["kfun"], [s["op"] for s in b["steps"]]], sort_keys=True)


# --------------------------------------------------------------------------- TLC pieces
def tables(ctx):
    r = ctx.tlc(MOD, "MC_Tables.tla", "MC_Tables.cfg", workers=1, timeout=300, heap="2g", tag="tables")
    i = r.out.find('<< "C03TABLES"')
    if i < 0:
        raise vf.MachineryError("MC_Tables did not print the universe tables")
    v = _val(r.out[i:])
    names = ["FoldOf", "NormOf", "ProbesOf", "OwnScope", "InScope", "SuffixesOf"]
    return dict(zip(names, v[1:]))


def simulate(ctx, cfg, num, depth, workers=4, timeout=900):
    d = ctx.spec_dir(MOD)
    pref = os.path.join(d, "sim_%s" % cfg.replace(".cfg", ""))
    r = ctx.tlc(MOD, "MC_CacheKey.tla", cfg, workers=workers, timeout=timeout, heap="4g",
                args=["-simulate", "file=%s,num=%d" % (pref, max(1, num // workers)), "-depth", str(depth),
                      "-seed", str(ctx.seed)],
                must_pass=False, tag="simulate", count=False)
    if r.rc != 0 or r.violated:
        raise vf.MachineryError("TLC simulate failed on %s rc=%d violated=%s\n%s" % (
            cfg, r.rc, r.violated, "\n".join(r.out.splitlines()[-30:])))
    behs, seen = [], set()
    for fn in sorted(glob.glob(pref + "_*")):
        b = to_behaviour(cfg.replace(".cfg", "") + ":" + os.path.basename(fn)[len(os.path.basename(pref)) + 1:], parse_sim(fn))
        os.remove(fn)
        if b is None:
            continue
        sig = beh_signature(b)
        if sig in seen:
            continue
        seen.add(sig)
        behs.append(b)
    return behs


REQUIRED_COUNTERS_QUICK = [
    "op_store", "op_forge", "op_refresh", "op_purge", "op_recfail", "op_forgefail", "op_reccut", "op_ask",
    "outcome_msg_pos", "outcome_wire_pos", "outcome_get_pos", "outcome_msg_fail", "outcome_wire_fail",
    "outcome_msg_cut", "outcome_wire_cut", "outcome_msg_miss", "outcome_wire_miss",
    "wire_served_fast", "wire_served_failure", "wire_served_cut", "probes_chase",
    "purge_collision_victims",
]
REQUIRED_COUNTERS_THOROUGH = REQUIRED_COUNTERS_QUICK + ["op_forgecut", "wire_served_chase", "outcome_chase_pos"]


def replay(ctx, tb, behs, tag, timeout=1500, extra=None):
    inp = {"tables": tb, "behaviours": behs}
    if os.environ.get("VERIF_C03_FAMILIES"):
        # restrict the name families (e.g. to show a clean run next to the known findings of the
        # raw-presentation-text families); recorded in the evidence file
        inp["families"] = [f for f in os.environ["VERIF_C03_FAMILIES"].split(",") if f]
        ctx.cov["replay"]["families_restricted_to"] = inp["families"]
    if extra:
        inp.update(extra)
    res = ctx.go_driver("./c03", "TestC03Replay", inp, name="replay_" + tag, timeout=timeout)
    ctx.take_driver_result(res, "[CacheKey %s] " % tag)
    c = res.get("counters", {})
    ctx.cov["replay"]["cachekey_" + tag] = {
        "behaviours": len(behs), "steps": c.get("steps", 0), "probe_evaluations": res["cases"],
        "drift": res["drift"], "drift_notes": res.get("drift_notes", []), "skipped": res.get("skipped", []),
        "counters": c}
    for b in behs:
        ctx._distinct.add("beh:" + vf.hashlib.sha256(beh_signature(b).encode()).hexdigest()[:16])
    if res.get("skipped"):
        raise vf.MachineryError("CacheKey replay skipped cases: %s" % res["skipped"][:4])
    if c.get("behaviours_abandoned_after_divergence", 0) > len(behs) // 4:
        raise vf.MachineryError("more than a quarter of the behaviours diverged from the model: %s" % res.get("drift_notes", [])[:3])
    return res


def key_parity(ctx, names):
    res = ctx.go_driver("./c03", "TestC03KeyParity", {"names": names}, name="keyparity", timeout=900)
    ctx.take_driver_result(res, "[key parity] ")
    c = res.get("counters", {})
    ctx.cov["replay"]["key_parity"] = {
        "note": "label bytes SAMPLED from 0..255 with VERIF_SEED (plus each octet value once in a one-octet label); not enumerated",
        "names": c.get("key_parity_names", 0), "comparisons": c.get("key_parity_comparisons", 0),
        "distinct_octets_in_random_names": c.get("distinct_octets_sampled_in_random_names", 0),
        "drift": res["drift"], "drift_notes": res.get("drift_notes", [])}
    if c.get("key_parity_names", 0) < names:
        raise vf.MachineryError("key parity driver evaluated too few names")


def run(ctx, replay_path):
    thorough = ctx.tier == "thorough"
    ctx.cov["rule"] = (
        "model: TLC exhausts CacheKey.tla for every family of colliding preimages x every key function "
        "kdom->0..KMax x all action sequences up to MaxSteps; conformance: simulated behaviours replayed on the "
        "real edns+cache pipeline, each step followed by probes of every route (message-born, wire-born, "
        "Store.GetWithContext, wire alias chase) for every query of the universe; distinct = distinct behaviours "
        "(adversarial domain, key function, action sequence)")
    ctx.assumptions += [
        "a 64-bit collision is staged by filing the same entry under the real hash of every preimage the model "
        "maps to one key (exported pre-keyed writers; VerifC03 overlay shims for the failure cache and the cut wire index)",
        "presentation text is compared with wire labels in its canonical form (what the library decoder prints); "
        "non-canonical spellings of a name (raw bytes >= 0x80, needless escapes) are keyed apart by Key vs KeyWire: "
        "counted as noncanonical_keyed_apart (a miss, never a wrong hit), not judged",
        "byte-level key agreement (Key/KeyWire/KeyWithPrefix/KeyWireWithPrefix) is sampled over label bytes 0..255, not enumerated",
        "purge: the entry of a DIFFERENT question sitting under the purged question's own key (collision victim) must "
        "survive the purge ('... purge - and even when two different questions collide on the 64-bit cache key, in which "
        "case the entry behaves as a miss'): judged directly on the store (LookupByKey under the real key before/after), "
        "digest purge-collision/*; CacheKey.tla's Purge is the verified removal (PurgeByKey = FALSE), the as-built removal "
        "by key is the negative twin MC_PurgeByKey.cfg; any other removal of a different question's entry is judged over-broad",
        "decoded alias chase asks its sub-question in class IN (dns.Msg.SetQuestion); class is judged strictly only on the wire chase",
    ]
    if replay_path:
        with open(replay_path) as f:
            rep = json.load(f)
        r = rep.get("replay", {})
        ctx.seed = int(rep.get("seed", ctx.seed))
        if r.get("driver") == "audience":      # a case recorded by the X03AU tier
            return x03au.replay_case(ctx, r)
        if "behaviour" not in r:
            raise vf.MachineryError("replay file carries no behaviour (key-parity cases replay through the seed)")
        tb = tables(ctx)
        replay(ctx, tb, [r["behaviour"]], "replay", extra={"onlyFamily": r.get("family", ""), "variant": r.get("variant"),
                                                                "indexOffset": r.get("behaviourIndex", 0)})
        return

    # ---- audience / CD partition with concrete prefixes of both families, policy defaults, the allow-list and a
    # real downstream (forwarder + scripted upstream): Ecs.tla, sibling tier X03AU (GAP seeded/C03-r3-1..3) ----------
    x03au.run_tier(ctx)
    tb = tables(ctx)
    # ---- model ------------------------------------------------------------
    skip_mc = bool(os.environ.get("VERIF_C03_SKIP_MC"))
    if skip_mc:
        # development / mutation trials only: the exhaustive runs check the model alone and do not
        # depend on the code under test
        ctx.log("exhaustive model runs SKIPPED (VERIF_C03_SKIP_MC)")
        ctx.assumptions.append("exhaustive TLC runs skipped in this run (VERIF_C03_SKIP_MC set)")
    else:
        ctx.tlc(MOD, "MC_CacheKey.tla", "MC_Quick.cfg", workers=6, timeout=900, heap="6g")
        # the replay configs' obs bookkeeping is faithful (obs = the served hits, each satisfying the property)
        ctx.tlc(MOD, "MC_CacheKey.tla", "MC_TinyObs.cfg", workers=4, timeout=600, heap="4g")
        # negative twin of PurgeExact: Store.Purge emptying the purged question's two shared slots BY KEY
        # (as built before hooks/fix-c03-purge-collision.patch) evicts a colliding entry of another question
        neg = ctx.tlc(MOD, "MC_CacheKey.tla", "MC_PurgeByKey.cfg", workers=4, timeout=600, heap="4g",
                      must_pass=False, tag="negative-twin", count=False)
        if "PurgeExact" not in (neg.violated or "") and "Action property PurgeExact is violated" not in neg.out:
            raise vf.MachineryError("negative twin MC_PurgeByKey.cfg did not violate PurgeExact (violated=%s)" % neg.violated)
    if thorough and not skip_mc:
        ctx.tlc(MOD, "MC_CacheKey.tla", "MC_Pairs4.cfg", workers=8, timeout=2400, heap="12g")
        ctx.tlc(MOD, "MC_CacheKey.tla", "MC_Triples.cfg", workers=8, timeout=2400, heap="12g")
        ctx.tlc(MOD, "MC_CacheKey.tla", "MC_Quads.cfg", workers=8, timeout=2400, heap="12g")
    # ---- conformance --------------------------------------------------------
    behs = simulate(ctx, "Sim_Quick.cfg", num=int(os.environ.get("VERIF_C03_SIM", 0)) or (260 if not thorough else 1200), depth=9)
    behs += simulate(ctx, "Sim_Purge.cfg", num=120 if not thorough else 600, depth=9)
    if thorough:
        behs += simulate(ctx, "Sim_Triples.cfg", num=900, depth=11, workers=6)
    if len(behs) < 50:
        raise vf.MachineryError("too few distinct behaviours simulated: %d" % len(behs))
    ctx.log("replaying %d distinct behaviours" % len(behs))
    res = replay(ctx, tb, behs, "sim")
    missing = [k for k in (REQUIRED_COUNTERS_THOROUGH if thorough else REQUIRED_COUNTERS_QUICK)
               if res.get("counters", {}).get(k, 0) == 0]
    if missing and not ctx.violations:
        raise vf.MachineryError("vacuous replay: never exercised %s" % missing)
    key_parity(ctx, 4000 if not thorough else 60000)
