"""C06 -- every reply respects what the client sent and negotiated (Serve.tla)."""
import os

import c04_api
import c19
import x06en
import x06fe
import x06rl
import x11fw
import serve_common as sc


def _forward_replay(ctx, replay, families):
    """a recorded violation of the Forward tier (driver forward-replay) is re-run by that tier's own replay entry"""
    import json
    with open(replay) as f:
        rec = json.load(f)
    if (rec.get("replay") or rec).get("driver") != "forward-replay":
        return False
    ctx.overlay_tags.add("x11fw")
    x11fw.replay_file(ctx, replay, families)
    return True


def run(ctx, replay):
    if replay and _forward_replay(ctx, replay, ("c06",)):
        return
    thorough = ctx.tier == "thorough"
    if replay:
        # a violation recorded by the Serve driver carries its history: re-run that history alone; anything else is
        # reproduced by re-running the recorded (tier, seed), which vf.main has already restored
        import json
        with open(replay) as f:
            if sc.replay_record(ctx, json.load(f), "C06"):
                return
    ctx.cov["rule"] = ("cases = (configuration, history of abstract packets, upstream content) behaviours of Serve.tla, "
                       "concretised to bytes (several byte-level variants per abstract packet) and served by the real "
                       "default chain through three entries; the reply contract is evaluated on the raw bytes of every reply")
    ctx.assumptions += ["byte-level packet universe is sampled per abstract class, not enumerated",
                        "DoH / DoH3 / DoQ framing is exercised by the FrontEnd tier (real listeners on loopback, scripted tail); DoT by C10"]
    sc.run_family_models(ctx, sc.FAMILIES, thorough)
    sc.regression_model(ctx)
    sc.replay(ctx, "C06", sc.FAMILIES, num=400 if not thorough else 5000, variants=2 if not thorough else 4)
    # what a RELAYED upstream message may carry in its additional section (two OPT records, the upstream's own cookie /
    # keepalive / padding / subnet echo in the first, the last or both) against what the client negotiated, through the
    # scripted tail and through the real forwarder; "foreign options never reflected" is judged on every OPT record
    sc.relay_family(ctx, "C06", thorough)
    # AD on replies COMPOSED from several cache entries (alias chases on the message, byte and wire-born paths):
    # Lease.tla histories on the real cache, judged by the AD clause only
    ctx.overlay_tags.add("c04")
    import os
    ov = os.path.join(ctx.scratch, "overlay.json")
    if os.path.exists(ov):
        os.remove(ov)
    c04_api.run_ad_focus(ctx, 500 if not thorough else 4000)
    # cookies and the client limiter as a state machine (RateLimit.tla): a server cookie only against the client's own
    # cookie, BADCOOKIE exactly where documented, nothing reflected; the module's own limiter properties (rl/*) are
    # judged by C05, here they are drift
    x06rl.C06_ONLY = True
    ctx.overlay_tags.add("x06rl")
    ov = os.path.join(ctx.scratch, "overlay.json")
    if os.path.exists(ov):
        os.remove(ov)
    x06rl.run_tier(ctx)
    # the AD clause on SYNTHESISED denials (RFC 8020 cut served from bytes or from the Msg body), EcsDenial.tla
    ctx.overlay_tags.add("c19")
    ov = os.path.join(ctx.scratch, "overlay.json")
    if os.path.exists(ov):
        os.remove(ov)
    c19.denial_family(ctx, thorough, focus="c06")
    # the DoH / DoH3 / DoQ listeners themselves (FrontEnd.tla): ID 0 over DoQ, no truncation on streams, keepalive,
    # DNSSEC records only when asked, the JSON API; the module's exclusive-ownership classes (c10/*) and its
    # HTTP-level ones (fe/*) are drift here
    x06fe.ONLY = ("c06/",)
    x06fe.run_tier(ctx)
    # the same Serve.tla histories through the REAL UDP and TCP listeners, consecutive packets on ONE transport slab
    # (ServeEngine.tla): what a previous query left in the job-owned edns writer slot, in the TX region a TCP rejection is
    # stamped into, in the stored bytes of a cache entry; the tier's C05 class (engine entry == decoded entry) is drift here
    x06en.ONLY = "C06"
    x06en.run_tier(ctx)
    # the reply contract on every TERMINAL OUTCOME of the forwarder / failover state machine (Forward.tla, the `id`
    # dimension: ReplyEchoesClientId): a relayed answer of either pool, the retained upstream failure of either walk
    # (a fallback's was asked under a transaction ID of the server's own), the synthesised / request-local / over-budget
    # SERVFAILs - ID, question and OPT echo, nothing of an upstream's AD / options reflected
    ctx.overlay_tags.add("x11fw")
    ov = os.path.join(ctx.scratch, "overlay.json")
    if os.path.exists(ov):
        os.remove(ov)
    x11fw.run_echo(ctx)
