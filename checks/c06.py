"""C06 -- every reply respects what the client sent and negotiated (Serve.tla)."""
import serve_common as sc


def run(ctx, replay):
    thorough = ctx.tier == "thorough"
    ctx.cov["rule"] = ("cases = (configuration, history of abstract packets, upstream content) behaviours of Serve.tla, "
                       "concretised to bytes (several byte-level variants per abstract packet) and served by the real "
                       "default chain through three entries; the reply contract is evaluated on the raw bytes of every reply")
    ctx.assumptions += ["byte-level packet universe is sampled per abstract class, not enumerated",
                        "DoH/DoQ/DoT framing is not exercised; their shared entry Server.ServeMsg is"]
    sc.run_family_models(ctx, sc.FAMILIES, thorough)
    sc.regression_model(ctx)
    sc.replay(ctx, "C06", sc.FAMILIES, num=400 if not thorough else 5000, variants=2 if not thorough else 4)
