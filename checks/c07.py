"""C07 -- authoritative data is trusted only inside the sender's bailiwick.

Bailiwick.tla : zone tree (test. -> bank.test. honest victim, attacker.test. = Z adversarial,
                children of Z) and the resolver's descent as actions; the adversary's move per
                exchange is an action parameter.  TLC checks Containment on the all-filters-on
                model (MC_sound_*), shows each clause can fail when its filter is off
                (MC_regress_*: non-vacuity), records what the transcription of the pinned code
                predicts (MC_asis_relay), and enumerates every attack script with the model's
                predicted replies (Emit_1: single-move, Emit_2: two-move).
                A move may also carry race = TRUE (action ConcurrentCold: another client's cold
                query below Z caches Z's delegation while the attack query waits for test.'s
                referral) and the namespace may be Deep (Z = attacker.co.test., two labels below
                test.): resolveState.level, from which checkGlueRR derives the glue bailiwick, is
                modelled; MC_regress_nocachedlevel is the negative twin (level++ on the cached
                path), Emit_deep / Emit_race the scripts.
harness/c07   : each script is played by scripted authoritative servers (authkit hooks on Z's
                server, a trap server and a canary on the addresses that must never be used)
                against the REAL full pipeline, unsigned and signed+CD=1, with and without
                QNAME minimisation, each followed by the same question from another client and
                by the victim queries.  Verdict = predicates on the real replies / dial log only.
"""
import json
import os
import random

import vf
import x07dc

REGRESS = [  # cfg -> clause that must fail with that filter off
    ("MC_regress_noid.cfg", "ReplyMatches"),
    ("MC_regress_nostreamid.cfg", "ReplyMatches"),
    ("MC_regress_noquestion.cfg", "NoForeignCached"),
    ("MC_regress_noquestion_sound.cfg", "VictimTruth"),
    ("MC_regress_noglueb.cfg", "GlueSound"),
    ("MC_regress_nogluer.cfg", "GlueSound"),
    ("MC_regress_nocoherent.cfg", "ReferralSound"),
    ("MC_regress_noclass.cfg", "ReferralSound"),
    ("MC_regress_noprogress.cfg", "NoForeignUsed"),
    ("MC_regress_nocachef.cfg", "NoRelayOnHit"),
    # resolveWithCachedNameservers counting one label where the referral descended two (Deep namespace, race move)
    ("MC_regress_nocachedlevel.cfg", "GlueSound"),
]
# the same switch off where it must NOT matter: every referral descends one label / nobody got to the cache first
LEVEL_HOLDS = ["MC_sound_deep.cfg", "MC_nocachedlevel_shallow.cfg", "MC_nocachedlevel_norace.cfg"]
BATCH = 300  # scripts per driver process: every resolver built leaves ~2 MB behind (its 12 h ticker goroutine)


def emit(ctx, cfg, expect, workers=4, timeout=900, count=True):
    r = ctx.tlc("Bailiwick", "MC_Bailiwick.tla", cfg, workers=workers, timeout=timeout, heap="6g", tag="emit", count=count)
    scripts = [c for c in r.printed() if isinstance(c, dict) and "script" in c and "replies" in c]
    uniq = {}
    for s in scripts:
        if not any(m.get("race") for m in s["script"]):
            for m in s["script"]:
                m.pop("race", None)   # race-free scripts keep the shape (and the digests) they had before the field existed
        uniq[json.dumps(s["script"], sort_keys=True)] = s
    scripts = [uniq[k] for k in sorted(uniq)]
    if len(scripts) != expect:
        raise vf.MachineryError("%s emitted %d scripts, expected %d" % (cfg, len(scripts), expect))
    return scripts


def models(ctx, thorough):
    ctx.tlc("Bailiwick", "MC_Bailiwick.tla", "MC_sound_1.cfg", workers=4, timeout=600, heap="4g", tag="sound")
    for cfg in LEVEL_HOLDS + (["MC_sound_race.cfg"] if thorough else []):
        ctx.tlc("Bailiwick", "MC_Bailiwick.tla", cfg, workers=2, timeout=600, heap="4g", tag="sound-level")
    if thorough:
        ctx.tlc("Bailiwick", "MC_Bailiwick.tla", "MC_sound_2.cfg", workers=8, timeout=1500, heap="6g", tag="sound")
    for cfg, clause in REGRESS:
        r = ctx.tlc("Bailiwick", "MC_Bailiwick.tla", cfg, workers=2, timeout=600, heap="4g", must_pass=False,
                    count=False, tag="regression-must-fail")
        if r.violated != clause:
            raise vf.MachineryError("%s: expected %s to fail with the filter off, TLC says violated=%s rc=%d "
                                    "(vacuous model?)" % (cfg, clause, r.violated, r.rc))
    # the transcription of the pinned code (no owner filter on the answer section)
    r = ctx.tlc("Bailiwick", "MC_Bailiwick.tla", "MC_asis_relay.cfg", workers=2, timeout=600, heap="4g",
                must_pass=False, count=False, tag="as-is-transcription")
    if r.violated not in (None, "NoForeignRelayed"):
        raise vf.MachineryError("MC_asis_relay: unexpected TLC outcome %s" % r.violated)
    ctx.cov["replay"]["model_asis_predicts_relay"] = (r.violated == "NoForeignRelayed")
    if r.violated:
        ctx.log("model: the as-is transcription (Resolver.answer / additionalAnswer do not filter the answer "
                "section by owner) violates NoForeignRelayed -- a model counterexample is not a verdict; the "
                "replay on the real pipeline decides")


def replay_scripts(ctx, name, scripts, variants, min_levels, workers=6, verbose=False):
    tot = {"cases": 0, "drift": 0, "counters": {}, "drift_notes": [], "batches": 0}
    rnd = random.Random(ctx.seed)
    scripts = list(scripts)
    rnd.shuffle(scripts)
    for b in range(0, len(scripts), BATCH):
        chunk = scripts[b:b + BATCH]
        inp = {"scripts": chunk, "variants": variants, "minLevel": min_levels, "workers": workers, "verbose": verbose}
        res = ctx.go_driver("./c07", "TestBailiwickReplay", inp, name="%s_%d" % (name, b // BATCH), timeout=1500)
        # one violation per digest key and run: the first (simplest: single-move batches run first) is kept
        seen = ctx.__dict__.setdefault("_c07_seen", set())
        fresh = [v for v in res.get("violations", []) if v.get("key") not in seen]
        seen.update(v.get("key") for v in fresh)
        res["violations"] = fresh
        ctx.take_driver_result(res, "[Bailiwick %s] " % name)
        if res.get("skipped"):
            raise vf.MachineryError("bailiwick replay %s: %s" % (name, res["skipped"][:3]))
        want = len(chunk) * len(variants) * len(min_levels)
        nolocal = res.get("counters", {}).get("skipped_no_local_interface", 0)
        if res["cases"] + nolocal != want:
            raise vf.MachineryError("bailiwick replay %s ran %d of %d cases" % (name, res["cases"], want))
        tot["cases"] += res["cases"]
        tot["drift"] += res["drift"]
        tot["batches"] += 1
        for k, v in res.get("counters", {}).items():
            tot["counters"][k] = tot["counters"].get(k, 0) + v
        tot["drift_notes"] = (tot["drift_notes"] + res.get("drift_notes", []))[:8]
    ctx.cov["replay"][name] = tot
    if tot["counters"].get("conforms_to_sound_model", 0):
        ctx.log("note: %d replies in %s follow the all-filters-on model rather than the as-is transcription "
                "(the tree has the filter the transcription lacks)" % (tot["counters"]["conforms_to_sound_model"], name))
    for n in tot["drift_notes"][:4]:
        ctx.log("DRIFT: " + n)
    return tot


def vacuity(tot, name, need):
    c = tot["counters"]
    for k in need:
        if c.get(k, 0) == 0:
            raise vf.MachineryError("bailiwick replay %s is vacuous: counter %s is 0 (%s)" % (name, k, c))
    if c.get("moves_played", 0) < tot["cases"]:
        raise vf.MachineryError("bailiwick replay %s: Z's server played fewer moves than scripts (%s)" % (name, c))


NEED_SINGLE = ["victim_truth", "alias_target_asked_at_owner_attack_cname_bare", "wrongq_rejected_and_retried",
               "tcp_wrong_id_rejected"]


def run(ctx, replay):
    thorough = ctx.tier == "thorough"
    ctx.cov["rule"] = ("cases = attack scripts enumerated by TLC from Bailiwick.tla (every sequence of adversary moves "
                       "pre-datagram x content x referral x glue, 1 move quick / 2 moves thorough), each replayed on the "
                       "real cache+resolver pipeline against scripted authoritative servers, unsigned and signed+CD=1, "
                       "followed by a repeat of the question and the victim queries; distinct = (variant, script)")
    ctx.assumptions += [
        "D1 root and test. are honest; D2 sub-resolutions ending in an honest zone are atomic in the model; "
        "D3 NS-address lookups below Z are not expanded; D4 validation is off or the client sets CD; D5 raced servers: adversary wins",
        "names inside Z's subtree (attacker.test.) are the adversary's to lie about: only records owned outside it are judged",
        "a SERVFAIL on a victim query is fail-closed behaviour (drift), not a containment violation",
        "the dial log is taken at Resolver.resolveTarget (consulted before every dial); forbidden addresses are remapped to a canary",
    ]
    if replay:
        with open(replay) as f:
            rp = json.load(f)["replay"]
        if rp.get("driver") == "deleg":
            return x07dc.replay_file(ctx, replay)
        sc = {"script": rp["script"], "replies": [], "victims": [], "dialled": [], "bankLog": [], "broken": [],
              "deep": bool(rp.get("deep"))}
        res = ctx.go_driver("./c07", "TestBailiwickReplay",
                            {"scripts": [sc], "variants": [rp["variant"]], "minLevel": [rp.get("qname_min_level", 0)],
                             "workers": 1, "verbose": True}, name="replay")
        res["drift"] = 0  # no model prediction was supplied
        ctx.take_driver_result(res, "[Bailiwick replay] ")
        ctx.cov["states"] = ctx.cov["transitions"] = 1
        return

    if os.environ.get("VERIF_C07_ONLY") == "level":
        # development aid (mutation trials of the level element on a loaded machine); the suite never sets it
        for cfg in LEVEL_HOLDS:
            ctx.tlc("Bailiwick", "MC_Bailiwick.tla", cfg, workers=2, timeout=600, heap="4g", tag="sound-level")
        r = ctx.tlc("Bailiwick", "MC_Bailiwick.tla", "MC_regress_nocachedlevel.cfg", workers=2, timeout=600, heap="4g",
                    must_pass=False, count=False, tag="regression-must-fail")
        if r.violated != "GlueSound":
            raise vf.MachineryError("MC_regress_nocachedlevel: expected GlueSound to fail, TLC says %s" % r.violated)
        level_tier(ctx, ["unsigned", "signedcd"])
        observations(ctx)
        return

    # X07DC: the provisional server set in the delegation cache while a delegation is still being assembled
    x07dc.run_tier(ctx)
    models(ctx, thorough)
    single = emit(ctx, "Emit_1.cfg", 133)
    double = emit(ctx, "Emit_2.cfg", 133 * 133, workers=8)
    # the same scripts under the all-filters-on model: a tree that has gained the owner filter conforms
    # to these predictions instead, which is not drift
    for scripts, cfg in ((single, "EmitSound_1.cfg"), (double, "EmitSound_2.cfg")):
        alt = {json.dumps(s["script"], sort_keys=True): s
               for s in emit(ctx, cfg, len(scripts), workers=8, count=False)}
        for s in scripts:
            a = alt[json.dumps(s["script"], sort_keys=True)]
            s["altReplies"], s["altVictims"] = a["replies"], a["victims"]
    variants = ["unsigned", "signedcd"]
    predicted = sorted({m["kind"] for s in single if "NoForeignRelayed" in s["broken"] for m in s["script"]})
    ctx.cov["replay"]["model_asis_relay_kinds"] = predicted

    t1 = replay_scripts(ctx, "single", single, variants, [0, 5])
    vacuity(t1, "single", NEED_SINGLE)
    rnd = random.Random(ctx.seed * 7919 + 1)
    if not thorough:
        t2 = replay_scripts(ctx, "double_sample", rnd.sample(double, 150), variants, [5])
        vacuity(t2, "double_sample", ["victim_truth"])
    else:
        t2 = replay_scripts(ctx, "double_all", double, variants, [0], workers=8)
        vacuity(t2, "double_all", NEED_SINGLE)
        t3 = replay_scripts(ctx, "double_min5_sample", rnd.sample(double, 1500), variants, [5], workers=8)
        vacuity(t3, "double_min5_sample", ["victim_truth"])
    level_tier(ctx, variants)
    observations(ctx)
    ctx.sample({"note": "model prediction for the first single-move script", "case": single[0]})


def level_tier(ctx, variants):
    """resolveState.level on the cached-delegation path: scripts with a race move, in the deep and the shallow namespace.

    Emit_deep: Deep = TRUE, race in {FALSE, TRUE} (38 scripts); Emit_race: Deep = FALSE, race = TRUE (19).  Predictions come
    from the transcription of the pinned code (level++) with the all-filters-on model as the alternative a repaired
    tree conforms to.  Every script runs with qname minimisation off (the model's D6) and on (level 5: the code
    then walks label by label and the increment is exact)."""
    scripts = []
    for cfg, alt_cfg, n in (("Emit_deep.cfg", "EmitSound_deep.cfg", 38), ("Emit_race.cfg", "EmitSound_race.cfg", 19)):
        got = emit(ctx, cfg, n)
        alt = {json.dumps(s["script"], sort_keys=True): s for s in emit(ctx, alt_cfg, n, count=False)}
        for s in got:
            a = alt[json.dumps(s["script"], sort_keys=True)]
            s["altReplies"], s["altVictims"], s["altDialled"] = a["replies"], a["victims"], a["dialled"]
        scripts += got
    predicted = sorted({kinds(s) for s in scripts if "GlueSound" in s["broken"]})
    ctx.cov["replay"]["model_levelpp_breaks_glue_for"] = predicted
    if not predicted:
        raise vf.MachineryError("Emit_deep: the level++ transcription breaks GlueSound for no script (vacuous model?)")
    t = replay_scripts(ctx, "level", scripts, variants, [0, 5])
    vacuity(t, "level", ["victim_truth"])
    c = t["counters"]
    # every race move's attack query reaches test. (Z is not cached yet): the concurrent client must have been started,
    # and with minimisation off it must have been answered before the referral was released (that IS the history)
    if (c.get("race_cases", 0) == 0 or c.get("race_started", 0) != c["race_cases"]
            or c.get("race_answered_before_referral_released", 0) < c.get("race_cases_nomin", 0)):
        raise vf.MachineryError("level replay: the concurrent client was not driven as the model says: %s" % c)


def observations(ctx):
    """Behaviours next to C07 that do not make a predicate of the statement false as worded (see harness/c07/observe_test.go):
    logged, never a verdict."""
    res = ctx.go_driver("./c07", "TestObserve", {}, name="observe", timeout=300)
    c = res.get("counters", {})
    obs = {
        "dname_nodata_relay": "Resolver.answer returns before clearAdditional when a DNAME target is NODATA/empty: authority and "
                              "additional records owned outside Z, as Z's server sent them, reach the client%s (not in the answer "
                              "section, not cached under their own names, no other question answered from them)"
                              % (" and are served again from the cache" if c.get("dname_nodata_relay_from_cache") else ""),
        "priming_loopback": "Resolver.checkPriming installs root server addresses from the additional section of the priming reply "
                            "without usableAddr: a priming reply naming 127.0.0.1 sends the clients' queries to loopback "
                            "(not a referral's glue; the root's servers are the trust root, D1)",
    }
    ctx.cov["replay"]["observations"] = {k: bool(c.get(k)) for k in obs}
    for k, text in obs.items():
        if k == "priming_loopback":
            continue
        ctx.log("OBSERVATION %s: %s -- %s" % (k, "present" if c.get(k) else "absent", text))
    # the address clause ("glue addresses are used ... never loopback or local-interface addresses") does bear on the
    # addresses of the ROOT's nameservers learned from the priming reply's additional section: they are glue like any other
    if c.get("priming_loopback"):
        ctx.violation("priming/loopback-address-used",
                      "[Bailiwick priming] a priming reply naming 127.0.0.1 as a root server's address was installed: the "
                      "resolver sent a client's query to loopback (Resolver.checkPriming takes the additional section's "
                      "addresses without the usableAddr filter every referral's glue goes through)",
                      {"driver": "observe", "case": "priming_loopback"})
    if res.get("skipped"):
        ctx.log("observations skipped: %s" % res["skipped"][:2])


def kinds(s):
    return "+".join(m["kind"] + ("/" + m["glue"] if m["glue"] != "na" else "") + ("@race" if m.get("race") else "")
                    + ("@deep" if s.get("deep") else "") for m in s["script"])
