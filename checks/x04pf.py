"""X04PF -- prefetch queue and background refresh of the cache middleware (serves C04).

Prefetch.tla   middleware/cache: the prefetch decision and claim in handleCacheHit, PrefetchQueue
               (Add / worker / processPrefetch / Stop), Store.ReplaceIfCurrent.
  - TLC exhaustive, one action per atomic step of the code: concurrent hits electing one claimant,
    queue full -> drop + release, client-path writes / purges / misses racing a refresh in flight,
    Stop racing everything; sequential configs with a clock for the lifetimes (threshold, leases,
    ECS cap); liveness under fairness (every claim is released, Stop returns); four negative
    configs (a guard switched off must break its invariant).
  - spec->code: sequential call orders chosen by TLC (-simulate, Atomic/Eager) replayed on the real
    cache.Cache with a small prefetch queue; every refresh is parked inside the scripted prefetch
    Queryer and every client miss inside the scripted downstream handler until the driver releases
    it, so hit / claim / enqueue / worker / client-path write / completion interleave as TLC chose.
  - code->spec: free-running concurrent hits + writer + workers; the recorded history (one
    harness-side sequence number per invocation / response / Queryer entry / exit) is validated
    by TLC against Trace_Prefetch.tla; the predicates are evaluated on it directly by the driver.
Verdicts: only C04's own predicates (ServedLive, TTLShown, TTLMonotone, LateWriteLoses) on the real
code are VIOLATIONs.  The module's protocol properties (single flight, claim release, eligibility,
Stop drains) are reported as breaches (exit 0) unless VERIF_X04PF_STRICT=1.
"""
import json
import os

import vf

MOD = "Prefetch"
SPEC = "Prefetch.tla"
HIT_STEPS = {"HitShould", "HitCas", "HitAdd", "HitSend1", "HitSend2", "HitRelease", "HitServe"}
STOP_STEPS = {"StopCancel", "StopReturn", "WAbort", "WCas", "WRelease", "WExit", "WTake"}


def label_parts(lab):
    lab = lab.strip()
    if "(" not in lab:
        return lab, []
    name, rest = lab.split("(", 1)
    return name, [a.strip().strip('"') for a in rest.rstrip(")").split(",")]


def fn(v, key, default=None):
    if isinstance(v, list):
        i = int(key) - 1
        return v[i] if 0 <= i < len(v) else default
    return v.get(key, v.get(str(key), default))


def items(v):
    if isinstance(v, list):
        return list(enumerate(v, 1))
    return [(int(k) if str(k).isdigit() else k, x) for k, x in v.items()]


def projection(st, client=None):
    wk = [w for _, w in items(st["wk"])]
    idle = any(w["st"] == "idle" for w in wk)
    q = st["queue"]
    p = {"cur": {k: v for k, v in st["cur"].items() if v},
         "flag": [i for i, f in items(st["flag"]) if f],
         "qlen": -1 if (idle and len(q) > 0) else len(q),
         "inflight": sorted(w["e"] for w in wk if w["st"] in ("query", "resp", "rel")),
         "stopRet": st["stopRet"],
         "residue": [r["e"] for r in q]}
    if client is not None:
        rp = fn(st["reply"], client)
        p["reply"] = {"e": rp["e"], "shown": rp["shown"]}
    return p


def behaviour_ops(beh):
    """A sequential (Atomic, Eager) Prefetch behaviour -> the calls of the driver with the model's post-state."""
    ops = []
    i, n = 1, len(beh)
    while i < n:
        lab, post = beh[i]
        name, a = label_parts(lab)
        if name in ("MissFinishN", "DirectWriteN", "WRespN"):
            name = name[:-1]
        if name == "Hit":
            c = int(a[0])
            j, path = i, []
            while fn(beh[j][1]["cl"], c)["pc"] != "idle":
                j += 1
                if j >= n:
                    return ops  # the behaviour was cut inside the call
                nm, aa = label_parts(beh[j][0])
                if nm not in HIT_STEPS or int(aa[0]) != c:
                    raise vf.MachineryError("prefetch behaviour is not sequential at %s" % beh[j][0])
                path.append(nm)
            ops.append({"op": "hit", "c": c, "k": a[1], "route": a[2], "path": path, "exp": projection(beh[j][1], c), "label": lab})
            i = j + 1
            continue
        if name == "Miss":
            ops.append({"op": "miss", "c": int(a[0]), "k": a[1], "exp": projection(post), "label": lab})
        elif name == "MissFinish":
            ops.append({"op": "missfin", "c": int(a[0]), "n": int(a[1]), "t": int(a[2]), "l": int(a[3]), "exp": projection(post), "label": lab})
        elif name == "DirectWrite":
            ops.append({"op": "write", "k": a[0], "n": int(a[1]), "t": int(a[2]), "l": int(a[3]), "exp": projection(post), "label": lab})
        elif name == "Purge":
            ops.append({"op": "purge", "k": a[0], "exp": projection(post), "label": lab})
        elif name == "Tick":
            ops.append({"op": "tick", "d": int(a[0]), "exp": projection(post), "label": lab})
        elif name == "WTake":
            ops.append({"op": "take", "w": int(a[0]), "exp": projection(post), "label": lab})
        elif name == "WResp":
            w = int(a[0])
            if i + 2 >= n:
                return ops
            n1, a1 = label_parts(beh[i + 1][0])
            n2, a2 = label_parts(beh[i + 2][0])
            if (n1, n2) != ("WCas", "WRelease") or int(a1[0]) != w or int(a2[0]) != w:
                raise vf.MachineryError("prefetch behaviour: WResp not followed by WCas, WRelease at %s" % lab)
            ops.append({"op": "done", "w": w, "kind": a[1], "n": int(a[2]), "t": int(a[3]), "l": int(a[4]),
                        "exp": projection(beh[i + 2][1]), "label": lab})
            i += 3
            continue
        elif name == "StopMark":
            j = i
            while not beh[j][1]["stopRet"]:
                j += 1
                if j >= n:
                    return ops
                nm, _ = label_parts(beh[j][0])
                if nm not in STOP_STEPS:
                    raise vf.MachineryError("prefetch behaviour: %s inside Stop" % beh[j][0])
            ops.append({"op": "stop", "exp": projection(beh[j][1]), "label": "Stop"})
            i = j + 1
            continue
        else:
            raise vf.MachineryError("prefetch behaviour: unexpected step %s outside a call" % lab)
        i += 1
    return ops


SIMS = {
    "ReplayStop": dict(workers=2, qcap=1, thr=50),
    "Replay": dict(workers=2, qcap=1, thr=50),
    "Replay1W": dict(workers=1, qcap=1, thr=50),
    "ReplayBig": dict(workers=2, qcap=2, thr=50),
    "ReplayFull": dict(workers=1, qcap=1, thr=90),
    "ReplayFull2W": dict(workers=2, qcap=1, thr=90),
}
NEED = {
    "ReplayStop": ["hit:enq", "hit:drop-stopped", "stop", "take"],
    "ReplayFull": ["hit:enq", "hit:drop-full", "take", "done:pos", "write"],
    "ReplayFull2W": ["hit:enq", "hit:drop-full", "take", "done:pos", "write"],
}


def replay(ctx, thorough):
    plan = [("Replay", 70, 45), ("ReplayFull", 40, 40), ("ReplayStop", 30, 45)]
    if thorough:
        plan = [("Replay1W", 500, 60), ("Replay", 700, 60), ("ReplayBig", 300, 70), ("ReplayStop", 300, 60), ("ReplayFull", 300, 50),
                ("ReplayFull2W", 300, 60)]
    groups, infos = [], {}
    for name, num, depth in plan:
        behs = ctx.tlc_behaviours(MOD, SPEC, "Sim_%s.cfg" % name, num=num, depth=depth, timeout=600)
        uniq, kinds = {}, {}
        for b in behs:
            ops = behaviour_ops(b)
            if len(ops) < 3:
                continue
            key = ";".join(o["label"] for o in ops)
            if key in uniq:
                continue
            uniq[key] = {"id": "%s-%d" % (name, len(uniq)), "steps": ops}
            for o in ops:
                k = o["op"]
                if k == "hit":
                    k += ":" + (("drop-full" if "HitSend2" in o["path"] else "drop-stopped") if "HitRelease" in o["path"]
                                else "enq" if "HitSend2" in o["path"] else "serve")
                    if o["k"] == "s":
                        k = "hit:scoped"
                elif k == "done":
                    k += ":" + o["kind"]
                kinds[k] = kinds.get(k, 0) + 1
        if len(uniq) < 10:
            raise vf.MachineryError("prefetch replay %s: only %d distinct call orders (vacuous)" % (name, len(uniq)))
        need = ["hit:enq", "hit:serve", "take", "done:pos", "write", "tick"]
        if thorough:
            need += ["done:neg", "done:err", "miss", "missfin", "purge", "hit:scoped"]
        need = NEED.get(name, need)
        miss = [k for k in need if not kinds.get(k)]
        if miss:
            raise vf.MachineryError("prefetch replay %s: no call of kind %s among the behaviours (vacuous)" % (name, miss))
        groups.append(dict(SIMS[name], name=name, ecsCap=6, scoped=["s"], negKeys=["b"], cdKeys=["c"],
                           behaviours=list(uniq.values())))
        infos[name] = {"tlc_behaviours": len(behs), "distinct_call_orders": len(uniq), "calls_by_kind": kinds}
    res = ctx.go_driver("./x04pf", "TestPrefetchReplay", {"groups": groups}, name="pf_replay", timeout=1500)
    ctx.take_driver_result(res, "[prefetch replay] ")
    cnt = res.get("counters", {})
    breaches = {k[7:]: v for k, v in cnt.items() if k.startswith("breach_")}
    for k, v in breaches.items():
        ctx.log("BREACH of module property %s on the real code (%d); C04's statement does not bear it: exit code unaffected" % (k, v))
    info = {"groups": infos, "steps": cnt.get("steps", 0), "drift": res.get("drift", 0),
            "drift_notes": res.get("drift_notes", []), "slow_behaviours": cnt.get("slow_behaviours", 0),
            "audits": cnt.get("audits", 0), "late_refreshes": cnt.get("late_refreshes", 0),
            "admission_compared": cnt.get("admission_compared", 0),
            "admission_longer_than_client_path": cnt.get("admission_longer_than_client_path", 0),
            "stored_lifetime_excess_refresh": cnt.get("stored_lifetime_excess_refresh", 0),
            "refresh_from_ecs_client": cnt.get("refresh_from_ecs_client", 0), "refresh_cd": cnt.get("refresh_cd", 0),
            "stop_select_choice_differs": cnt.get("stop_select_choice_differs", 0), "module_property_breaches": breaches}
    ctx.cov["replay"]["prefetch_replay"] = info
    if res.get("skipped"):
        raise vf.MachineryError("prefetch replay skipped: %s" % res["skipped"][:3])
    if res.get("violations"):
        return
    total = 0
    for name, gi in infos.items():
        gi["replayed"] = cnt.get("behaviours_" + name, 0)
        total += gi["distinct_call_orders"]
        if gi["replayed"] != gi["distinct_call_orders"]:
            raise vf.MachineryError("prefetch replay %s ran %d of %d call orders" % (name, gi["replayed"], gi["distinct_call_orders"]))
    if res.get("drift", 0) > max(3, total // 5) and not breaches:
        raise vf.MachineryError("prefetch replay: %d of %d call orders drifted from the model (binding lost): %s" % (
            res["drift"], total, res.get("drift_notes", [])[:3]))
    if info["audits"] == 0 or info["admission_compared"] == 0 or info["late_refreshes"] == 0:
        raise vf.MachineryError("prefetch replay: no refreshed entry was stored and audited / no refresh completed after "
                                "newer data was stored (vacuous): %s" % {k: info[k] for k in ("audits", "admission_compared", "late_refreshes")})


def stress(ctx, thorough):
    rounds = 4 if not thorough else 40
    trace = os.path.join(ctx.scratch, "prefetch_stress.ndjson")
    runs = [dict(name="T", rounds=rounds, clients=2, hits=5, writes=3, workers=2, qcap=1, traceOut=trace),
            dict(name="Big", rounds=max(4, rounds // 2), clients=8, hits=60, writes=40, workers=2, qcap=1, traceOut="")]
    res = ctx.go_driver("./x04pf", "TestPrefetchStress", {"runs": runs}, name="pf_stress", timeout=1500)
    ctx.take_driver_result(res, "[prefetch stress] ")
    cnt = res.get("counters", {})
    if res.get("skipped"):
        raise vf.MachineryError("prefetch stress could not run: %s" % res["skipped"][:3])
    info = {k: v for k, v in cnt.items()}
    info["drift_notes"] = res.get("drift_notes", [])
    ctx.cov["replay"]["prefetch_stress"] = info
    for k, v in cnt.items():
        if k.startswith("breach_"):
            ctx.log("BREACH of module property %s in the concurrent runs (%d); C04's statement does not bear it: exit code unaffected" % (k[7:], v))
    if res.get("violations"):
        return
    if cnt.get("rounds_T", 0) != rounds or cnt.get("rounds_Big", 0) == 0:
        raise vf.MachineryError("prefetch stress ran %d of %d rounds" % (cnt.get("rounds_T", 0), rounds))
    if cnt.get("refreshes_T", 0) + cnt.get("refreshes_Big", 0) < 5 or cnt.get("overlapping_hits_Big", 0) < 5:
        raise vf.MachineryError("prefetch stress: no refreshes / no overlapping hits in the recorded histories (vacuous)")
    # code -> spec
    nlines = sum(1 for _ in open(trace))
    ok, r = ctx.tlc_trace(MOD, "Trace_Prefetch.tla", "Trace_Stress.cfg", trace, timeout=900, deque=False)
    info["trace_lines"] = nlines
    if ok:
        ctx.cov["traces_validated_against_impl"] += cnt.get("traces_T", 0)
        info["trace_states"] = r.distinct
    elif r.violated and r.violated != "TraceAccepted":
        ctx.violation("prefetch/trace/" + r.violated,
                      "[prefetch stress] invariant %s is false on a recorded concurrent history of the prefetch queue" % r.violated,
                      {"trace": open(trace).read().splitlines()[:400]})
        return
    else:
        # not explained by the model and no invariant failed: drift.  The binding itself is shown alive when at least
        # the first recorded round was consumed completely (the high-water mark passed the second Reset line).
        import re
        m = re.search(r'"high water", (\d+), (\d+)', r.out)
        hw = int(m.group(1)) if m else 0
        resets = [i + 1 for i, x in enumerate(open(trace)) if '"Reset"' in x]
        info["trace_high_water"] = hw
        info["trace_rejected_tail"] = r.out.splitlines()[-6:]
        breaches = dict(ctx.cov["replay"].get("prefetch_replay", {}).get("module_property_breaches", {}))
        breaches.update({k[7:]: v for k, v in cnt.items() if k.startswith("breach_")})
        if (len(resets) < 2 or hw <= resets[1]) and not breaches:
            raise vf.MachineryError("the recorded prefetch history was not accepted by Trace_Prefetch, not even its first round "
                                    "(high water %d): binding lost" % hw)
        ctx.cov["drift"] += 1
        ctx.log("DRIFT: the recorded prefetch history is not explained by Prefetch.tla from line %d on; no property predicate failed" % hw)
    # binding: a corrupted history must be rejected (re-checked in the thorough tier)
    if ok and thorough:
        lines = [json.loads(x) for x in open(trace)]
        for ln in lines:
            if ln.get("ev") == "end":
                k = sorted(ln["cur"])[0]
                ln["cur"][k] = ln["cur"][k] + 1000
                break
        else:
            raise vf.MachineryError("tamper test: no end line in the prefetch history")
        bad = os.path.join(ctx.scratch, "prefetch_stress_tampered.ndjson")
        with open(bad, "w") as f:
            for ln in lines:
                f.write(json.dumps(ln) + "\n")
        okb, _ = ctx.tlc_trace(MOD, "Trace_Prefetch.tla", "Trace_Stress.cfg", bad, timeout=900, deque=False)
        if okb:
            raise vf.MachineryError("tamper test: Trace_Prefetch accepted a history whose final holder was altered (binding lost)")
        info["tamper_rejected"] = True


NEG = [("MC_NegCas.cfg", "LateWriteLoses"), ("MC_NegCut.cfg", "RefreshWithinGrant"), ("MC_NegScope.cfg", "Eligible"),
       ("MC_NegDrop.cfg", "NoOrphanClaim")]


ACTIONS = ["Hit", "HitShould", "HitCas", "HitAdd", "HitSend1", "HitSend2", "HitRelease", "HitServe", "Miss", "MissFinishN",
           "DirectWriteN", "Purge", "Tick", "WTake", "WRespN", "WAbort", "WCas", "WRelease", "WExit", "StopMark", "StopCancel",
           "StopReturn"]


def taken_actions(r):
    import re
    return {m.group(1) for m in re.finditer(r"<(\w+) line [^>]*>: (\d+):(\d+)", r.out) if int(m.group(2)) > 0}


def model_check(ctx, thorough):
    quick = [("MC_Proto.cfg", 4), ("MC_LifeQuick.cfg", 4)]
    full = quick + [("MC_Scoped.cfg", 2), ("MC_Full.cfg", 4), ("MC_Proto2W.cfg", 4), ("MC_Miss.cfg", 4), ("MC_Stop.cfg", 4), ("MC_Life.cfg", 4)]
    taken = set()
    for cfg, w in (full if thorough else quick):
        cover = thorough and cfg not in ("MC_Life.cfg", "MC_Proto2W.cfg", "MC_Full.cfg")   # -coverage doubles the run time
        r = ctx.tlc(MOD, SPEC, cfg, workers=w, timeout=900, heap="6g", tag="exhaustive", args=["-coverage", "1"] if cover else [])
        taken |= taken_actions(r)
    never = [a for a in ACTIONS if a not in taken] if thorough else []
    if never:
        raise vf.MachineryError("Prefetch actions never taken in any exhaustive config: %s" % never)
    for cfg, inv in (NEG if thorough else NEG[:1] + NEG[3:]):
        r = ctx.tlc(MOD, SPEC, cfg, workers=2, timeout=300, heap="4g", must_pass=False, tag="negative", count=False)
        if r.violated != inv:
            raise vf.MachineryError("negative config %s did not violate %s (got %s)" % (cfg, inv, r.violated))
    if thorough:
        ctx.tlc(MOD, SPEC, "MC_Fair.cfg", workers=4, timeout=900, heap="6g", tag="liveness")
        ctx.tlc(MOD, SPEC, "MC_FairStop.cfg", workers=4, timeout=900, heap="6g", tag="liveness")
        r = ctx.tlc(MOD, SPEC, "MC_NegFairDrop.cfg", workers=4, timeout=900, heap="6g", must_pass=False, tag="negative", count=False)
        if "Temporal property ClaimReleased was violated" not in r.out:
            raise vf.MachineryError("negative config MC_NegFairDrop did not violate ClaimReleased (rc=%d)" % r.rc)


ECS_PASS = ["MC_EcsFixed.cfg", "MC_EcsAllowlist.cfg"]
ECS_NEG = [("MC_NegEcsQuery.cfg", "RefreshOfSharedCarriesNoClientSubnet"), ("MC_NegEcsStore.cfg", "SharedEntryNeverHoldsScopedAnswer"),
           ("MC_NegEcsServe.cfg", "ServedWithinScope")]


def run_ecs_refresh(ctx, judge, variants=("everyone", "allowlist", "scoped-msg", "scoped-raw"), model=True):
    """An ECS client claims the refresh of a SHARED entry (the audience property, C19).

    Model: Prefetch.tla with the refresh request's ECS as state -- MC_EcsFixed (KeepClientEcs = FALSE: the option is
    stripped from the refresh request) and MC_EcsAllowlist (today's code behind an allow-list that excludes the
    internal writer) satisfy RefreshOfSharedCarriesNoClientSubnet / SharedEntryNeverHoldsScopedAnswer /
    ServedWithinScope; with KeepClientEcs = TRUE and the internal writer allowed (today's code, empty client_networks)
    each of them fails (MC_NegEcs*).
    Code: driver TestPrefetchEcsShared (harness/x04pf/ecs_test.go) on the full default chain with a scripted tail in the
    resolver's place and the real prefetch sub-pipeline.  judge=True: the two predicates are violations of ctx.pid;
    judge=False: an observation (exit code unaffected)."""
    if model:
        for cfg in ECS_PASS:
            ctx.tlc(MOD, SPEC, cfg, workers=2, timeout=300, heap="4g", tag="exhaustive-ecs")
        for cfg, inv in ECS_NEG:
            r = ctx.tlc(MOD, SPEC, cfg, workers=2, timeout=300, heap="4g", must_pass=False, tag="negative", count=False)
            if r.violated != inv:
                raise vf.MachineryError("negative config %s did not violate %s (got %s)" % (cfg, inv, r.violated))
    res = ctx.go_driver("./x04pf", "TestPrefetchEcsShared", {"variants": list(variants), "judge": bool(judge)}, name="pf_ecs", timeout=600)
    cnt = res.get("counters", {})
    ctx.cov["replay"]["prefetch_ecs_shared_refresh"] = {"judge": bool(judge), "counters": cnt, "notes": res.get("drift_notes", []),
                                                        "samples": res.get("samples", [])}
    notes = res.get("drift_notes", [])
    res["drift"], res["drift_notes"] = 0, []      # observations, not model/code drift
    ctx.take_driver_result(res, "[prefetch ecs] ")
    if res.get("skipped"):
        raise vf.MachineryError("prefetch ECS scenario could not run: %s" % res["skipped"][:3])
    if any(v.startswith("scoped") and not cnt.get("scoped_hit_" + v) for v in variants):
        raise vf.MachineryError("prefetch ECS scenario: the second query of a scoped variant was not a cache hit (vacuous): %s" % cnt)
    if cnt.get("variants", 0) != len(variants) or any(not cnt.get("refresh_ran_" + v) for v in variants):
        raise vf.MachineryError("prefetch ECS scenario: the refresh did not run in every variant (vacuous): %s" % cnt)
    if not judge:
        for n in notes:
            ctx.log("OBSERVATION (ECS audience; not a predicate of %s): %s" % (ctx.pid, n))
    return cnt


def ecs_probe(ctx, thorough=False):
    run_ecs_refresh(ctx, judge=os.environ.get("VERIF_X04PF_ECS_JUDGE") == "1", model=thorough)


def run_replay(ctx, path):
    with open(path) as f:
        rec = json.load(f)
    rp = rec.get("replay", rec)
    drv = rp.get("driver")
    if drv == "x04pf-replay":
        res = ctx.go_driver("./x04pf", "TestPrefetchReplay", rp["input"], name="pf_replay_file", timeout=600)
    elif drv == "x04pf-ecs":
        res = ctx.go_driver("./x04pf", "TestPrefetchEcsShared", rp["input"], name="pf_ecs_file", timeout=600)
    elif drv == "x04pf-stress":
        ctx.seed = int(rp.get("seed", ctx.seed))
        run = dict(rp["run"], rounds=int(rp.get("round", 0)) + 10, traceOut="")
        res = ctx.go_driver("./x04pf", "TestPrefetchStress", {"runs": [run]}, name="pf_stress_file", timeout=900)
    else:
        raise vf.MachineryError("replay file %s: unknown driver %r" % (path, drv))
    ctx.take_driver_result(res, "[replay] ")
    ctx.cov["states"] = max(1, ctx.cov["states"])
    ctx.cov["transitions"] = max(1, ctx.cov["transitions"])
    ctx.cov["replay"]["replayed_file"] = path


def run_tier(ctx):
    thorough = ctx.tier == "thorough"
    ctx.cov["rule"] = (ctx.cov.get("rule", "") + " | X04PF: behaviours = TLC simulated sequential call orders of Prefetch.tla "
                       "replayed on the real cache with gated refreshes and gated client misses (distinct = distinct call "
                       "orders) + concurrent histories validated against Trace_Prefetch.tla").strip(" |")
    ctx.assumptions += [
        "X04PF: the atomics inside one cache hit (flag load, CAS, channel send, release) cannot be scheduled from outside; "
        "their interleavings are exhausted by TLC and matched against recorded concurrent histories, not forced",
        "X04PF: the refresh's upstream is a scripted Queryer that honours its context; a resolver that ignores "
        "cancellation would keep Stop waiting (up to the 5 s refresh timeout)",
        "X04PF: the clock moves by shifting stored timestamps at quiescent points only (a parked refresh holds none)",
    ]
    model_check(ctx, thorough)
    replay(ctx, thorough)
    stress(ctx, thorough)
    ecs_probe(ctx, thorough)


def run(ctx, replay_path):
    if replay_path:
        run_replay(ctx, replay_path)
        return
    run_tier(ctx)
