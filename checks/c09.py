"""C09 -- root trust anchors change only as RFC 5011 permits, across crashes and faults.

tla/RFC5011/RFC5011.tla : Resolver.AutoTA as a sequence of actions with a program counter
  (keyed by tag exactly as the code is), an adversary publishing arbitrary DNSKEY RRsets,
  day steps around the 30 d / 90 d hold-downs, read/write faults, Crash/Restart, and an
  oracle (ghost) stating the property clauses.

stages
  1. TLC exhaustive on the clean configurations (every clause as INVARIANT / action property).
  2. spec -> code: TLC -simulate behaviours of the clean configurations are replayed on a real
     Resolver (harness/c09, real Ed25519 keys and signatures, loopback root, gob files,
     inotify-observed persistence tail, constructed crash directories); the driver's own oracle
     evaluates the clauses on what the code did; differences to the model are drift.
  3. code -> spec: the NDJSON events recorded in 2 are validated by Trace_RFC5011.tla with the
     property invariants switched on.
  4. hypotheses: configurations that enable one adversary move / fault combination the clean
     configurations exclude.  TLC's counter-example (a model-only result) is concretised and run
     on the code; only a predicate that is false on the real execution is reported.
"""
import json
import os
import re

import vf

MOD = "RFC5011"
SPEC = "MC_RFC5011.tla"

# constants of the configurations the replay needs to know (mirrors MC_RFC5011.tla)
TAGS = {
    "Tag2": {"A": 1, "B": 2}, "Tag3": {"A": 1, "B": 2, "C": 3},
    "TagAC": {"A": 1, "B": 2, "C": 1}, "TagBC": {"A": 1, "B": 2, "C": 2},
    "TagCrA": {"A": 1, "B": 2, "C": 11}, "TagH2": {"A": 1, "B": 3},
}
REVTAGS = {"RevH2": {"A": 12, "B": 13}}
DELTA = 10
AGECAP = 91

CRASH_AT = {"WriteTombstones": 0, "WriteState": 1, "PublishOrClear": 2}

HYPOTHESES = [
    # cfg, violated property expected from TLC, stable key the replay is expected to report
    ("Hyp_H1_TagCollisionHoldDown.cfg", "TrustOnlyByRFC", "c09/TrustOnlyByRFC/tag-collision"),
    ("Hyp_H2_RevokedTagCarry.cfg", "RevokedNeverAgain", "c09/RevokedNeverAgain/revocation-ignored/revoked-tag-carry"),
    ("Hyp_H3_RevocationMaskedByCollision.cfg", "RevokedNeverAgain", "c09/RevokedNeverAgain/revocation-ignored/tag-collision-in-rrset"),
    ("Hyp_H4_TombstonesUnreadable.cfg", "RevokedNeverAgain", "c09/RevokedNeverAgain/tombstones-unreadable"),
    ("Hyp_H5_ForgottenAfterFailClosed.cfg", "RevokedNeverAgainStrict", "c09/RevokedNeverAgainStrict/after-failclosed"),
    ("Hyp_H7_SoleRecordCorrupted.cfg", "RevokedNeverAgain", "c09/RevokedNeverAgain/sole-record-corrupted"),
]


def cfg_constants(ctx, cfg):
    """Read Keys/Configured/Tag/RevTag substitutions out of a cfg file."""
    with open(os.path.join(vf.VERIF, "tla", MOD, cfg)) as f:
        txt = f.read()
    sub = dict(re.findall(r"^\s*(\w+)\s*<-\s*(\w+)", txt, re.M))
    keys = {"K2": ["A", "B"], "K3": ["A", "B", "C"]}[sub["Keys"]]
    conf = {"ConfA": ["A"], "ConfAB": ["A", "B"]}[sub["Configured"]]
    tag = TAGS[sub["Tag"]]
    rev = REVTAGS.get(sub["RevTag"]) or {k: v + DELTA for k, v in tag.items()}
    return {"keys": keys, "tag": {k: tag[k] for k in keys}, "revtag": {k: rev[k] for k in keys}, "delta": DELTA}, conf


def fn_items(v):
    """TLC function value tag -> x: dict, or a list when the domain is 1..n."""
    if isinstance(v, list):
        return [(i + 1, x) for i, x in enumerate(v)]
    if isinstance(v, dict):
        return [(int(k), x) for k, x in v.items()]
    return []


def zone_of(z, model, fetched):
    keys = sorted(z["keys"])
    # answer order: for a contested tag the DNSKEY kept in kskFetched comes last
    winners = set(x for _, x in fn_items(fetched)) if fetched is not None else set(keys)
    order = [k for k in keys if k not in winners] + [k for k in keys if k in winners]
    return {"keys": keys, "revoked": sorted(z["revoked"]), "signedN": sorted(z["signedN"]),
            "signedR": sorted(z["signedR"]), "order": order}


def expect_of(at_fetch, cand, st):
    sf, tf = st["stateFile"], st["tombFile"]
    return {"atFetch": at_fetch, "cand": cand or [], "trusted": sorted(st["rootKeys"]),
            "stateKind": sf["kind"],
            "state": {e["k"]: {"k": e["k"], "st": e["st"], "age": e["age"]} for _, e in fn_items(sf["m"])},
            "tombKind": tf["kind"], "tomb": sorted(tf["s"])}


def behaviour_to_steps(states, model, fail_modes):
    """[(label, state)] of RFC5011.tla -> replay steps (one per AutoTA run / restart).
    A run cut off by the end of the behaviour is dropped."""
    steps, cur = [], None
    nfail = 0
    for _, st in states:
        ev = st["ev"]
        a = ev.get("a")
        if a == "Begin":
            cur = {"op": "run", "d": ev["d"], "rf": ev["rf"], "fetch": "none", "z": None, "tombFail": False,
                   "stateFail": False, "crash": -1, "_atFetch": None, "_cand": None, "_z": None}
        elif a == "Restart":
            steps.append({"op": "restart"})
            continue
        elif cur is None:
            continue
        elif a == "PublishCandidate":
            cur["_atFetch"] = sorted(st["rootKeys"])
            cur["_cand"] = sorted(st["cand"])
        elif a == "Fetch":
            if ev["ok"]:
                cur["fetch"] = "answer"
                cur["_z"] = ev["z"]
                cur["z"] = zone_of(ev["z"], model, None)
            else:
                cur["fetch"] = fail_modes[nfail % len(fail_modes)]
                nfail += 1
        elif a == "Authenticate" and ev.get("ok"):
            cur["z"] = zone_of(cur["_z"], model, ev["fetched"])
        elif a == "WriteTombstones":
            cur["tombFail"] = not ev["ok"]
        elif a == "WriteState":
            cur["stateFail"] = not ev["ok"]
        elif a == "Crash":
            cur["crash"] = CRASH_AT[ev["at"]]
        if cur is not None and st["pc"] in ("idle", "down") and a != "Restart":
            cur["exp"] = expect_of(cur.pop("_atFetch"), cur.pop("_cand"), st)
            cur.pop("_z")
            steps.append(cur)
            cur = None
    return steps


def parse_error_trace(out):
    """TLC counter-example on stdout -> [(label, state)]."""
    parts = re.split(r"\nState (\d+): <(.*?)>\n", out)
    beh = []
    i = 1
    while i + 2 < len(parts) + 1 and i + 1 < len(parts):
        body = parts[i + 2].split("\n\n")[0]
        beh.append((parts[i + 1], vf.parse_tla_state(body)))
        i += 3
    return beh


def replay(ctx, name, model, conf, behs, trace_out=None, forge=True, timeout=900):
    inp = {"model": model, "configured": conf, "ageCap": AGECAP, "behaviours": behs, "forge": forge,
           "traceOut": trace_out or ""}
    res = ctx.go_driver("./c09", "TestReplay", inp, name=name, timeout=timeout)
    if res.get("skipped"):
        raise vf.MachineryError("C09 replay %s skipped: %s" % (name, res["skipped"][:3]))
    return res


WITNESS_COUNTERS = ["refreshes_full_auth", "refreshes_unauthenticated", "earned_trusted",
                    "quiescent_with_recorded_revocation", "missing_kept", "crashes",
                    "failclosed_corrupt_tombstones"]


def sim_stage(ctx, cfg, num, depth, fail_modes, tag):
    model, conf = cfg_constants(ctx, cfg)
    raw = ctx.tlc_behaviours(MOD, SPEC, cfg, num=num, depth=depth, timeout=600)
    behs, seen = [], set()
    for i, b in enumerate(raw):
        steps = behaviour_to_steps(b, model, fail_modes)
        if not any(s["op"] == "run" for s in steps):
            continue
        key = json.dumps([{k: v for k, v in s.items() if k != "exp"} for s in steps], sort_keys=True)
        if key in seen:
            continue
        seen.add(key)
        behs.append({"id": "%s#%d" % (tag, i), "steps": steps})
    if len(behs) < max(3, num // 10):
        raise vf.MachineryError("simulation of %s produced only %d usable behaviours" % (cfg, len(behs)))
    trace = os.path.join(ctx.scratch, "c09_%s.ndjson" % tag)
    res = replay(ctx, "replay_" + tag, model, conf, behs, trace_out=trace)
    ctx.take_driver_result(res, "[%s] " % tag)
    c = res.get("counters", {})
    info = {"behaviours": len(behs), "runs": c.get("runs", 0), "drift": res["drift"],
            "drift_notes": res.get("drift_notes", []), "counters": c}
    ctx.cov["replay"]["sim_" + tag] = info
    ctx.log("replay %s: %d behaviours, %d runs, drift %d, violations %d" % (
        tag, len(behs), c.get("runs", 0), res["drift"], len(res.get("violations", []))))
    return trace, res, len(behs)


def trace_stage(ctx, trace, tcfg, nbeh, driver_violations, tag):
    nlines = sum(1 for _ in open(trace))
    ok, r = ctx.tlc_trace(MOD, "Trace_RFC5011.tla", tcfg, trace, timeout=900)
    m = re.search(r"c09-lines-matched[^0-9]*(\d+)", r.out)
    matched = int(m.group(1)) if m else 0
    info = {"lines": nlines, "matched": matched}
    ctx.cov["replay"]["trace_" + tag] = info
    if r.violated and r.violated not in ("TraceAccepted",):
        lines = open(trace).read().splitlines()
        ctx.violation("c09/trace/" + r.violated,
                      "[%s] %s is false on a recorded execution of Resolver.AutoTA (around trace line %d)" % (
                          tag, r.violated, matched + 1),
                      {"trace_prefix": lines[max(0, matched - 12):matched + 2]})
    elif matched >= nlines and ok:
        ctx.cov["traces_validated_against_impl"] += nbeh
    elif "c09-lines-matched" not in r.out:
        raise vf.MachineryError("trace spec did not run to its postcondition\n" + "\n".join(r.out.splitlines()[-30:]))
    else:
        if driver_violations:
            ctx.log("trace %s explained up to line %d of %d (driver already reported a violation)" % (tag, matched, nlines))
        else:
            ctx.cov["drift"] += 1
            ctx.log("DRIFT: recorded execution not explained by RFC5011.tla after %d of %d lines; no property "
                    "predicate failed" % (matched, nlines))
            info["rejected_line"] = open(trace).read().splitlines()[matched][:600] if matched < nlines else ""
    ctx.log("trace %s: %d of %d lines matched" % (tag, matched, nlines))


def hypothesis_stage(ctx):
    """Model-only counter-examples, concretised and run on the code."""
    out = {}
    for cfg, prop, want_key in HYPOTHESES:
        r = ctx.tlc(MOD, SPEC, cfg, workers=4, timeout=600, heap="6g", must_pass=False, tag="hypothesis", count=False)
        name = cfg.replace(".cfg", "")
        if r.ok:
            out[name] = "model holds: hypothesis not produced by TLC"
            ctx.log("hypothesis %s: the model satisfies %s (nothing to concretise)" % (name, prop))
            continue
        if r.violated != prop:
            raise vf.MachineryError("hypothesis %s: TLC ended with %r, expected a counter-example to %s\n%s" % (
                name, r.violated, prop, "\n".join(r.out.splitlines()[-25:])))
        model, conf = cfg_constants(ctx, cfg)
        steps = behaviour_to_steps(parse_error_trace(r.out), model, ["empty"])
        if not steps:
            raise vf.MachineryError("hypothesis %s: counter-example not parsed" % name)
        res = replay(ctx, "hyp_" + name, model, conf, [{"id": name, "steps": steps}], forge=False, timeout=600)
        keys = [v["key"] for v in res.get("violations", [])]
        ctx.take_driver_result(res, "[%s, TLC counter-example to %s run on the code] " % (name, prop))
        out[name] = {"tlc_counterexample_steps": len(steps), "reproduced_on_code": bool(keys), "keys": keys,
                     "drift": res["drift"], "drift_notes": res.get("drift_notes", [])}
        if keys and want_key not in keys:
            ctx.log("hypothesis %s reproduced under key(s) %s (expected %s)" % (name, keys, want_key))
        if not keys:
            ctx.log("hypothesis %s: NOT reproduced on the code (model-only; spec or concretisation differs)" % name)
    ctx.cov["replay"]["hypotheses"] = out


def run(ctx, replay_path):
    thorough = ctx.tier == "thorough"
    ctx.cov["rule"] = ("behaviours = TLC -simulate behaviours of RFC5011.tla (clean configurations) and TLC "
                       "counter-examples of the hypothesis configurations, each executed on a real Resolver with "
                       "real keys/signatures/files; evaluations = quiescent points at which all C09 clauses were "
                       "evaluated; distinct = distinct run histories")
    ctx.assumptions += [
        "rootKeys is observed after every AutoTA run, when the DNSKEY query reaches the scripted root, and after restarts "
        "(not inside NewResolver..first AutoTA, where cfg.RootKeys is live by construction)",
        "a crash is emulated by rebuilding the directory from the inotify-observed replacement sequence; torn writes "
        "below rename(2) are out of scope",
        "days pass by moving every FirstSeen in the gob files into the past",
        "timer-resetting events count for the oracle only when the state-file write of that refresh succeeded",
    ]
    if replay_path:
        with open(replay_path) as f:
            rp = json.load(f)["replay"]
        res = replay(ctx, "replay_file", rp["model"], rp["configured"], rp["behaviours"], forge=rp.get("forge", False))
        ctx.take_driver_result(res, "[replay] ")
        return

    # 1. exhaustive model checking (clean configurations)
    ctx.tlc(MOD, SPEC, "MC_Quick.cfg", workers=6, timeout=900, heap="8g")
    if thorough:
        ctx.tlc(MOD, SPEC, "MC_Thorough.cfg", workers=8, timeout=1500, heap="16g")
        ctx.tlc(MOD, SPEC, "MC_Deep2.cfg", workers=8, timeout=1500, heap="16g")
        for w in ("W_NeverEarned", "W_NeverRevAcc", "W_NeverRevOnly", "W_NeverFailClosedW", "W_NeverMissing",
                  "W_NeverRemoved", "W_NeverReappear", "W_NeverMarkerKept", "W_NeverTombUsed"):
            r = ctx.tlc(MOD, SPEC, "Wit_%s.cfg" % w, workers=4, timeout=600, heap="6g", must_pass=False,
                        tag="witness", count=False)
            if r.violated != w:
                raise vf.MachineryError("vacuity: witness %s is not reachable in the quick configuration" % w)

    # 2 + 3. replay and trace validation
    total = {}
    nviol = 0
    for cfg, tcfg, tag, num in (("Sim_Clean.cfg", "Trace_Clean.cfg", "clean", 160 if not thorough else 1500),
                                ("Sim_CleanAB.cfg", "Trace_CleanAB.cfg", "cleanAB", 120 if not thorough else 1200)):
        fail_modes = ["empty", "servfail"] if not thorough else ["empty", "servfail", "empty", "servfail", "drop"]
        trace, res, nbeh = sim_stage(ctx, cfg, num, 110, fail_modes, tag)
        nviol += len(res.get("violations", []))
        for k, v in res.get("counters", {}).items():
            total[k] = total.get(k, 0) + v
        trace_stage(ctx, trace, tcfg, nbeh, bool(res.get("violations")), tag)
    missing = [k for k in WITNESS_COUNTERS if total.get(k, 0) == 0]
    if missing and not nviol:
        raise vf.MachineryError("vacuous replay: the real executions never exercised %s" % missing)

    # 4. hypotheses
    if os.environ.get("VERIF_C09_HYP", "1") != "0":
        hypothesis_stage(ctx)
