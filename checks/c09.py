"""C09 -- root trust anchors change only as RFC 5011 permits, across crashes and faults.

tla/RFC5011/RFC5011.tla : Resolver.AutoTA as a sequence of actions with a program counter
  (keyed by tag exactly as the code is), an adversary publishing arbitrary DNSKEY RRsets,
  day steps around the 30 d / 90 d hold-downs, read/write faults, Crash/Restart, and an
  oracle (ghost) stating the property clauses.

stages
  1. TLC exhaustive on the clean configurations (every clause as INVARIANT / action property).
  2. spec -> code: TLC -simulate behaviours of the clean configurations are replayed on a real
     Resolver (harness/c09, real Ed25519 keys and signatures, loopback root, gob files,
     inotify-observed persistence tail, constructed crash directories); the driver's own oracle
     evaluates the clauses on what the code did; differences to the model are drift.
  3. code -> spec: the NDJSON events recorded in 2 are validated by Trace_RFC5011.tla with the
     property invariants switched on.
  4. hypotheses: configurations that enable one adversary move / fault combination the clean
     configurations exclude.  TLC's counter-example (a model-only result) is concretised and run
     on the code; only a predicate that is false on the real execution is reported.

Two former hypotheses/assumptions are confirmed defects and now part of the clean model (the
specification describes the behaviour the statement asks for; the as-built behaviour is a switch that
the Neg_*.cfg negative twins turn on and that must violate the named property):
  * tombUnreadable (read fault kind of Begin and Restart): the tombstone store exists but open() fails.
    Statement: "if ... the revocation store is unreadable, validation fails closed".  Directed
    scenarios Dir_Unreadable*.cfg; driver predicate FailClosed/unreadable-tombstones.
  * the restart window: what NewResolver publishes counts as the live trust set (observe_at: "after
    each simulated restart").  Directed scenarios Dir_Boot*.cfg; driver predicate
    RevokedNeverAgain/restart-window, evaluated after every restart of every behaviour.
"""
import json
import os
import re

import vf

MOD = "RFC5011"
SPEC = "MC_RFC5011.tla"

# constants of the configurations the replay needs to know (mirrors MC_RFC5011.tla)
TAGS = {
    "Tag2": {"A": 1, "B": 2}, "Tag3": {"A": 1, "B": 2, "C": 3},
    "TagAC": {"A": 1, "B": 2, "C": 1}, "TagBC": {"A": 1, "B": 2, "C": 2},
    "TagCrA": {"A": 1, "B": 2, "C": 11}, "TagH2": {"A": 1, "B": 3},
}
REVTAGS = {"RevH2": {"A": 12, "B": 13}}
DELTA = 10
AGECAP = 91

CRASH_AT = {"WriteTombstones": 0, "WriteState": 1, "PublishOrClear": 2}

HYPOTHESES = [
    # cfg, violated property expected from TLC, stable key the replay is expected to report
    ("Hyp_H1_TagCollisionHoldDown.cfg", "TrustOnlyByRFC", "c09/TrustOnlyByRFC/tag-collision"),
    ("Hyp_H2_RevokedTagCarry.cfg", "RevokedNeverAgain", "c09/RevokedNeverAgain/revocation-ignored/revoked-tag-carry"),
    ("Hyp_H3_RevocationMaskedByCollision.cfg", "RevokedNeverAgain", "c09/RevokedNeverAgain/revocation-ignored/tag-collision-in-rrset"),
    ("Hyp_H5_ForgottenAfterFailClosed.cfg", "RevokedNeverAgainStrict", "c09/RevokedNeverAgainStrict/after-failclosed"),
    ("Hyp_H7_SoleRecordCorrupted.cfg", "RevokedNeverAgain", "c09/RevokedNeverAgain/sole-record-corrupted"),
]


# negative twins of the clean model: the as-built switch is on, the named property must fail (model only)
NEGATIVES = [
    ("Neg_UnreadableContinues.cfg", "RevokedNeverAgain"),      # open error -> run goes on with no tombstones
    ("Neg_UnreadableContinuesFC.cfg", "UnreadableAborts"),     # ... seen as "the run did not stop at the read"
    ("Neg_BootTrustsConfig.cfg", "RevokedNeverAgain"),         # NewResolver trusts cfg.RootKeys unfiltered
]


def cfg_constants(ctx, cfg):
    """Read Keys/Configured/Tag/RevTag substitutions out of a cfg file."""
    with open(os.path.join(vf.VERIF, "tla", MOD, cfg)) as f:
        txt = f.read()
    sub = dict(re.findall(r"^\s*(\w+)\s*<-\s*(\w+)", txt, re.M))
    keys = {"K2": ["A", "B"], "K3": ["A", "B", "C"]}[sub["Keys"]]
    conf = {"ConfA": ["A"], "ConfAB": ["A", "B"]}[sub["Configured"]]
    tag = TAGS[sub["Tag"]]
    rev = REVTAGS.get(sub["RevTag"]) or {k: v + DELTA for k, v in tag.items()}
    return {"keys": keys, "tag": {k: tag[k] for k in keys}, "revtag": {k: rev[k] for k in keys}, "delta": DELTA}, conf


def fn_items(v):
    """TLC function value tag -> x: dict, or a list when the domain is 1..n."""
    if isinstance(v, list):
        return [(i + 1, x) for i, x in enumerate(v)]
    if isinstance(v, dict):
        return [(int(k), x) for k, x in v.items()]
    return []


def zone_of(z, model, fetched):
    keys = sorted(z["keys"])
    # answer order: for a contested tag the DNSKEY kept in kskFetched comes last
    winners = set(x for _, x in fn_items(fetched)) if fetched is not None else set(keys)
    order = [k for k in keys if k not in winners] + [k for k in keys if k in winners]
    return {"keys": keys, "revoked": sorted(z["revoked"]), "signedN": sorted(z["signedN"]),
            "signedR": sorted(z["signedR"]), "order": order}


def expect_of(at_fetch, cand, st):
    sf, tf = st["stateFile"], st["tombFile"]
    return {"atFetch": at_fetch, "cand": cand or [], "trusted": sorted(st["rootKeys"]),
            "stateKind": sf["kind"],
            "state": {e["k"]: {"k": e["k"], "st": e["st"], "age": e["age"]} for _, e in fn_items(sf["m"])},
            "tombKind": tf["kind"], "tomb": sorted(tf["s"])}


DROPS = {"left": 0}


def behaviour_to_steps(states, model, fail_modes, complete=False):
    """[(label, state)] of RFC5011.tla -> replay steps (one per AutoTA run / restart).
    A run cut off by the end of the behaviour is dropped, or -- complete=True, directed
    scenarios whose target state lies inside a run -- finished without further faults and
    without a model prediction."""
    steps, cur = [], None
    nfail = 0
    for _, st in states:
        ev = st["ev"]
        a = ev.get("a")
        if a == "Begin":
            cur = {"op": "run", "d": ev["d"], "rf": ev["rf"], "fetch": "none", "z": None, "tombFail": False,
                   "stateFail": False, "crash": -1, "_atFetch": None, "_cand": None, "_z": None}
        elif a == "Restart":
            # what NewResolver publishes (BootCandidate; nothing if the store cannot be read) is
            # compared as drift; the verdict at a restart is RevokedNeverAgain only
            steps.append({"op": "restart", "rf": ev.get("rf", "none"), "exp": {"trusted": sorted(st["rootKeys"])}})
            continue
        elif cur is None:
            continue
        elif a == "PublishCandidate":
            cur["_atFetch"] = sorted(st["rootKeys"])
            cur["_cand"] = sorted(st["cand"])
        elif a == "Fetch":
            if ev["ok"]:
                cur["fetch"] = "answer"
                cur["_z"] = ev["z"]
                cur["z"] = zone_of(ev["z"], model, None)
            else:
                cur["fetch"] = fail_modes[nfail % len(fail_modes)]
                nfail += 1
                if cur["fetch"] == "drop":       # a silent root costs the resolver's whole timeout
                    if DROPS["left"] <= 0:
                        cur["fetch"] = "servfail"
                    DROPS["left"] -= 1
        elif a == "Authenticate" and ev.get("ok"):
            cur["z"] = zone_of(cur["_z"], model, ev["fetched"])
        elif a == "WriteTombstones":
            cur["tombFail"] = not ev["ok"]
        elif a == "WriteState":
            cur["stateFail"] = not ev["ok"]
        elif a == "Crash":
            cur["crash"] = CRASH_AT[ev["at"]]
        if cur is not None and st["pc"] in ("idle", "down") and a != "Restart":
            cur["exp"] = expect_of(cur.pop("_atFetch"), cur.pop("_cand"), st)
            cur.pop("_z")
            steps.append(cur)
            cur = None
    if cur is not None and complete:
        if cur["fetch"] == "none":
            # the target lies before the fetch: finish the run with a benign refresh (every key
            # trusted right now, published and signing)
            rk = sorted(states[-1][1]["rootKeys"])
            cur["fetch"] = "answer"
            cur["z"] = {"keys": rk, "revoked": [], "signedN": rk, "signedR": [], "order": rk}
        for k in ("_atFetch", "_cand", "_z"):
            cur.pop(k)
        cur["exp"] = None
        steps.append(cur)
    return steps


def parse_error_trace(out):
    """TLC counter-example on stdout -> [(label, state)]."""
    parts = re.split(r"\nState (\d+): <(.*?)>\n", out)
    beh = []
    i = 1
    while i + 2 < len(parts) + 1 and i + 1 < len(parts):
        body = parts[i + 2].split("\n\n")[0]
        beh.append((parts[i + 1], vf.parse_tla_state(body)))
        i += 3
    return beh


def suite(name, model, conf, behs, trace_out=None, forge=True):
    return {"name": name, "model": model, "configured": conf, "ageCap": AGECAP, "behaviours": behs,
            "forge": forge, "traceOut": trace_out or ""}


def replay_suites(ctx, name, suites, timeout=1500):
    """One driver process for all suites (they run side by side inside it)."""
    res = ctx.go_driver("./c09", "TestReplay", {"suites": suites}, name=name, timeout=timeout)
    if res.get("skipped"):
        raise vf.MachineryError("C09 replay skipped: %s" % res["skipped"][:3])
    return res


def suite_counters(res, name):
    pre = name + ":"
    return {k[len(pre):]: v for k, v in res.get("counters", {}).items() if k.startswith(pre)}


WITNESS_COUNTERS = ["refreshes_full_auth", "refreshes_unauthenticated", "refreshes_revocation_only", "earned_trusted",
                    "quiescent_with_recorded_revocation", "missing_kept", "removed_after_holddown", "reappeared",
                    "crashes", "failclosed_corrupt_tombstones", "failclosed_double_write_failure",
                    "failclosed_unreadable_tombstones", "restarts_with_recorded_revocation"]

DIRECTED = ["Pend29Present", "Promote31", "PendAbort", "PendReadd", "Missing89Kept", "Missing91Gone", "MissingAfterLong", "Reappear", "RevokeFull",
            "RevokeOnly", "RevokeOnlyBait", "RevokeOnlyPend", "DoubleFail", "DoubleFailNoRev", "MarkerMigrated",
            "StaleConfig", "CrashBetween", "CrashBeforeWrites", "TombCorrupt", "StateCorrupt", "UnauthBait",
            "RevokeNoSelfSig", "CollidingRevoke",
            # the tombstone store exists but cannot be opened (run / start-up run / nothing recorded /
            # pending key / the refresh after it)
            "UnreadableRevoked", "UnreadableBoot", "UnreadableEmpty", "UnreadablePend", "UnreadableRecovers",
            # what NewResolver trusts (tombstone / marker only / crash between the writes / store
            # unreadable while starting / an earned key)
            "BootRevoked", "BootMarkerOnly", "BootAfterCrash", "BootUnreadable", "BootEarned"]


def tlc_many(ctx, cfgs, tag, par=6):
    """Small TLC runs side by side (each is dominated by JVM start-up)."""
    from concurrent.futures import ThreadPoolExecutor
    ctx.spec_dir(MOD)

    def one(cfg):
        return cfg, ctx.tlc(MOD, SPEC, cfg, workers=2, timeout=600, heap="3g", must_pass=False, tag=tag, count=False)
    with ThreadPoolExecutor(par) as ex:
        return list(ex.map(one, cfgs))


def directed_suites(ctx, runs):
    """One shortest history per clause boundary: TLC's counter-example to the negated target."""
    groups = {}
    for name in DIRECTED:
        cfg = "Dir_%s.cfg" % name
        r = runs[cfg]
        if r.violated != "D_" + name:
            raise vf.MachineryError("directed scenario %s is not reachable in the model (vacuity)\n%s" % (
                name, "\n".join(r.out.splitlines()[-15:])))
        model, conf = cfg_constants(ctx, cfg)
        steps = behaviour_to_steps(parse_error_trace(r.out), model, ["empty"], complete=True)
        if not any(s["op"] == "run" for s in steps):
            raise vf.MachineryError("directed scenario %s: counter-example not parsed" % name)
        key = json.dumps([model, conf], sort_keys=True)
        groups.setdefault(key, (model, conf, []))[2].append({"id": "dir:" + name, "steps": steps})
    return [suite("directed%d" % i, m, c, b) for i, (m, c, b) in enumerate(groups.values())]


def sim_suite(ctx, cfg, num, depth, fail_modes, tag):
    model, conf = cfg_constants(ctx, cfg)
    DROPS["left"] = 12
    raw = ctx.tlc_behaviours(MOD, SPEC, cfg, num=num, depth=depth, timeout=900)
    behs, seen = [], set()
    for i, b in enumerate(raw):
        steps = behaviour_to_steps(b, model, fail_modes)
        if not any(s["op"] == "run" for s in steps):
            continue
        key = json.dumps([{k: v for k, v in s.items() if k != "exp"} for s in steps], sort_keys=True)
        if key in seen:
            continue
        seen.add(key)
        behs.append({"id": "%s#%d" % (tag, i), "steps": steps})
    if len(behs) < max(3, num // 10):
        raise vf.MachineryError("simulation of %s produced only %d usable behaviours" % (cfg, len(behs)))
    trace = os.path.join(ctx.scratch, "c09_%s.ndjson" % tag)
    return suite(tag, model, conf, behs, trace_out=trace)


def trace_stage(ctx, trace, tcfg, nbeh, driver_violations, tag):
    nlines = sum(1 for _ in open(trace))
    ok, r = ctx.tlc_trace(MOD, "Trace_RFC5011.tla", tcfg, trace, timeout=1500)
    m = re.search(r"c09-lines-matched[^0-9]*(\d+)", r.out)
    matched = int(m.group(1)) if m else 0
    info = {"lines": nlines, "matched": matched}
    ctx.cov["replay"]["trace_" + tag] = info
    if r.violated and r.violated not in ("TraceAccepted",):
        lines = open(trace).read().splitlines()
        ctx.violation("c09/trace/" + r.violated,
                      "[%s] %s is false on a recorded execution of Resolver.AutoTA (around trace line %d)" % (
                          tag, r.violated, matched + 1),
                      {"trace_prefix": lines[max(0, matched - 12):matched + 2]})
    elif matched >= nlines and ok:
        ctx.cov["traces_validated_against_impl"] += nbeh
    elif "c09-lines-matched" not in r.out:
        raise vf.MachineryError("trace spec did not run to its postcondition\n" + "\n".join(r.out.splitlines()[-30:]))
    else:
        if driver_violations:
            ctx.log("trace %s explained up to line %d of %d (driver already reported a violation)" % (tag, matched, nlines))
        else:
            ctx.cov["drift"] += 1
            ctx.log("DRIFT: recorded execution not explained by RFC5011.tla after %d of %d lines; no property "
                    "predicate failed" % (matched, nlines))
            info["rejected_line"] = open(trace).read().splitlines()[matched][:600] if matched < nlines else ""
    ctx.log("trace %s: %d of %d lines matched" % (tag, matched, nlines))


def hypothesis_suites(ctx, runs):
    """Model-only counter-examples, to be concretised and run on the code."""
    out, suites = {}, []
    for cfg, prop, want_key in HYPOTHESES:
        r = runs[cfg]
        name = cfg.replace(".cfg", "")
        if r.ok:
            out[name] = "model holds: hypothesis not produced by TLC"
            ctx.log("hypothesis %s: the model satisfies %s (nothing to concretise)" % (name, prop))
            continue
        if r.violated != prop:
            raise vf.MachineryError("hypothesis %s: TLC ended with %r, expected a counter-example to %s\n%s" % (
                name, r.violated, prop, "\n".join(r.out.splitlines()[-25:])))
        model, conf = cfg_constants(ctx, cfg)
        steps = behaviour_to_steps(parse_error_trace(r.out), model, ["empty"])
        if not steps:
            raise vf.MachineryError("hypothesis %s: counter-example not parsed" % name)
        out[name] = {"tlc_counterexample_steps": len(steps), "violates_in_model": prop, "expected_key": want_key}
        suites.append(suite(name, model, conf, [{"id": name, "steps": steps}], forge=False))
    return out, suites


def run(ctx, replay_path):
    thorough = ctx.tier == "thorough"
    ctx.cov["rule"] = ("behaviours = TLC -simulate behaviours of RFC5011.tla (clean configurations) and TLC "
                       "counter-examples of the hypothesis configurations, each executed on a real Resolver with "
                       "real keys/signatures/files; evaluations = quiescent points at which all C09 clauses were "
                       "evaluated; distinct = distinct run histories")
    ctx.assumptions += [
        "rootKeys is observed after every AutoTA run, when the DNSKEY query reaches the scripted root, and right after "
        "NewResolver (what it publishes is live until the first AutoTA run; RevokedNeverAgain is judged there too)",
        "a crash is emulated by rebuilding the directory from the inotify-observed replacement sequence; torn writes "
        "below rename(2) are out of scope",
        "days pass by moving every FirstSeen in the gob files into the past",
        "timer-resetting events count for the oracle only when the state-file write of that refresh succeeded",
    ]
    if replay_path:
        with open(replay_path) as f:
            rp = json.load(f)["replay"]
        ctx.tlc(MOD, SPEC, "MC_Tiny.cfg", workers=4, timeout=600, heap="4g")
        res = replay_suites(ctx, "replay_file", [suite(rp.get("name", "replay"), rp["model"], rp["configured"],
                                                         rp["behaviours"], forge=rp.get("forge", False))])
        ctx.take_driver_result(res, "")
        return

    from concurrent.futures import ThreadPoolExecutor
    ctx.spec_dir(MOD)
    hyp = os.environ.get("VERIF_C09_HYP", "1") != "0"

    # 1. exhaustive model checking (clean configurations); runs beside stages 2-4, none of which
    #    depends on its result
    def model_checking():
        if os.environ.get("VERIF_C09_MC", "1") == "0":      # development switch (mutation trials): the model
            ctx.tlc(MOD, SPEC, "MC_Tiny.cfg", workers=2, timeout=600, heap="4g")   # check does not depend on /repo
            return
        r = ctx.tlc(MOD, SPEC, "MC_Quick.cfg", workers=6, timeout=900, heap="8g",
                    args=["-coverage", "1"] if thorough else ())
        if thorough:
            dead = [a for a in r.zero_coverage() if not a.startswith(("W_", "D_"))]
            if dead:
                raise vf.MachineryError("vacuity: actions never taken in MC_Quick: %s" % dead)
            ctx.tlc(MOD, SPEC, "MC_Thorough.cfg", workers=8, timeout=1500, heap="16g")
            ctx.tlc(MOD, SPEC, "MC_Deep2.cfg", workers=8, timeout=1500, heap="16g")
            wit = ["W_NeverEarned", "W_NeverRevAcc", "W_NeverRevOnly", "W_NeverFailClosedW", "W_NeverMissing",
                   "W_NeverRemoved", "W_NeverReappear", "W_NeverMarkerKept", "W_NeverTombUsed",
                   "W_NeverUnreadable", "W_NeverBootFiltered", "W_NeverBootClosed"]
            for cfg, r in tlc_many(ctx, ["Wit_%s.cfg" % w for w in wit], "witness", par=3):
                if r.violated != cfg[4:-4]:
                    raise vf.MachineryError("vacuity: witness %s is not reachable in the quick configuration" % cfg)

    # 2. histories: directed scenarios and hypothesis counter-examples (small TLC runs side by side),
    #    simulated behaviours of the clean configurations
    sims = [("Sim_Clean.cfg", "Trace_Clean.cfg", "clean", 160 if not thorough else 1500)]
    if thorough:
        sims.append(("Sim_CleanAB.cfg", "Trace_CleanAB.cfg", "cleanAB", 1200))
    fail_modes = ["empty", "servfail"] if not thorough else ["empty", "servfail", "empty", "servfail", "drop"]
    small = ["Dir_%s.cfg" % n for n in DIRECTED] + [n[0] for n in NEGATIVES] + ([h[0] for h in HYPOTHESES] if hyp else [])
    pool = ThreadPoolExecutor(3)
    f_mc = pool.submit(model_checking)
    f_small = pool.submit(lambda: dict(tlc_many(ctx, small, "scenario", par=5)))
    f_sims = pool.submit(lambda: [sim_suite(ctx, cfg, num, 110, fail_modes, tag) for cfg, tcfg, tag, num in sims])
    try:
        runs = f_small.result()
        sim_suites = f_sims.result()
    except BaseException:
        pool.shutdown(wait=True)
        raise
    try:
        stages_3_4(ctx, thorough, hyp, runs, sims, sim_suites)
    finally:
        try:
            f_mc.result()
        finally:
            pool.shutdown()


def negative_twins(ctx, runs):
    for cfg, prop in NEGATIVES:
        r = runs[cfg]
        if r.violated != prop:
            raise vf.MachineryError("negative twin %s: TLC ended with %r, expected a counter-example to %s "
                                    "(the property is vacuous for this defect)\n%s" % (
                                        cfg, r.violated, prop, "\n".join(r.out.splitlines()[-15:])))
    ctx.cov["negative_twins"] = {c: p for c, p in NEGATIVES}
    ctx.log("negative twins: %s" % ", ".join("%s violates %s" % (c[:-4], p) for c, p in NEGATIVES))


def stages_3_4(ctx, thorough, hyp, runs, sims, sim_suites):
    negative_twins(ctx, runs)
    suites = directed_suites(ctx, runs)
    ndirected = len(suites)
    suites += sim_suites
    hyp_info, hyp_suites = hypothesis_suites(ctx, runs) if hyp else ({}, [])
    suites += hyp_suites

    # 3. spec -> code: everything in one driver process
    res = replay_suites(ctx, "replay", suites)
    # "revocation-ignored" outcomes (H2 revoked-tag carry, H3 revocation masked by an
    # in-RRset tag collision): sdns never ACCEPTS the revocation, so the statement's
    # "a key whose self-signed revocation was accepted is never published again" is not
    # engaged.  They are real RFC 5011 gaps but not violations of C09 as stated:
    # reported as observations, never as violations.
    observed = [v for v in res.get("violations", []) if "/revocation-ignored/" in v.get("key", "")]
    res["violations"] = [v for v in res.get("violations", []) if "/revocation-ignored/" not in v.get("key", "")]
    for v in observed:
        print("OBSERVATION property=C09 (not judged) %s" % v.get("what", "")[:300], flush=True)
    ctx.cov["observations"] = [v.get("key") for v in observed]
    ctx.take_driver_result(res, "")
    clean_names = [s["name"] for s in suites[:ndirected + len(sims)]]
    viol_by_suite = {}
    for v in res.get("violations", []):
        m = re.match(r"\[([^\]]*)\]", v.get("what", ""))
        viol_by_suite.setdefault(m.group(1) if m else "?", []).append(v["key"])
    total = {}
    for sname in clean_names:
        c = suite_counters(res, sname)
        for k, v in c.items():
            total[k] = total.get(k, 0) + v
        nb = len([s for s in suites if s["name"] == sname][0]["behaviours"])
        ctx.cov["replay"][sname] = {"behaviours": nb, "runs": c.get("runs", 0), "drift": c.get("drift", 0),
                                    "violations": viol_by_suite.get(sname, []), "counters": c}
        ctx.log("replay %s: %d behaviours, %d runs, drift %d, violations %s" % (
            sname, nb, c.get("runs", 0), c.get("drift", 0), viol_by_suite.get(sname, [])))
    ctx.cov["replay"]["drift_notes"] = res.get("drift_notes", [])
    for name, info in hyp_info.items():
        if isinstance(info, dict):
            keys = viol_by_suite.get(name, [])
            info["reproduced_on_code"] = bool(keys)
            info["keys"] = keys
            ctx.log("hypothesis %s (TLC counter-example to %s): %s" % (
                name, info["violates_in_model"],
                "REPRODUCED on the code as %s" % keys if keys else "not reproduced on the code (model-only)"))
    ctx.cov["replay"]["hypotheses"] = hyp_info
    clean_viol = any(viol_by_suite.get(n) for n in clean_names)
    missing = [k for k in WITNESS_COUNTERS if total.get(k, 0) == 0]
    if missing and not clean_viol:
        raise vf.MachineryError("vacuous replay: the real executions never exercised %s" % missing)

    # 4. code -> spec: the recorded executions of the simulated behaviours
    for (cfg, tcfg, tag, num), st in zip(sims, suites[ndirected:ndirected + len(sims)]):
        trace_stage(ctx, st["traceOut"], tcfg, len(st["behaviours"]), bool(viol_by_suite.get(tag)), tag)
    if not viol_by_suite.get("clean"):
        binding_selftest(ctx, suites[ndirected]["traceOut"], "Trace_Clean.cfg")


def binding_selftest(ctx, trace, tcfg):
    """The trace spec must reject a recorded execution with one observation falsified
    (otherwise trace validation binds nothing)."""
    lines = open(trace).read().splitlines()
    for i, ln in enumerate(lines):
        ev = json.loads(ln)
        if ev["ev"] == "run" and ev["crash"] == -1 and ev["trusted"] == ["A"] and i > 20:
            ev["trusted"] = ["A", "B"]
            bad = trace + ".falsified"
            with open(bad, "w") as f:
                f.write("\n".join(lines[:i] + [json.dumps(ev)] + lines[i + 1:]) + "\n")
            ok, r = ctx.tlc_trace(MOD, "Trace_RFC5011.tla", tcfg, bad, timeout=900)
            m = re.search(r"c09-lines-matched[^0-9]*(\d+)", r.out)
            matched = int(m.group(1)) if m else -1
            if ok or matched > i:
                raise vf.MachineryError("binding self-test: a falsified observation at trace line %d was accepted" % (i + 1))
            ctx.cov["replay"]["binding_selftest"] = {"falsified_line": i + 1, "matched": matched,
                                                     "rejected_by": r.violated or "no matching step"}
            ctx.log("binding self-test: falsified line %d rejected (%s)" % (i + 1, r.violated or "no matching step"))
            return
    raise vf.MachineryError("binding self-test: no line to falsify")
