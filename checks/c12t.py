"""C12T -- development entry point for the C12 pipeline tier (bin/check C12T).

The lead merges c12_topo.run_topo(ctx) into checks/c12.py next to the Ledger core.
"""
import c12_topo


def run(ctx, replay):
    ctx.cov["rule"] = "C12 pipeline tier only (development stub)"
    if replay and c12_topo.replay_topo(ctx, replay):
        return
    c12_topo.run_topo(ctx)
