"""C17 -- access control is exact and applies to clients only.

IpSet.tla  (internal/ipset, literal)  : TLC exhaustive over ALL lists of <= 3 entries (both
            families, host bits, /0../W, duplicates, nesting, adjacency, an unparsable entry)
            x every source; the cases TLC enumerates (Cases.tla: every ordered list of <= 2
            entries; Sim_*.cfg: simulated Add/Compile/Query behaviours with 3 entries) are
            scaled into real IPv4/IPv6 space at several bit offsets and replayed on the real
            ipset.New / Contains / ContainsIP against the naive per-prefix scan.
Gate.tla   (accesslist, views, autoWire/SubPipeline, Queryer) : TLC exhaustive over access
            lists x view orders x sources x births; every terminal state (GateCases.tla) is
            replayed on the real accesslist + views handlers and on the real default chain
            (defaults.RegisterUpTo("resolver") + Setup), with probes behind the gate.
"""
import json
import os

import vf

W4 = {"hb": 2, "lb": 2, "v4": 2, "mapPat": 3}
W5 = {"hb": 2, "lb": 3, "v4": 2, "mapPat": 7}


# --------------------------------------------------------------------------- IpSet
def ipset_cases_emitted(ctx, cfg, dims, placements, tag):
    """Cases.tla prints one JSON case per ordered list; replay them all."""
    r = ctx.tlc("IpSet", "Cases.tla", cfg, workers=2, timeout=600, heap="4g", tag="emit", count=False)
    cases = [c for c in r.printed() if isinstance(c, dict) and "list" in c]
    w6 = dims["hb"] + dims["lb"]
    n = 2 ** dims["v4"] * (dims["v4"] + 1) + 2 ** w6 * (w6 + 1) + 1     # entries: IPv4, IPv6, the unparsable one
    if len(cases) != 1 + n + n * n:
        raise vf.MachineryError("Cases.tla emitted %d cases, expected %d ordered lists of <= 2 of %d entries"
                                % (len(cases), 1 + n + n * n, n))
    ctx.log("IpSet %s: %d emitted cases" % (cfg, len(cases)))
    return ipset_replay(ctx, cases, dims, placements, tag)


def ipset_cases_simulated(ctx, cfg, dims, num, depth, placements, tag):
    behs = ctx.tlc_behaviours("IpSet", "IpSet.tla", cfg, num=num, depth=depth, timeout=900)
    cases, seen = [], set()
    for b in behs:
        lst, queries, compiled = [], [], False
        for lab, st in b:
            lst = st.get("list", lst)
            compiled = compiled or st.get("compiled") is True
            last = st.get("last", {})
            if last.get("op") == "query":
                queries.append([last["fam"], last["a"], 1 if last["got"] else 0])
        if not compiled:
            continue
        key = json.dumps([lst, queries], sort_keys=True)
        if key in seen:
            continue
        seen.add(key)
        cases.append({"list": lst, "queries": queries})
    if len(cases) < min(20, num // 4):
        raise vf.MachineryError("simulation %s produced only %d usable behaviours of %d" % (cfg, len(cases), len(behs)))
    ctx.log("IpSet %s: %d behaviours, %d distinct compiled cases" % (cfg, len(behs), len(cases)))
    return ipset_replay(ctx, cases, dims, placements, tag)


def ipset_replay(ctx, cases, dims, placements, tag):
    inp = dict(dims)
    inp.update({"cases": cases, "placements": placements, "tag": tag})
    res = ctx.go_driver("./c17", "TestIpSetReplay", inp, name="ipset_" + tag, timeout=1200)
    ctx.take_driver_result(res, "[IpSet %s] " % tag)
    cnt = res.get("counters", {})
    ctx.cov["replay"]["ipset_" + tag] = {
        "model_cases": len(cases), "replays": res["cases"], "ipset_new": cnt.get("ipset_new", 0),
        "queries": cnt.get("queries", 0), "members": cnt.get("members", 0),
        "ambiguous_mapped_prefix": cnt.get("ambiguous_mapped_prefix", 0),
        "placements": {k[10:]: v for k, v in cnt.items() if k.startswith("placement:")},
        "drift": res["drift"], "drift_notes": res.get("drift_notes", []), "skipped": res.get("skipped", [])}
    if res.get("skipped"):
        raise vf.MachineryError("IpSet replay %s: harness/model disagreement: %s" % (tag, res["skipped"][:3]))
    if cnt.get("queries", 0) == 0 or cnt.get("members", 0) == 0:
        raise vf.MachineryError("IpSet replay %s is vacuous: %s" % (tag, cnt))
    return res


def ipset(ctx, thorough):
    # the model alone: every list of <= 3 entries x every source
    #   quick:    W=4 (2+2-bit words, 2-bit IPv4), <= 3 entries up to order, host bits all clear / all set;
    #             every ORDERED list of <= 2 entries with every Query transition
    #   thorough: + every ordered list of <= 3 entries with any host bits (W=4),
    #             + W=5 (2+3-bit words) <= 3 entries up to order, host bits all clear / all set
    ctx.tlc("IpSet", "IpSet.tla", "MC_W4_L3_quick.cfg", workers=8, timeout=900, heap="8g")
    ctx.tlc("IpSet", "IpSet.tla", "MC_W4_L2_query.cfg", workers=4, timeout=900, heap="8g")
    if thorough:
        ctx.tlc("IpSet", "IpSet.tla", "MC_W4_L3_ordered.cfg", workers=8, timeout=2400, heap="12g")
        ctx.tlc("IpSet", "IpSet.tla", "MC_W5_L3_edge.cfg", workers=8, timeout=2400, heap="12g")
        if os.environ.get("VERIF_C17_DEEP"):   # ~3e6 states, every host-bit pattern at W=5; not part of the tier budget
            ctx.tlc("IpSet", "IpSet.tla", "MC_W5_L3_canon.cfg", workers=8, timeout=7200, heap="16g")
    # spec -> code
    ipset_cases_emitted(ctx, "Cases_W4_L2.cfg", W4, 4 if thorough else 2, "W4L2")
    ipset_cases_simulated(ctx, "Sim_W4_L3.cfg", W4, 4000 if thorough else 700, 9, 6 if thorough else 3, "W4L3sim")
    if thorough:
        ipset_cases_simulated(ctx, "Sim_W5_L3.cfg", W5, 4000, 9, 6, "W5L3sim")


# --------------------------------------------------------------------------- Gate
GATE_CHAIN = ["recovery", "metrics", "dnstap", "accesslist", "ratelimit", "reflex", "edns", "accesslog", "chaos",
              "hostsfile", "views", "blocklist", "as112", "kubernetes", "dns64", "cache", "failover", "resolver"]
GATE_CLIENT_ONLY = ["metrics", "dnstap", "accesslist", "ratelimit", "reflex", "accesslog", "views", "dns64"]


def gate_model(ctx, cfg, timeout):
    """Exhaustive run of Gate.tla; the Emit invariant prints every terminal state."""
    r = ctx.tlc("IpSet", "GateCases.tla", cfg, workers=4, timeout=timeout, heap="8g")
    cases = [c for c in r.printed() if isinstance(c, dict) and "req" in c and "acl" in c]
    if len(cases) < 100:
        raise vf.MachineryError("GateCases %s emitted only %d terminal states" % (cfg, len(cases)))
    per_cfg = {}
    for c in cases:
        k = json.dumps([sorted(c["acl"]), c["views"]], sort_keys=True)
        per_cfg[k] = per_cfg.get(k, 0) + 1
    if len(set(per_cfg.values())) != 1:
        raise vf.MachineryError("GateCases %s: terminal states per configuration differ (%s): emitted lines lost?"
                                % (cfg, sorted(set(per_cfg.values()))))
    kinds = {c["req"]["kind"] for c in cases}
    denied = sum(1 for c in cases if c["req"]["kind"] == "client" and not c["allowed"])
    viewed = sum(1 for c in cases if c["written"] == "views")
    if kinds != {"client", "internal"} or denied == 0 or viewed == 0:
        raise vf.MachineryError("GateCases %s is vacuous: kinds=%s denied=%d view answers=%d" % (cfg, kinds, denied, viewed))
    ctx.log("Gate %s: %d configurations x %d terminal states (%d denied clients, %d view answers)" % (
        cfg, len(per_cfg), len(cases) // len(per_cfg), denied, viewed))
    return cases


def gate_replay(ctx, cases, tag, variants, full_configs):
    inp = {"cases": cases, "chain": GATE_CHAIN, "clientOnly": GATE_CLIENT_ONLY, "tail": "resolver",
           "variants": variants, "fullConfigs": full_configs}
    info = {}
    for test, name in (("TestGateHandlers", "handlers"), ("TestGateDefaultChain", "default")):
        res = ctx.go_driver("./c17", test, inp, name="gate_%s_%s" % (tag, name), timeout=1500)
        ctx.take_driver_result(res, "[Gate %s/%s] " % (tag, name))
        cnt = res.get("counters", {})
        info[name] = {"replays": res["cases"], "counters": cnt, "drift": res["drift"],
                      "drift_notes": res.get("drift_notes", []), "skipped": res.get("skipped", [])}
        if res.get("skipped"):
            raise vf.MachineryError("Gate replay %s/%s: %s" % (tag, name, res["skipped"][:3]))
        if cnt.get("denied", 0) == 0 or cnt.get("allowed", 0) == 0 or cnt.get("view_answers", 0) == 0:
            raise vf.MachineryError("Gate replay %s/%s is vacuous: %s" % (tag, name, cnt))
        if name == "default" and (cnt.get("internal_queries", 0) == 0 or cnt.get("subpipelines_checked", 0) < 2):
            raise vf.MachineryError("Gate replay %s/default never looked at the internal sub-pipelines: %s" % (tag, cnt))
    ctx.cov["replay"]["gate_" + tag] = info
    for c in cases:
        ctx._distinct.add("gate:" + json.dumps([c["acl"], c["views"], c["req"]], sort_keys=True))


def gate(ctx, thorough):
    if thorough:
        cases = gate_model(ctx, "Gate_full.cfg", 2400)
        gate_replay(ctx, cases, "full", 2, 0)      # 0 = every configuration on the default chain
    else:
        cases = gate_model(ctx, "Gate_quick.cfg", 600)
        gate_replay(ctx, cases, "quick", 1, 0)


def run(ctx, replay):
    thorough = ctx.tier == "thorough"
    ctx.cov["rule"] = ("behaviours = TLC-enumerated ipset lists (every ordered list of <= 2 entries, simulated "
                       "3-entry behaviours), each scaled to real IPv4/IPv6 at several bit offsets and replayed on "
                       "ipset.New/Contains against the naive scan; plus every terminal state of Gate.tla replayed on "
                       "the real accesslist/views handlers and the real default chain; distinct = distinct "
                       "(model list, placement) pairs and distinct gate outcomes")
    ctx.assumptions += [
        "scaling a W-bit case to 32/128 bits preserves membership (window at a bit offset, fixed base above, noise below); "
        "the model answer is cross-checked against the naive scan on every probe",
        "IPv4-mapped *prefix entries* (::ffff:a.b.c.d/n) carry no verdict: netip and net.IPNet disagree on them",
        "transports are represented by udp/tcp/doh/doq writer doubles with a chosen RemoteAddr; the owned strict "
        "transport job (server.strictSlots) is not driven, its chain entry (ResetWire on a parsed wire request) is",
    ]
    if replay:
        return run_replay(ctx, replay)
    ipset(ctx, thorough)
    gate(ctx, thorough)


def run_replay(ctx, path):
    with open(path) as f:
        rec = json.load(f)
    rp = rec.get("replay", rec)
    kind = rp.get("kind")
    # the model instance the recorded case belongs to, re-checked (small bounds) alongside the re-run
    if kind == "ipset":
        ctx.tlc("IpSet", "IpSet.tla", "MC_W4_L1.cfg", workers=2, timeout=300, heap="4g")
    elif kind == "gate":
        ctx.tlc("IpSet", "MC_Gate.tla", "Gate_tiny.cfg", workers=2, timeout=300, heap="4g")
    if kind == "ipset":
        res = ctx.go_driver("./c17", "TestIpSetOne", rp, name="replay_ipset", timeout=300)
    elif kind == "gate":
        res = ctx.go_driver("./c17", "TestGateOne", rp, name="replay_gate", timeout=300)
    else:
        raise vf.MachineryError("unknown replay kind %r" % kind)
    ctx.take_driver_result(res, "[replay] ")
    ctx._distinct.add("replay-file:" + os.path.basename(path))
    ctx.sample({"replayed": os.path.basename(path), "kind": kind, "what": rec.get("what", "")[:300]})
    if res.get("skipped"):
        raise vf.MachineryError("replay skipped: %s" % res["skipped"][:3])
