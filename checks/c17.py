"""C17 -- access control is exact and applies to clients only.

Four parts, run side by side (VERIF_C17_ONLY=ipset|gate|sentinel|ratelimit runs one):

IpSet.tla  (internal/ipset, literal)  : TLC exhaustive over ALL lists of <= 3 entries (both
            families, host bits, /0../W, duplicates, nesting, adjacency, an unparsable entry)
            x every source; the cases TLC enumerates (Cases.tla: every ordered list of <= 2
            entries; Sim_*.cfg: simulated Add/Compile/Query behaviours with 3 entries) are
            scaled into real IPv4/IPv6 space at several bit offsets and replayed on the real
            ipset.New / Contains / ContainsIP against the naive per-prefix scan.
Gate.tla   (accesslist, views, autoWire/SubPipeline, Queryer) : TLC exhaustive over access
            lists x view orders x sources x births; every terminal state (GateCases.tla) is
            replayed on the real accesslist + views handlers and on the real default chain
            (defaults.RegisterUpTo("resolver") + Setup), with probes behind the gate.
Gate.tla, sentinel family (gap C17-r3-2; MC_Gate.tla SNets / SSrcs, GateSent_*.cfg): who is a client is decided by
            responseWriter.Reset from the peer's address type, address (127.0.0.255 = sentinel) and port (0); sources at
            and around the sentinel x port x transport, replayed on the handlers, the default chain and the running UDP /
            TCP listeners (harness/c17/sentinel_test.go).  Negative twins: the stream branch ignoring the port (the seeded
            change), its view half, and the as-built port-0 datagram (known finding gate|sentinel-port0|sockets).
RateLimit.tla, chase / internal families (gap C17-r3-1; checks/x06rl.py run_c17_tier, class c17/*): the cache's per-entry
            client limiter never refuses or charges an internal request or the chase of a CNAME target the cache runs
            through its internal Queryer.  Negative twins MC_NegInternal / MC_NegChase (LimitInternal).
"""
import json
import os

import vf
import x06rl

W4 = {"hb": 2, "lb": 2, "v4": 2, "mapPat": 3}
W5 = {"hb": 2, "lb": 3, "v4": 2, "mapPat": 7}


# --------------------------------------------------------------------------- IpSet
def ipset_cases_emitted(ctx, cfg, dims, placements, tag):
    """Cases.tla prints one JSON case per ordered list; replay them all."""
    r = ctx.tlc("IpSet", "Cases.tla", cfg, workers=2, timeout=600, heap="4g", tag="emit", count=False)
    cases = [c for c in r.printed() if isinstance(c, dict) and "list" in c]
    w6 = dims["hb"] + dims["lb"]
    n = 2 ** dims["v4"] * (dims["v4"] + 1) + 2 ** w6 * (w6 + 1) + 1     # entries: IPv4, IPv6, the unparsable one
    if len(cases) != 1 + n + n * n:
        raise vf.MachineryError("Cases.tla emitted %d cases, expected %d ordered lists of <= 2 of %d entries"
                                % (len(cases), 1 + n + n * n, n))
    ctx.log("IpSet %s: %d emitted cases" % (cfg, len(cases)))
    return ipset_replay(ctx, cases, dims, placements, tag)


def ipset_cases_simulated(ctx, cfg, dims, num, depth, placements, tag):
    behs = ctx.tlc_behaviours("IpSet", "IpSet.tla", cfg, num=num, depth=depth, timeout=900)
    cases, seen = [], set()
    for b in behs:
        lst, queries, compiled = [], [], False
        for lab, st in b:
            lst = st.get("list", lst)
            compiled = compiled or st.get("compiled") is True
            last = st.get("last", {})
            if last.get("op") == "query":
                queries.append([last["fam"], last["a"], 1 if last["got"] else 0])
        if not compiled:
            continue
        key = json.dumps([lst, queries], sort_keys=True)
        if key in seen:
            continue
        seen.add(key)
        cases.append({"list": lst, "queries": queries})
    if len(cases) < min(20, num // 4):
        raise vf.MachineryError("simulation %s produced only %d usable behaviours of %d" % (cfg, len(cases), len(behs)))
    ctx.log("IpSet %s: %d behaviours, %d distinct compiled cases" % (cfg, len(behs), len(cases)))
    return ipset_replay(ctx, cases, dims, placements, tag)


def ipset_replay(ctx, cases, dims, placements, tag):
    inp = dict(dims)
    inp.update({"cases": cases, "placements": placements, "tag": tag})
    res = ctx.go_driver("./c17", "TestIpSetReplay", inp, name="ipset_" + tag, timeout=1200)
    ctx.take_driver_result(res, "[IpSet %s] " % tag)
    cnt = res.get("counters", {})
    ctx.cov["replay"]["ipset_" + tag] = {
        "model_cases": len(cases), "replays": res["cases"], "ipset_new": cnt.get("ipset_new", 0),
        "queries": cnt.get("queries", 0), "members": cnt.get("members", 0),
        "ambiguous_mapped_prefix": cnt.get("ambiguous_mapped_prefix", 0),
        "placements": {k[10:]: v for k, v in cnt.items() if k.startswith("placement:")},
        "drift": res["drift"], "drift_notes": res.get("drift_notes", []), "skipped": res.get("skipped", [])}
    if res.get("skipped"):
        raise vf.MachineryError("IpSet replay %s: harness/model disagreement: %s" % (tag, res["skipped"][:3]))
    if cnt.get("queries", 0) == 0 or cnt.get("members", 0) == 0:
        raise vf.MachineryError("IpSet replay %s is vacuous: %s" % (tag, cnt))
    return res


def ipset(ctx, thorough):
    # the model alone: every list of <= 3 entries x every source
    #   quick:    W=4 (2+2-bit words, 2-bit IPv4), <= 3 entries up to order, host bits all clear / all set;
    #             every ORDERED list of <= 2 entries with every Query transition
    #   thorough: + every ordered list of <= 3 entries with any host bits (W=4),
    #             + W=5 (2+3-bit words) <= 3 entries up to order, host bits all clear / all set
    ctx.tlc("IpSet", "IpSet.tla", "MC_W4_L3_quick.cfg", workers=8, timeout=900, heap="8g")
    ctx.tlc("IpSet", "IpSet.tla", "MC_W4_L2_query.cfg", workers=4, timeout=900, heap="8g")
    if thorough:
        ctx.tlc("IpSet", "IpSet.tla", "MC_W4_L3_ordered.cfg", workers=8, timeout=2400, heap="12g")
        ctx.tlc("IpSet", "IpSet.tla", "MC_W5_L3_edge.cfg", workers=8, timeout=2400, heap="12g")
        if os.environ.get("VERIF_C17_DEEP"):   # ~3e6 states, every host-bit pattern at W=5; not part of the tier budget
            ctx.tlc("IpSet", "IpSet.tla", "MC_W5_L3_canon.cfg", workers=8, timeout=7200, heap="16g")
    # spec -> code
    ipset_cases_emitted(ctx, "Cases_W4_L2.cfg", W4, 4 if thorough else 2, "W4L2")
    ipset_cases_simulated(ctx, "Sim_W4_L3.cfg", W4, 4000 if thorough else 700, 9, 6 if thorough else 3, "W4L3sim")
    if thorough:
        ipset_cases_simulated(ctx, "Sim_W5_L3.cfg", W5, 4000, 9, 6, "W5L3sim")


# --------------------------------------------------------------------------- Gate
GATE_CHAIN = ["recovery", "metrics", "dnstap", "accesslist", "ratelimit", "reflex", "edns", "accesslog", "chaos",
              "hostsfile", "views", "blocklist", "as112", "kubernetes", "dns64", "cache", "failover", "resolver"]
GATE_CLIENT_ONLY = ["metrics", "dnstap", "accesslist", "ratelimit", "reflex", "accesslog", "views", "dns64"]


def gate_model(ctx, cfg, timeout, workers=4):
    """Exhaustive run of Gate.tla; the Emit invariant prints every terminal state."""
    r = ctx.tlc("IpSet", "GateCases.tla", cfg, workers=workers, timeout=timeout, heap="8g")
    cases = [c for c in r.printed() if isinstance(c, dict) and "req" in c and "acl" in c]
    if len(cases) < 100:
        raise vf.MachineryError("GateCases %s emitted only %d terminal states" % (cfg, len(cases)))
    per_cfg = {}
    for c in cases:
        k = json.dumps([sorted(c["acl"]), c["views"]], sort_keys=True)
        per_cfg[k] = per_cfg.get(k, 0) + 1
    if len(set(per_cfg.values())) != 1:
        raise vf.MachineryError("GateCases %s: terminal states per configuration differ (%s): emitted lines lost?"
                                % (cfg, sorted(set(per_cfg.values()))))
    kinds = {c["req"]["kind"] for c in cases}
    denied = sum(1 for c in cases if c["req"]["kind"] == "client" and not c["allowed"])
    viewed = sum(1 for c in cases if c["written"] == "views")
    if kinds != {"client", "internal"} or denied == 0 or viewed == 0:
        raise vf.MachineryError("GateCases %s is vacuous: kinds=%s denied=%d view answers=%d" % (cfg, kinds, denied, viewed))
    ctx.log("Gate %s: %d configurations x %d terminal states (%d denied clients, %d view answers)" % (
        cfg, len(per_cfg), len(cases) // len(per_cfg), denied, viewed))
    return cases


def gate_replay(ctx, cases, tag, variants, full_configs, family=""):
    inp = {"cases": cases, "chain": GATE_CHAIN, "clientOnly": GATE_CLIENT_ONLY, "tail": "resolver",
           "variants": variants, "fullConfigs": full_configs, "family": family}
    info = {}
    drivers = [("TestGateHandlers", "handlers"), ("TestGateDefaultChain", "default")]
    if family == "sent":
        # what real sockets can carry of the family, on the running UDP / TCP listeners (raw socket: source port 0)
        drivers.append(("TestGateSockets", "sockets"))
    for test, name in drivers:
        res = ctx.go_driver("./c17", test, inp, name="gate_%s_%s" % (tag, name), timeout=1500)
        ctx.take_driver_result(res, "[Gate %s/%s] " % (tag, name))
        cnt = res.get("counters", {})
        info[name] = {"replays": res["cases"], "counters": cnt, "drift": res["drift"],
                      "drift_notes": res.get("drift_notes", []), "skipped": res.get("skipped", [])}
        if res.get("skipped"):
            raise vf.MachineryError("Gate replay %s/%s: %s" % (tag, name, res["skipped"][:3]))
        # vacuity is judged on runs without a verdict (a broken tree changes the counters); the recorded port-0 finding is none
        if [v for v in res.get("violations", []) if v.get("key") != SENT_KNOWN_KEY]:
            continue
        if cnt.get("denied", 0) == 0 or cnt.get("allowed", 0) == 0 or cnt.get("view_answers", 0) == 0:
            raise vf.MachineryError("Gate replay %s/%s is vacuous: %s" % (tag, name, cnt))
        if family == "sent":
            # the shape the family exists for was driven: the datagram from 127.0.0.255:0 on a real socket (unless this host has
            # no raw sockets) and as a writer double, and on sockets both transports
            if name == "sockets" and cnt.get("sentinel_port0_udp", 0) + cnt.get("port0_dropped_by_listener", 0) == 0 \
                    and not cnt.get("raw_unavailable", 0):
                raise vf.MachineryError("Gate replay %s/%s never sent the port-0 sentinel datagram: %s" % (tag, name, cnt))
            if name != "sockets" and cnt.get("legacy_sentinel_writer", 0) == 0:
                raise vf.MachineryError("Gate replay %s/%s never drove a port-0 sentinel writer double: %s" % (tag, name, cnt))
            if name == "sockets" and (cnt.get("socket_udp", 0) < 20 or cnt.get("socket_tcp", 0) < 20
                                      or cnt.get("socket_lost", 0) > cnt.get("socket_requests", 0) // 10):
                raise vf.MachineryError("Gate replay %s/sockets is vacuous: %s" % (tag, cnt))
        if name == "default" and (cnt.get("internal_queries", 0) == 0 or cnt.get("subpipelines_checked", 0) < 2):
            raise vf.MachineryError("Gate replay %s/default never looked at the internal sub-pipelines: %s" % (tag, cnt))
    ctx.cov["replay"]["gate_" + tag] = info
    for c in cases:
        ctx._distinct.add("gate:" + json.dumps([c["acl"], c["views"], c["req"]], sort_keys=True))


# the sentinel family (gap C17-r3-2): sources at and around 127.0.0.255 x source port x transport
SENT_KNOWN_KEY = "gate|sentinel-port0|sockets"    # known_findings.json: the UDP datagram from 127.0.0.255:0 taken for internal
SENT_NEGATIVES = [("GateSent_neg_stream.cfg", "DeniedTouchesNothing"),    # seeded: the stream branch ignores the port
                  ("GateSent_neg_view.cfg", "FirstMatchingView"),         # ... its view half
                  ("GateSent_port0_asbuilt.cfg", "DeniedTouchesNothing")]  # the model reproduces the port-0 finding


def gate_sentinel(ctx, thorough):
    def neg(cfg, inv):
        r = ctx.tlc("IpSet", "MC_Gate.tla", cfg, workers=1, timeout=300, heap="4g", must_pass=False, tag="negative", count=False)
        if r.violated != inv:
            raise vf.MachineryError("negative config %s did not violate %s (got %s)" % (cfg, inv, r.violated))

    jobs = [lambda: gate_model(ctx, "GateSent_eph.cfg", 600, workers=2),
            lambda: gate_model(ctx, "GateSent_port0_emit.cfg", 600, workers=2),
            # with the candidate repair (a listener never hands a port-0 peer to the chain) every predicate holds for both ports
            lambda: ctx.tlc("IpSet", "MC_Gate.tla", "GateSent_port0_repaired.cfg", workers=1, timeout=300, heap="4g")]
    jobs += [(lambda c=c, i=i: neg(c, i)) for c, i in SENT_NEGATIVES]
    out = x06rl.parallel(jobs, width=6)
    cases = out[0] + out[1]
    shape = [c for c in cases if c["req"]["kind"] == "client" and c["req"]["src"] in ("sent", "mapsent") and not c["allowed"]]
    if not any(c["req"]["port"] == "eph" and c["req"]["tr"] in ("tcp", "doh") for c in shape) or \
            not any(c["req"]["port"] == "zero" and c["req"]["tr"] == "udp" for c in shape):
        raise vf.MachineryError("sentinel family: no denied sentinel source on a stream transport / with port 0 among the cases")
    gate_replay(ctx, cases, "sentinel", 1, 0, family="sent")


def gate(ctx, thorough):
    if thorough:
        cases = gate_model(ctx, "Gate_full.cfg", 2400)
        gate_replay(ctx, cases, "full", 2, 0)      # 0 = every configuration on the default chain
    else:
        cases = gate_model(ctx, "Gate_quick.cfg", 600)
        gate_replay(ctx, cases, "quick", 1, 0)


def run(ctx, replay):
    thorough = ctx.tier == "thorough"
    ctx.cov["rule"] = ("behaviours = TLC-enumerated ipset lists (every ordered list of <= 2 entries, simulated "
                       "3-entry behaviours), each scaled to real IPv4/IPv6 at several bit offsets and replayed on "
                       "ipset.New/Contains against the naive scan; plus every terminal state of Gate.tla replayed on "
                       "the real accesslist/views handlers and the real default chain (the sentinel family -- sources at and "
                       "around 127.0.0.255 x source port x transport -- also on the running UDP / TCP listeners through real "
                       "sockets); plus TLC call orders of RateLimit.tla's chase / internal families on the real pipeline; "
                       "distinct = distinct (model list, placement) pairs, distinct gate outcomes and distinct call orders")
    ctx.assumptions += [
        "scaling a W-bit case to 32/128 bits preserves membership (window at a bit offset, fixed base above, noise below); "
        "the model answer is cross-checked against the naive scan on every probe",
        "IPv4-mapped *prefix entries* (::ffff:a.b.c.d/n) carry no verdict: netip and net.IPNet disagree on them",
        "transports are represented by udp/tcp/doh/doq writer doubles with a chosen RemoteAddr; the owned strict "
        "transport job (server.strictSlots) is not driven by the main family, its chain entry (ResetWire on a parsed wire "
        "request) is; the sentinel family also goes through the running UDP and TCP listeners (DoT / DoH / DoQ listeners "
        "are not started: their peers are *net.TCPAddr / *net.UDPAddr like the plain ones)",
        "a peer 127.0.0.255 with source port 0 on a writer double is the legacy convention for an internal writer and is "
        "not judged; on a real UDP socket (raw socket) it is a client",
    ]
    # the RateLimit tier's shims (per-entry limiter of the cache, strict transport job) ride along
    ctx.overlay_tags.add("x06rl")
    if replay:
        return run_replay(ctx, replay)
    # four independent parts, side by side (each is mostly waiting for TLC / go test subprocesses):
    #   ipset      IpSet.tla, the membership half
    #   gate       Gate.tla main family: access lists x views x sources x births
    #   sentinel   Gate.tla sentinel family (gap C17-r3-2): sources at and around 127.0.0.255 x port x transport, also on real sockets
    #   ratelimit  RateLimit.tla chase / internal families (gap C17-r3-1): internal sub-queries and the cache's per-entry limiter
    only = os.environ.get("VERIF_C17_ONLY", "")      # one part only (development)
    parts = [("ipset", lambda: ipset(ctx, thorough)), ("gate", lambda: gate(ctx, thorough)),
             ("sentinel", lambda: gate_sentinel(ctx, thorough)), ("ratelimit", lambda: x06rl.run_c17_tier(ctx))]
    ctx.harness_prepare()
    ctx.overlay_file()
    x06rl.parallel([f for name, f in parts if only in ("", name)], width=4)


def run_replay(ctx, path):
    with open(path) as f:
        rec = json.load(f)
    rp = rec.get("replay", rec)
    kind = rp.get("kind")
    if kind is None and rp.get("steps") and str(rp.get("driver", "")).startswith("pipeline"):
        # recorded by the RateLimit part (checks/x06rl.py): a call order on the real pipeline; its small model instances
        # (the chase family and the two mutants) are re-checked alongside
        x06rl.C17_ONLY = True
        ctx.tlc("RateLimit", "MC_RateLimit.tla", "MC_ChaseQ.cfg", workers=2, timeout=300, heap="2g")
        return x06rl.run(ctx, path)
    # the model instance the recorded case belongs to, re-checked (small bounds) alongside the re-run
    if kind == "ipset":
        ctx.tlc("IpSet", "IpSet.tla", "MC_W4_L1.cfg", workers=2, timeout=300, heap="4g")
    elif kind == "gate" and (rp.get("level") == "sockets" or "127.0.0." in str(rp.get("req", {}).get("src", ""))):
        ctx.tlc("IpSet", "MC_Gate.tla", "GateSent_eph.cfg", workers=2, timeout=300, heap="4g")    # the sentinel family
    elif kind == "gate":
        ctx.tlc("IpSet", "MC_Gate.tla", "Gate_tiny.cfg", workers=2, timeout=300, heap="4g")
    if kind == "ipset":
        res = ctx.go_driver("./c17", "TestIpSetOne", rp, name="replay_ipset", timeout=300)
    elif kind == "gate":
        res = ctx.go_driver("./c17", "TestGateOne", rp, name="replay_gate", timeout=300)
    else:
        raise vf.MachineryError("unknown replay kind %r" % kind)
    ctx.take_driver_result(res, "[replay] ")
    ctx._distinct.add("replay-file:" + os.path.basename(path))
    ctx.sample({"replayed": os.path.basename(path), "kind": kind, "what": rec.get("what", "")[:300]})
    if res.get("skipped"):
        raise vf.MachineryError("replay skipped: %s" % res["skipped"][:3])
