"""C11, engine tier -- exactly one reply per admitted query, in time, whatever upstreams do.

UpFault.tla enumerates per-server fault scripts over a 2-server zone (10 faults x 2 scripted
attempts x 2 servers = 10^4 scripts) and checks the client contract on an abstract resolver
(exactly one reply, <= querytimeout + margin, eventually).  Sampled scripts (TLC -simulate) are
played by authkit servers (server.SetHook) against the REAL full pipeline on real loopback
UDP + TCP sockets: duplicate and distinct queries in flight, clients that disconnect; oracle =
one reply, never two, own id/question, truth or SERVFAIL, within querytimeout (2 s) + margin
(1.5 s); afterwards Quiesced, slabs/tokens home, resolver limiter slots released, goroutines back,
and the server still resolves a full wave of honest queries.

run_engine(ctx) is what checks/c11.py calls; checks/c11e.py runs it alone (`bin/check C11E`).
"""
import json
import os

import vf

QUERY_TIMEOUT_MS = 2000
MARGIN_MS = 1500      # generous on purpose: the machine may be heavily loaded; a timing oracle must never flake
UP_TIMEOUT_MS = 600


def sample_scripts(ctx, num):
    behs = ctx.tlc_behaviours("UpFault", "MC_UpFault.tla", "Sim_UpFault.cfg", num=num, depth=2, timeout=600)
    seen, out = set(), []
    for b in behs:
        sc = b[0][1]["script"]
        a, bb = sc["A"], sc["B"]
        key = ",".join(a) + "|" + ",".join(bb)
        if key in seen:
            continue
        seen.add(key)
        out.append({"A": list(a), "B": list(bb)})
    return out


def have_hook():
    try:
        with open(os.path.join(vf.REPO, "server", "udp_engine.go")) as f:
            return "verifTraceUDP(" in f.read() and os.path.exists(os.path.join(vf.REPO, "server", "verif_trace_on.go"))
    except OSError:
        return False


def run_faults(ctx, inp, name, hook):
    """go_driver with the `c10hook` build tag when the UDP engine trace hook is in the tree."""
    fin = os.path.join(ctx.scratch, "%s.in.json" % name)
    fout = os.path.join(ctx.scratch, "%s.out.json" % name)
    with open(fin, "w") as f:
        json.dump(inp, f)
    if os.path.exists(fout):
        os.remove(fout)
    extra = ["-tags", "verif c10hook"] if hook else []
    rc, out = ctx.go_test("./c11eng", "^TestFaultScripts$", env={"VERIF_IN": fin, "VERIF_OUT": fout,
                                                                 "VERIF_SCRATCH": ctx.scratch},
                          timeout=1500, extra_args=extra)
    if not os.path.exists(fout):
        raise vf.MachineryError("fault-script driver produced no result (rc=%d)\n%s" % (rc, "\n".join(out.splitlines()[-60:])))
    with open(fout) as f:
        res = json.load(f)
    if rc != 0 and not res.get("violations"):
        raise vf.MachineryError("fault-script driver failed rc=%d without a violation\n%s" % (rc, "\n".join(out.splitlines()[-60:])))
    return res


def run_engine(ctx):
    thorough = ctx.tier == "thorough"
    hook = have_hook()
    ctx.assumptions.append(
        "UDP engine trace hook %s: an unanswered UDP query is a violation %s" % (
            ("present", "iff the engine read it and released its slab without a send (datagrams lost in transit are not "
                        "the server's)") if hook else
            ("absent", "only when no drop was recorded anywhere on the machine during the run (conservative)")))
    # the C10 overlay shim (engine stats, plan tuning) is shared with this tier
    if "c10" not in ctx.overlay_tags:
        ctx.overlay_tags.add("c10")
        ov = os.path.join(ctx.scratch, "overlay.json")
        if os.path.exists(ov):
            os.remove(ov)
    ctx.assumptions += [
        "C11 engine tier: a query counts as admitted when it is well-formed and the ingress did not shed it "
        "(generous slab headroom is configured so nothing is shed); timing oracle = querytimeout 2 s + margin 1.5 s",
        "upstream REFUSED/SERVFAIL relayed as another rcode than SERVFAIL is drift, not a violation",
    ]
    ctx.tlc("UpFault", "MC_UpFault.tla", "MC_UpFault.cfg", workers=4, timeout=1800, heap="6g")
    scripts = sample_scripts(ctx, 260 if not thorough else 5200)
    scripts = scripts[:200 if not thorough else 5000]
    # always include the all-honest and the all-dead corner
    corner = [{"A": ["answer", "answer"], "B": ["answer", "answer"]},
              {"A": ["drop", "drop"], "B": ["drop", "drop"]},
              {"A": ["tcStall", "tcStall"], "B": ["tcReset", "tcReset"]},
              {"A": ["wrongId", "wrongQuestion"], "B": ["garbage", "delay"]}]
    scripts = corner + scripts
    if len(scripts) < 50:
        raise vf.MachineryError("UpFault produced only %d scripts" % len(scripts))
    chunk = 120 if not thorough else 400
    total = {"scripts": 0}
    for k in range(0, len(scripts), chunk):
        part = scripts[k:k + chunk]
        inp = {"scripts": part, "queryTimeoutMs": QUERY_TIMEOUT_MS, "marginMs": MARGIN_MS, "upTimeoutMs": UP_TIMEOUT_MS,
               "batch": 30, "workers": 2, "queue": 1, "maxConcurrent": 256, "load": 0}
        res = run_faults(ctx, inp, "faults_%d" % k, hook)
        ctx.take_driver_result(res, "[C11 engine] ")
        c = res.get("counters", {})
        if res.get("skipped"):
            raise vf.MachineryError("fault-script driver skipped: %s" % res["skipped"][:3])
        if c.get("queries_observed", 0) < 3 * len(part):
            raise vf.MachineryError("fault-script driver observed only %d queries for %d scripts"
                                    % (c.get("queries_observed", 0), len(part)))
        total["scripts"] += len(part)
        for kk, v in c.items():
            if kk == "worst_reply_ms":
                total[kk] = max(total.get(kk, 0), v)
            else:
                total[kk] = total.get(kk, 0) + v
        ctx.log("fault scripts %d..%d: observed=%d worst=%dms rcodes=%s after_ok=%s drift=%d" % (
            k, k + len(part), c.get("queries_observed", 0), c.get("worst_reply_ms", 0),
            {x[6:]: c[x] for x in c if x.startswith("rcode_")}, c.get("after_probes_ok"), res.get("drift", 0)))
    total["drift_notes"] = []
    ctx.cov["replay"]["c11_engine_faults"] = total
    ctx.cov["traces_validated_against_impl"] += total["scripts"]
