"""C18 -- blocklist matching is exact and its persisted form converges to memory.

BlMatch.tla    the statement (Blocked) against a transcription of BlockList.Exists
               (CodeBlocked) for every bounded triple of lists and every query name:
               TLC exhaustive; the full state graph of the small configuration and
               simulated API histories of the large one are replayed on the real
               BlockList (Exists and ServeDNS, several concretisations of the labels).
BlPersist.tla  Set/Remove/SetBatch/RemoveBatch = MutateAndSnapshot ; persist steps, with
               crash points: TLC exhaustive; every edge of the 2-writer state graphs and
               simulated 3-writer schedules are forced on the real goroutines through the
               persist gate hook; recorded executions are validated by Trace_BlPersist.tla.
BlRefresh.tla  the surroundings of a persist: New()'s background refresh at every point of it (also between
               CreateTemp and Rename), the directory, the loader, I/O faults after CreateTemp (checks/x18f.py).
Stress         free-running concurrent API traffic (real HTTP API when it can listen),
               end state must satisfy Converged.
"""
import itertools
import os
import random
import re

import vf
import x18f
import x18q

SHAPES = [
    # label-boundary near-misses: "notexample.com." ends with the bytes of "example.com."
    {"a": "example", "b": "notexample", "c": "com", "z": "deep.sub"},
    # every label a suffix/prefix of the others
    {"a": "x", "b": "xx", "c": "xxx", "z": "x-x.xxxx.x0"},
    # prefix near-misses and digits/hyphens
    {"a": "co", "b": "com", "c": "uk-1", "z": "www"},
]

PROPERTY_INVARIANTS = {"DiskIsASnapshot", "ConvergedFile", "NewestWins"}

PERSIST_ENTRIES = {
    "E1": {"k": "p", "n": ["a", "c"]},
    "E2": {"k": "p", "n": ["b", "a", "c"]},
    "E3": {"k": "w", "n": ["a", "c"]},
    "E4": {"k": "p", "n": ["b", "c"]},
    "ER": {"k": "p", "n": ["a", "c", "c"]},
}
PERSIST_WL = [["c", "c"]]


def O(op, *keys):
    return {"op": op, "keys": list(keys)}


# must mirror tla/Blocklist/MC_Persist.tla
PERSIST_MODELS = {
    "W2": {"prog": {"1": [O("Set", "E1"), O("RemoveBatch", "E2", "E4")],
                    "2": [O("SetBatch", "E2", "E3", "ER"), O("Remove", "E1")]}, "init": []},
    "W2b": {"prog": {"1": [O("Remove", "E1"), O("Set", "E2")],
                     "2": [O("SetBatch", "E3", "E4"), O("RemoveBatch", "E3", "E1")]}, "init": ["E1", "E4"]},
    # must mirror tla/Blocklist/MC_Refresh.tla
    "R": {"prog": {"1": [O("Remove", "E1"), O("Set", "E2")],
                   "2": [O("SetBatch", "E3"), O("RemoveBatch", "E4")]}, "init": ["E1", "E4"]},
    # must mirror tla/Blocklist/MC_Refresh.tla MCProgF / MCInitF (a fresh install; a parent and its child both added)
    "F": {"prog": {"1": [O("Set", "E1")], "2": [O("SetBatch", "E2", "E3")]}, "init": [], "noDir": True},
    "W3": {"prog": {"1": [O("Set", "E1"), O("RemoveBatch", "E2", "E4")],
                    "2": [O("SetBatch", "E2", "E3", "ER"), O("Remove", "E1")],
                    "3": [O("Set", "ER"), O("Set", "E4"), O("Remove", "E3")]}, "init": []},
}


def names_up_to(labels, depth):
    out = [[]]
    for d in range(1, depth + 1):
        out += [list(t) for t in itertools.product(labels, repeat=d)]
    return out


def qnames(labels, depth):
    ns = names_up_to(labels, depth)
    return ns + [["z"] + n for n in ns]


def seqs(v):
    """TLC set of sequences -> sorted list of lists."""
    return sorted([list(x) for x in (v or [])])


def m_node(st):
    return {"m": seqs(st["m"]), "wild": seqs(st["wild"]), "w": seqs(st["w"]), "blk": seqs(st["blk"])}


LABEL_RE = re.compile(r"^(\w+)\((.*)\)$", re.S)


def m_call_from_label(lab):
    lab = lab.replace('\\"', '"').replace("\\\\", "\\")
    m = LABEL_RE.match(lab.strip())
    if not m:
        raise vf.MachineryError("cannot parse edge label %r" % lab)
    args = vf.unset(vf.parse_tla_value("<<" + m.group(2) + ">>"))
    op = m.group(1)
    if op in ("Set", "Remove"):
        return {"op": op, "k": args[0], "n": args[1]}
    if op == "Inject":
        return {"op": op, "l": args[0], "n": args[1]}
    if op in ("DropW", "Query"):
        return {"op": op, "n": args[0]}
    raise vf.MachineryError("unknown action in edge label %r" % lab)


def m_call_from_last(last):
    c = {"op": last["op"]}
    for k in ("k", "l", "n", "ret"):
        if k in last:
            c[k] = last[k]
    return c


def matcher(ctx, thorough):
    # ---- the model-level claim, exhaustively
    ctx.tlc("Blocklist", "BlMatch.tla", "MC_Match_D2q.cfg", workers=6, timeout=900, heap="6g")
    if thorough:
        ctx.tlc("Blocklist", "BlMatch.tla", "MC_Match_D2.cfg", workers=8, timeout=2400, heap="12g")
        ctx.tlc("Blocklist", "BlMatch.tla", "MC_Match_D3S1.cfg", workers=8, timeout=2400, heap="12g")
        ctx.tlc("Blocklist", "BlMatch.tla", "MC_Match_D3L2.cfg", workers=8, timeout=3000, heap="12g")
        ctx.tlc("Blocklist", "BlMatch.tla", "MC_Match_D3L2w.cfg", workers=8, timeout=3000, heap="12g")
    # ---- the case table: whole state graph of the small configuration
    r, nodes, edges, inits = ctx.tlc_graph("Blocklist", "BlMatch.tla", "MC_Match_D2S1.cfg",
                                           timeout=900, workers=4, heap="6g")
    gnodes = {k: m_node(v) for k, v in nodes.items()}
    gedges = []
    seen = set()
    for (s, d, lab) in edges:
        if lab.startswith("Query"):
            continue  # the driver asks every name in every state anyway
        if (s, d, lab) in seen:
            continue
        seen.add((s, d, lab))
        gedges.append({"s": s, "d": d, "c": m_call_from_label(lab)})
    if len(gnodes) != r.distinct:
        raise vf.MachineryError("graph dump has %d nodes, TLC reported %d" % (len(gnodes), r.distinct))
    ctx.log("BlMatch D2S1 graph: %d states, %d mutating edges" % (len(gnodes), len(gedges)))
    shapes = SHAPES if thorough else SHAPES[:2]
    inp = {"shapes": shapes, "qnames": qnames(["a", "b", "c"], 2), "nodes": gnodes, "edges": gedges,
           "behaviours": [], "serveEvery": 1}
    res = ctx.go_driver("./c18", "TestMatcherReplay", inp, name="match_graph", timeout=1500)
    ctx.take_driver_result(res, "[BlMatch graph] ")
    c = res.get("counters", {})
    ctx.cov["replay"]["matcher_graph"] = {
        "states": len(gnodes), "edges": len(gedges), "shapes": len(shapes), "replays": res["cases"],
        "exists_calls": c.get("exists_calls", 0), "servedns_calls": c.get("servedns_calls", 0),
        "drift": res["drift"], "drift_notes": res.get("drift_notes", [])}
    if not res.get("violations") and (c.get("exists_calls", 0) < len(gnodes) * 26 or c.get("servedns_calls", 0) == 0):
        raise vf.MachineryError("matcher graph replay was vacuous: %s" % c)
    # ---- API histories over the deep configuration
    behs = ctx.tlc_behaviours("Blocklist", "BlMatch.tla", "Sim_Match_D3.cfg",
                              num=400 if not thorough else 1500, depth=25, timeout=900)
    blist = []
    for b in behs:
        steps = []
        for (lab, st) in b[1:]:
            steps.append({"c": m_call_from_last(st["last"]), "node": m_node(st)})
        if steps:
            blist.append(steps)
            ctx._distinct.add("match-beh:" + ";".join("%s%s" % (s["c"]["op"], s["c"].get("n")) for s in steps))
    inp = {"shapes": shapes, "qnames": qnames(["a", "b", "c"], 3), "nodes": {}, "edges": [],
           "behaviours": blist, "serveEvery": 5}
    res = ctx.go_driver("./c18", "TestMatcherReplay", inp, name="match_sim", timeout=1500)
    ctx.take_driver_result(res, "[BlMatch histories] ")
    c = res.get("counters", {})
    ctx.cov["replay"]["matcher_histories"] = {
        "behaviours": len(blist), "steps": c.get("behaviour_steps", 0), "shapes": len(shapes),
        "exists_calls": c.get("exists_calls", 0), "servedns_calls": c.get("servedns_calls", 0),
        "drift": res["drift"], "drift_notes": res.get("drift_notes", [])}
    if not res.get("violations") and c.get("behaviour_steps", 0) == 0:
        raise vf.MachineryError("matcher history replay was vacuous")


def persist_schedules(ctx, model, scheds, tag, validate=True):
    """Force the schedules on the real BlockList, then validate the recorded trace."""
    pm = PERSIST_MODELS[model]
    trace = os.path.join(ctx.scratch, "persist_%s_%s.ndjson" % (model, tag))
    inp = {"entries": PERSIST_ENTRIES, "wl": PERSIST_WL, "initMem": pm["init"], "prog": pm["prog"],
           "shape": SHAPES[0], "universe": qnames(["a", "b", "c"], 3), "schedules": scheds,
           "traceOut": trace, "strictDir": True, "model": model, "noDir": bool(pm.get("noDir"))}
    res = ctx.go_driver("./c18", "TestPersistSchedules", inp, name="persist_%s_%s" % (model, tag), timeout=1500)
    ctx.take_driver_result(res, "[BlPersist %s %s] " % (model, tag))
    if res.get("skipped"):
        raise vf.MachineryError("persist schedule replay stalled: %s" % res["skipped"][:3])
    c = res.get("counters", {})
    info = {"schedules": len(scheds), "steps": c.get("steps", 0), "steps_not_enabled": c.get("steps_not_enabled", 0),
            "events": c.get("events", 0), "crash_points": c.get("crashes", 0),
            "crash_dir_reload_differs": c.get("crash_dir_reload_differs", 0),
            "stale_temp_resurrects_removed_entry": c.get("stale_temp_resurrects_removed_entry", 0),
            "reload_dropped_subsumed": c.get("reload_dropped_subsumed", 0),
            "tainted_retries": c.get("tainted_retries", 0),
            "drift": res["drift"], "drift_notes": res.get("drift_notes", [])}
    # X18F (checks/x18f.py): the real refresh timer waited for, injected I/O faults
    for k in ("refresh_steps", "fault_vanish", "fault_write", "fault_left_file_behind_memory"):
        if c.get(k):
            info[k] = c[k]
    if not res.get("violations") and (c.get("steps", 0) == 0 or res["cases"] == 0):
        raise vf.MachineryError("persist schedule replay was vacuous: %s" % c)
    if not validate:
        ctx.cov["replay"]["persist_%s_%s" % (model, tag)] = info
        return info
    # code -> spec
    nlines = sum(1 for _ in open(trace))
    ok, r = ctx.tlc_trace("Blocklist", "Trace_BlPersist.tla", "Trace_BlPersist_%s.cfg" % model, trace, timeout=1500)
    info["trace_lines"] = nlines
    info["trace_matched"] = max(0, r.depth - 1)
    m = re.search(r'"C18DRIFT", (\d+)', r.out)
    if r.violated and r.violated in PROPERTY_INVARIANTS:
        lines = open(trace).read().splitlines()[: r.depth + 1]
        ctx.violation("persist/%s/trace/%s" % (model, r.violated),
                      "[BlPersist %s] invariant %s is false on a recorded execution of BlockList "
                      "(trace line %d)" % (model, r.violated, r.depth),
                      {"driver": "persist", "model": model, "schedule": schedule_of_trace(lines), "prog": pm["prog"],
                       "initMem": pm["init"], "shape": SHAPES[0], "trace_prefix": lines[-40:]})
    elif not ok:
        if res.get("violations"):
            ctx.log("trace rejected after %d of %d lines (driver already reported a violation)" % (r.depth - 1, nlines))
        else:
            ctx.cov["drift"] += 1
            ctx.log("DRIFT: recorded execution not explained by BlPersist.tla after %d of %d lines (%s); "
                    "no property predicate failed" % (r.depth - 1, nlines, r.violated))
            info["trace_rejected_tail"] = r.out.splitlines()[-15:]
    else:
        if m is None:
            raise vf.MachineryError("trace spec did not report its drift counter")
        info["trace_steps_outside_model"] = int(m.group(1))
        if int(m.group(1)):
            ctx.cov["drift"] += int(m.group(1))
            ctx.log("DRIFT: %s recorded steps are not steps of BlPersist.tla (no predicate failed)" % m.group(1))
        ctx.cov["traces_validated_against_impl"] += len(scheds)
    ctx.cov["replay"]["persist_%s_%s" % (model, tag)] = info
    return info


def schedule_of_trace(lines):
    """The forced schedule behind the last run of a recorded trace prefix (re-executable)."""
    import json
    sched = []
    for ln in lines:
        e = json.loads(ln)
        if e["ev"] == "Reset":
            sched = []
        elif e["ev"] == "crash":
            sched.append("Crash")
        else:
            sched.append("Step(%d)" % e["p"])
    return sched


def labels_of(path):
    return [e[2].replace('\\"', '"') for e in path]


def persist(ctx, thorough):
    crash_seen = 0
    for model in ("W2", "W2b"):
        r, nodes, edges, inits = ctx.tlc_graph("Blocklist", "MC_Persist.tla", "MC_Persist_%s.cfg" % model,
                                               timeout=900, workers=4, heap="6g")
        uniq = sorted(set(edges))
        paths = vf.cover_paths(nodes, uniq, inits, max_len=80)
        covered = set()
        for p in paths:
            covered.update(p)
        if len(covered) != len(uniq):
            raise vf.MachineryError("edge cover incomplete: %d of %d" % (len(covered), len(uniq)))
        scheds = [labels_of(p) for p in paths]
        crash_seen += sum(1 for s in scheds if s and s[-1].startswith("Crash"))
        for e in uniq:
            ctx._distinct.add("persist-edge:%s:%s:%s:%s" % ((model,) + e))
        ctx.log("BlPersist %s: %d states, %d labelled edges, %d covering schedules" % (model, len(nodes), len(uniq), len(scheds)))
        info = persist_schedules(ctx, model, scheds, "graph")
        info["edges_covered"] = len(uniq)
    if crash_seen == 0:
        raise vf.MachineryError("no schedule contains a crash point")
    # three writers: exhaustive on the model (thorough), sampled schedules on the code
    if thorough:
        ctx.tlc("Blocklist", "MC_Persist.tla", "MC_Persist_W3.cfg", workers=8, timeout=3000, heap="12g")
    # Crash is terminal in the model and enabled everywhere, so random simulation would
    # cut most walks short: simulate without it, then end a share of the walks with a
    # Crash at a (seeded) random point -- every prefix of a behaviour followed by Crash
    # is a behaviour of BlPersist with MaxCrash = 1.
    behs = ctx.tlc_behaviours("Blocklist", "MC_Persist.tla", "Sim_Persist_W3.cfg",
                              num=150 if not thorough else 1000, depth=70, timeout=900)
    rng = random.Random(ctx.seed)
    seen, scheds = set(), []
    for b in behs:
        sched = []
        for i in range(1, len(b)):
            sched.append(step_label(b[i - 1][1], b[i][1], b[i][0]))
        if sched and rng.random() < 0.6:
            sched = sched[:rng.randrange(1, len(sched) + 1)] + ["Crash"]
        k = ";".join(sched)
        if k not in seen:
            seen.add(k)
            scheds.append(sched)
            ctx._distinct.add("persist-sim:" + k)
    persist_schedules(ctx, "W3", scheds, "sim")
    # the adjacent weakness stays visible: TLC must refute DirReloadIsASnapshot on the model
    r = ctx.tlc("Blocklist", "MC_Persist.tla", "MC_Persist_DirReload.cfg", workers=4, timeout=600, heap="4g",
                must_pass=False, count=False, tag="expected-refutation")
    ctx.cov["replay"]["adjacent_dir_reload"] = {
        "model_refutes_DirReloadIsASnapshot": r.violated == "DirReloadIsASnapshot",
        "note": "not a C18 predicate: a restart walks the whole directory and loads the temp file an "
                "interrupted persist left behind (local.tmp.* is never removed); see crash_dir_reload_differs"}


def refresh_stage(ctx, thorough):
    """BlRefresh.tla: New()'s background re-read of the directory (one second after construction) interleaved with
    API calls.  The repaired behaviour (the re-read leaves `local` alone) satisfies Converged; the as-built one
    (`local` parsed like any other list) must fail it on the model.  Schedules with the Refresh step at
    TLC-chosen points are executed with the REAL timer-driven refresh of the BlockList under test."""
    ctx.tlc("Blocklist", "MC_Refresh.tla", "MC_Refresh_skipLocal.cfg", workers=4, timeout=900, heap="4g")
    r = ctx.tlc("Blocklist", "MC_Refresh.tla", "MC_Refresh_rereadLocal.cfg", workers=4, timeout=900, heap="4g",
                must_pass=False, count=False, tag="as-built-must-fail")
    if r.violated != "Converged":
        raise vf.MachineryError("MC_Refresh_rereadLocal: expected Converged to fail on the as-built model, got %r" % r.violated)
    def labels(b):
        sched = []
        for i in range(1, len(b)):
            if b[i][1].get("refreshed") != b[i - 1][1].get("refreshed"):
                sched.append("Refresh")
            else:
                sched.append(step_label(b[i - 1][1], b[i][1], "Step"))
        return sched
    seen, scheds = set(), []
    # TLC's own shortest history from the as-built model to a quiescent state where `local` and memory differ:
    # the last removal is in memory, the file still lists the entry, the re-read merges it back, the removal's
    # snapshot (taken before) is what reaches the file
    parts = re.split(r"\nState (\d+): <(.*?)>\n", r.out)
    cex = [(parts[i + 1], vf.parse_tla_state(parts[i + 2].split("\n\n")[0])) for i in range(1, len(parts) - 2, 3)]
    if len(cex) < 3:
        raise vf.MachineryError("could not read the counter-example of MC_Refresh_rereadLocal")
    scheds.append(labels(cex))
    if "Refresh" not in scheds[0]:
        raise vf.MachineryError("the as-built counter-example has no Refresh step: %s" % scheds[0])
    # the shortest history in which the re-read touches memory at all
    scheds.append(["Step(1)", "Refresh"])
    behs = ctx.tlc_behaviours("Blocklist", "MC_Refresh.tla", "Sim_Refresh.cfg", num=120 if not thorough else 600, depth=60, timeout=600)
    for sc in scheds:
        seen.add(";".join(sc))
    for b in behs:
        sched = labels(b)
        if "Refresh" not in sched:
            continue
        k = ";".join(sched)
        if k not in seen:
            seen.add(k)
            scheds.append(sched)
    scheds = scheds[:10 if not thorough else 60]      # each one waits out the real one-second timer
    for sc in scheds:
        ctx._distinct.add("persist-refresh:" + ";".join(sc))
    info = persist_schedules(ctx, "R", scheds, "refresh", validate=False)
    if info.get("steps", 0) == 0:
        raise vf.MachineryError("refresh schedules did not run")


def fresh_stage(ctx, thorough):
    """BlRefresh.tla with the directory and the loader as dimensions: a fresh install (no blocklist directory when New()
    runs; refreshRemote creates it a second later) and a list holding a parent and its child.  The repaired behaviour
    (persist creates the missing directory; the loader takes every line of `local`) satisfies Converged and
    ReloadsExactly; each as-built variant must fail its invariant on the model, and TLC's counter-examples run on the
    real BlockList."""
    ctx.tlc("Blocklist", "MC_Refresh.tla", "MC_Fresh_fixed.cfg", workers=2, timeout=600, heap="3g")
    scheds, seen = [], set()

    def labels(b):
        out = []
        for i in range(1, len(b)):
            if b[i][1].get("refreshed") != b[i - 1][1].get("refreshed"):
                out.append("Refresh")
            else:
                out.append(step_label(b[i - 1][1], b[i][1], "Step"))
        return out
    for cfg, inv in (("MC_Fresh_asbuilt.cfg", "Converged"), ("MC_Exact_asbuilt.cfg", "ReloadsExactly")):
        r = ctx.tlc("Blocklist", "MC_Refresh.tla", cfg, workers=2, timeout=600, heap="3g", must_pass=False, count=False,
                    tag="as-built-must-fail")
        if r.violated != inv:
            raise vf.MachineryError("%s: expected %s to fail on the as-built model, got %r" % (cfg, inv, r.violated))
        parts = re.split(r"\nState (\d+): <(.*?)>\n", r.out)
        cex = [(parts[i + 1], vf.parse_tla_state(parts[i + 2].split("\n\n")[0])) for i in range(1, len(parts) - 2, 3)]
        if len(cex) < 3:
            raise vf.MachineryError("could not read the counter-example of %s" % cfg)
        scheds.append(labels(cex))
    behs = ctx.tlc_behaviours("Blocklist", "MC_Refresh.tla", "Sim_Fresh.cfg", num=60 if not thorough else 400, depth=40, timeout=600)
    for sc in scheds:
        seen.add(";".join(sc))
    nref = 0
    for b in behs:
        sc = labels(b)
        k = ";".join(sc)
        if k in seen:
            continue
        if "Refresh" in sc:
            if nref >= (4 if not thorough else 30):      # each one waits out the real one-second timer
                continue
            nref += 1
        seen.add(k)
        scheds.append(sc)
    scheds = scheds[:40 if not thorough else 300]
    for sc in scheds:
        ctx._distinct.add("persist-fresh:" + ";".join(sc))
    info = persist_schedules(ctx, "F", scheds, "fresh", validate=False)
    if info.get("steps", 0) == 0:
        raise vf.MachineryError("fresh-install schedules did not run")


def step_label(prev, cur, action):
    """Which writer moved between two BlPersist states (Crash moves none)."""
    if action.startswith("Crash") or cur.get("crashed", 0) != prev.get("crashed", 0):
        return "Crash"
    for i, (a, b) in enumerate(zip(seq_list(prev["pc"]), seq_list(cur["pc"]))):
        if a != b or seq_list(prev["opi"])[i] != seq_list(cur["opi"])[i]:
            return "%s(%d)" % (action.split("(")[0], i + 1)
    # WriteLine keeps pc: the holder moved
    if cur["tmp"] != prev["tmp"]:
        return "%s(%d)" % (action.split("(")[0], cur["holder"])
    raise vf.MachineryError("cannot tell which writer stepped: %s" % action)


def seq_list(v):
    if isinstance(v, list):
        return v
    return [v[k] for k in sorted(v, key=lambda x: int(x))]


def stress(ctx, thorough):
    inp = {"shape": SHAPES[0], "universe": qnames(["a", "b", "c"], 3),
           "rounds": 6 if not thorough else 25, "goroutines": 6, "ops": 60 if not thorough else 150,
           "whitelist": [["c", "c"]]}
    res = ctx.go_driver("./c18", "TestPersistStress", inp, name="stress", timeout=1500)
    ctx.take_driver_result(res, "[stress] ")
    if res.get("skipped"):
        raise vf.MachineryError("stress run stalled: %s" % res["skipped"][:3])
    c = res.get("counters", {})
    ctx.cov["replay"]["stress"] = {"rounds": res["cases"], "api_calls": c.get("api_calls", 0),
                                   "over_http": c.get("over_http", 0), "snapshots": c.get("snapshots", 0),
                                   "persist_skipped": c.get("persist_skipped", 0),
                                   "drift": res["drift"], "drift_notes": res.get("drift_notes", [])}
    if not res.get("violations") and c.get("api_calls", 0) == 0:
        raise vf.MachineryError("stress run was vacuous")
    ctx.cov["traces_validated_against_impl"] += res["cases"]


def do_replay(ctx, path):
    """bin/check C18 --replay <file>: re-run exactly the recorded case."""
    import json
    with open(path) as f:
        rec = json.load(f)
    rp = rec.get("replay", {})
    drv = rp.get("driver")
    ctx.seed = rec.get("seed", ctx.seed)
    if drv == "queue":
        x18q.replay_file(ctx, path)
        return
    # the model the case came from is re-checked first (evidence: states/transitions)
    if drv == "matcher":
        ctx.tlc("Blocklist", "BlMatch.tla", "MC_Match_D2S1.cfg", workers=4, timeout=900, heap="6g")
    else:
        ctx.tlc("Blocklist", "MC_Persist.tla", "MC_Persist_W2.cfg", workers=4, timeout=900, heap="6g")
    if drv == "matcher":
        model = rp.get("model") or {}
        inp = {"shapes": [rp["shape"]], "qnames": qnames(["a", "b", "c"], 3), "nodes": model.get("nodes", {}),
               "edges": model.get("edges", []), "behaviours": model.get("behaviours", []), "serveEvery": 1}
        res = ctx.go_driver("./c18", "TestMatcherReplay", inp, name="replay_match", timeout=900)
        ctx.take_driver_result(res, "[replay matcher] ")
    elif drv == "persist":
        model = [k for k, v in PERSIST_MODELS.items() if v["prog"] == rp.get("prog")]
        inp = {"entries": PERSIST_ENTRIES, "wl": PERSIST_WL, "initMem": rp.get("initMem") or [], "prog": rp["prog"],
               "shape": rp["shape"], "universe": qnames(["a", "b", "c"], 3), "schedules": [rp["schedule"]],
               "traceOut": os.path.join(ctx.scratch, "replay.ndjson"), "strictDir": True,
               "model": model[0] if model else "replay"}
        res = ctx.go_driver("./c18", "TestPersistSchedules", inp, name="replay_persist", timeout=900)
        ctx.take_driver_result(res, "[replay persist %s] " % (model[0] if model else "?"))
    elif drv == "stress":
        stress(ctx, ctx.tier == "thorough")
    else:
        raise vf.MachineryError("replay file has no known driver: %r" % drv)
    ctx.cov["rule"] = "replay of %s" % path
    ctx.sample({"replayed": path, "driver": drv})
    ctx._distinct.update(["replay", path])


def run(ctx, replay):
    if replay:
        gate = os.path.join(vf.REPO, "middleware", "blocklist", "verif_gate_on.go")
        if not os.path.exists(gate):
            raise vf.MachineryError("the persist gate hook is not in %s" % vf.REPO)
        return do_replay(ctx, replay)
    thorough = ctx.tier == "thorough"
    ctx.cov["rule"] = ("matcher: every state of the TLC graph of BlMatch (D2S1) x every query name x shapes, every "
                       "mutating edge, plus simulated API histories (D3); persistence: every labelled edge of the "
                       "2-writer BlPersist graphs (covering schedules, crash points included) and simulated 3-writer "
                       "schedules forced through the gate hook; distinct = distinct states/edges/histories/schedules")
    ctx.assumptions += [
        "list entries are never the root and contain no escaped dots (DESIGN 9)",
        "labels are concretised as LDH strings; case is randomised per call",
        "reload equivalence is extensional (answers over the name universe) plus 'only covered entries dropped' (DESIGN 9)",
        "crash = the directory as it is at a gate, loaded by a fresh BlockList; CrashLeavesSnapshot is judged on the file "
        "`local` (the statement's subject); loading the leftover temp file too is reported as an adjacent finding, not a verdict",
        "New()'s one-shot background refresh (1 s) is kept out of the schedules (runs that outlive it are repeated)",
    ]
    gate = os.path.join(vf.REPO, "middleware", "blocklist", "verif_gate_on.go")
    if not os.path.exists(gate):
        raise vf.MachineryError("the persist gate hook is not in %s (apply /verif/hooks/c18_blocklist_gate.patch)" % vf.REPO)
    matcher(ctx, thorough)
    persist(ctx, thorough)
    refresh_stage(ctx, thorough)
    fresh_stage(ctx, thorough)
    # what the surroundings do to a persist in flight (BlRefresh.tla: the refresh of the running instance between
    # CreateTemp and Rename, I/O faults after CreateTemp): checks/x18f.py
    x18f.run_tier(ctx)
    # writers really waiting on saveMu (BlQueue.tla): which waiter gets the lock is the code's choice
    x18q.run_tier(ctx)
    stress(ctx, thorough)
