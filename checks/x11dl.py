"""X11DL (serves C11) -- the request deadline carried without a timer, and the lookup fan-out bounded by it.

LazyDeadline.tla    internal/contextutil.LazyDeadline (server.serveMsgBy, Chain.detachStrictContext)
InterruptGroup.tla  internal/dnsclient.InterruptGroup (resolver.lookup / exchange, Conn.ExchangeInterruptible)

  - TLC exhaustive: every atomic step of the code one action; goroutines interleave freely; four parent kinds;
    liveness under fairness in its own configs; negative configs (a guard switched off must violate a named property).
  - spec -> code: TLC-simulated behaviours of the Forced restriction are forced step by step on the real objects
    (gated parent context / gated connections are the seams), sequential call orders on the stdlib parents;
    the C11-bearing predicates are evaluated on what the code returned, the projection is compared with the model.
  - code -> spec: free-running concurrent stress; the recorded histories (one harness-side sequence number per
    invocation / response / touch) are validated by TLC against Trace_LazyDeadline / Trace_InterruptGroup and the
    predicates are evaluated directly on the histories.
  - end to end: a real LazyDeadline bounds a fan-out of ExchangeInterruptible calls on silent upstream sockets.

Verdicts: VIOLATION only when a predicate the C11 statement can bear is false on the real code (a query's context
must be terminal by deadline + margin and stay terminal, must not expire without cause, stragglers are interrupted,
a connection is never touched after its disarm returned, nothing of a released request survives); kind of error,
channel identity, number of holders, slot numbers, interruption after Close are compared with the model as drift.
"""
import json
import os
from concurrent.futures import ThreadPoolExecutor

import vf

MOD = "LazyDeadline"


def label_parts(lab):
    lab = lab.strip()
    if "(" not in lab:
        return lab, []
    name, rest = lab.split("(", 1)
    return name, [a.strip().strip('"') for a in rest.rstrip(")").split(",")]


def seq(v, n):
    """TLC function over 1..n (printed as a sequence or as a function) -> list."""
    if isinstance(v, list):
        return list(v)
    return [v.get(i, v.get(str(i))) for i in range(1, n + 1)]


# ---------------------------------------------------------------------------------------------------
# small TLC jobs side by side (each is a second or two of JVM start-up; three light jobs at a time)
# ---------------------------------------------------------------------------------------------------
def par(jobs, width=3):
    out = [None] * len(jobs)
    with ThreadPoolExecutor(max_workers=width) as ex:
        futs = {ex.submit(j): i for i, j in enumerate(jobs)}
        err = None
        for f, i in futs.items():
            try:
                out[i] = f.result()
            except Exception as e:  # first failure wins, the others still finish
                err = err or e
        if err:
            raise err
    return out


# ---------------------------------------------------------------------------------------------------
# model checking
# ---------------------------------------------------------------------------------------------------
LD_QUICK = ["MC_LD_Custom2.cfg", "MC_LD_Forced2.cfg", "MC_LD_Live2x1.cfg"]
LD_FULL = LD_QUICK + ["MC_LD_Deadline2.cfg", "MC_LD_Cancel3.cfg", "MC_LD_Live2.cfg", "MC_LD_Custom3.cfg", "MC_LD_None2.cfg", "MC_LD_Forced3.cfg", "MC_LD_LiveDeadline2.cfg", "MC_LD_Custom3x2.cfg",
                      "MC_LD_Cancel3x2.cfg", "MC_LD_Deadline3x2.cfg"]
IG_QUICK = ["MC_IG_3x2.cfg", "MC_IG_Live3.cfg"]
IG_FULL = IG_QUICK + ["MC_IG_Forced3.cfg", "MC_IG_3x3.cfg", "MC_IG_4x2.cfg"]
NEG_QUICK = [("MC_LazyDeadline.tla", "MC_LD_NegNoRecheck.cfg", "ArmOnce"),
             ("MC_InterruptGroup.tla", "MC_IG_NegDisarmNoLock.cfg", "TouchOnlyArmed")]
NEG_FULL = NEG_QUICK + [("MC_LazyDeadline.tla", "MC_LD_NegNoRecheckLeak.cfg", "ReleaseLeavesNothing"),
                        ("MC_LazyDeadline.tla", "MC_LD_NegCancelSkips.cfg", "ReleaseCloses"),
                        ("MC_InterruptGroup.tla", "MC_IG_NegNoArmAfterFire.cfg", "FiredAllInterrupted")]
COV_CFGS = {"MC_LD_Custom2.cfg", "MC_IG_3x2.cfg"}


def mc_jobs(ctx, thorough):
    jobs = []

    def exhaustive(spec, cfg):
        def job():
            big = "3x2" in cfg or "4x2" in cfg
            args = ["-coverage", "1"] if cfg in COV_CFGS else []
            r = ctx.tlc(MOD, spec, cfg, workers=4 if big else 2, timeout=900, heap="6g" if big else "3g", tag="exhaustive", args=args)
            if cfg in COV_CFGS:
                zero = [a for a in r.zero_coverage() if a != "ParentExpire"]  # needs a deadline parent: its own configs
                if zero:
                    raise vf.MachineryError("actions never taken in %s: %s" % (cfg, zero))
        return job

    def negative(spec, cfg, want):
        def job():
            r = ctx.tlc(MOD, spec, cfg, workers=1, timeout=300, heap="2g", must_pass=False, tag="negative", count=False)
            if r.violated != want:
                raise vf.MachineryError("negative config %s did not violate %s (got %s)" % (cfg, want, r.violated))
        return job

    for cfg in (LD_FULL if thorough else LD_QUICK):
        jobs.append(exhaustive("MC_LazyDeadline.tla", cfg))
    for cfg in (IG_FULL if thorough else IG_QUICK):
        jobs.append(exhaustive("MC_InterruptGroup.tla", cfg))
    for spec, cfg, want in (NEG_FULL if thorough else NEG_QUICK):
        jobs.append(negative(spec, cfg, want))
    return jobs


# ---------------------------------------------------------------------------------------------------
# spec -> code: behaviours
# ---------------------------------------------------------------------------------------------------
def ld_post(st, n):
    hs = st["holders"] if isinstance(st["holders"], list) else []
    return {"pc": seq(st["pc"], n), "lastRes": seq(st["lastRes"], n), "state": st["state"], "active": st["active"],
            "herr": [h["err"] for h in hs], "now": st["now"], "parentErr": st["parentErr"], "mu": st["mu"]}


def ld_behaviour(beh, n, bid):
    steps = []
    for i in range(1, len(beh)):
        lab, post = beh[i]
        name, a = label_parts(lab)
        p = int(a[0]) if a and name not in ("TimerFire", "Propagate") else 0
        steps.append({"label": lab, "act": name, "p": p, "post": ld_post(post, n)})
    return {"id": bid, "steps": steps}


LD_PLAN = [("Forced", "custom", True, 200, 45), ("Seq_none", "none", False, 50, 40), ("Seq_cancel", "cancel", False, 80, 40),
           ("Seq_deadline", "deadline", False, 80, 40)]


def ld_sim_job(ctx, thorough, name, kind, gated, num, depth, runs, infos):
    def job():
        k = 12 if thorough else 1
        behs = ctx.tlc_behaviours(MOD, "MC_LazyDeadline.tla", "Sim_LD_%s.cfg" % name, num=num * k, depth=depth, timeout=900)
        uniq, acts = {}, {}
        for b in behs:
            if len(b) < 3:
                continue
            key = ";".join(x[0] for x in b[1:])
            if key in uniq:
                continue
            uniq[key] = ld_behaviour(b, 3, "%s-%d" % (name, len(uniq)))
            for st in uniq[key]["steps"]:
                acts[st["act"]] = acts.get(st["act"], 0) + 1
        need = ["DoneCall", "ErrCall", "CancelCall", "DeadlineCall", "DoneMat", "ErrParent", "CancelParent", "Tick"]
        if kind in ("custom", "cancel"):
            need += ["ParentCancel", "CancelMat"]
        if kind != "none":
            need += ["ErrMat"]
        miss = [a for a in need if not acts.get(a)]
        if len(uniq) < 20 or miss:
            raise vf.MachineryError("LazyDeadline replay %s: %d distinct behaviours, actions missing %s (vacuous)" % (name, len(uniq), miss))
        runs[name] = {"name": name, "parent": kind, "gated": gated, "procs": 3, "behaviours": list(uniq.values())}
        infos[name] = {"tlc_behaviours": len(behs), "distinct": len(uniq), "actions": acts}
    return job


IG_SLOTS, IG_PROCS = 8, 10


def ig_behaviour(beh, bid):
    steps = []
    for i in range(1, len(beh)):
        lab, st = beh[i]
        name, a = label_parts(lab)
        post = {"pc": seq(st["pc"], IG_PROCS), "slotOf": seq(st["slotOf"], IG_PROCS), "lastOk": seq(st["lastOk"], IG_PROCS),
                "hits": seq(st["hits"], IG_PROCS), "slots": seq(st["slots"], IG_SLOTS), "snap": seq(st["snap"], IG_SLOTS),
                "fidx": st["fidx"], "reg": st["reg"], "fired": st["fired"], "mu": st["mu"], "closed": st["closed"]}
        steps.append({"label": lab, "act": name, "p": int(a[0]) if a else 0, "post": post})
    return {"id": bid, "steps": steps}


def ig_sim_job(ctx, thorough, name, num, depth, out, infos):
    def job():
        k = 10 if thorough else 1
        behs = ctx.tlc_behaviours(MOD, "MC_InterruptGroup.tla", "Sim_IG_%s.cfg" % name, num=num * k, depth=depth, timeout=900)
        uniq, acts, refusals = {}, {}, 0
        for b in behs:
            if len(b) < 3:
                continue
            key = ";".join(x[0] for x in b[1:])
            if key in uniq:
                continue
            uniq[key] = ig_behaviour(b, "%s-%d" % (name, len(uniq)))
            for st in uniq[key]["steps"]:
                acts[st["act"]] = acts.get(st["act"], 0) + 1
                if st["act"] == "ArmLock" and st["post"]["pc"][st["p"] - 1] == "idle" and not st["post"]["lastOk"][st["p"] - 1]:
                    refusals += 1
        out[name] = list(uniq.values())
        infos[name] = {"tlc_behaviours": len(behs), "distinct": len(uniq), "actions": acts, "refusals": refusals}
    return job


# ---------------------------------------------------------------------------------------------------
# code -> spec: trace validation
# ---------------------------------------------------------------------------------------------------
MAX_TRACE_LINES = 12000  # TLC handles behaviours of at most 65535 states; silent steps are composed in


def split_trace(path):
    """Cut a concatenation of histories at Reset lines into files TLC can walk in one behaviour."""
    chunks, cur = [], []
    hist = []
    for ln in open(path):
        if ln.startswith('{"ev":"Reset"') and hist:
            if cur and len(cur) + len(hist) > MAX_TRACE_LINES:
                chunks.append(cur)
                cur = []
            cur += hist
            hist = []
        hist.append(ln)
    cur += hist
    if cur:
        chunks.append(cur)
    if len(chunks) <= 1:
        return [path]
    out = []
    for i, c in enumerate(chunks):
        fn = path.replace(".ndjson", "_%d.ndjson" % i)
        with open(fn, "w") as f:
            f.writelines(c)
        out.append(fn)
    return out


def validate_trace(ctx, spec, cfg, trace, what, info, counter):
    def job():
        lines = open(trace).read().splitlines()
        n = len(lines)
        info["trace_lines"] = info.get("trace_lines", 0) + n
        if n == 0:
            raise vf.MachineryError("%s: empty history" % what)
        ok, r = ctx.tlc_trace(MOD, spec, cfg, trace, timeout=900, deque=False)
        if ok:
            info["trace_states"] = info.get("trace_states", 0) + r.distinct
            counter.append(sum(1 for x in lines if x.startswith('{"ev":"Reset"')))
        elif r.violated and r.violated != "TraceAccepted":
            ctx.violation("x11dl/trace/%s/%s" % (cfg, r.violated),
                          "[%s] invariant %s is false on a recorded concurrent history of the real object" % (what, r.violated),
                          {"trace": lines[:400], "cfg": cfg})
        else:
            ctx.cov["drift"] += 1
            ctx.log("DRIFT: recorded history (%s) is not explained by the model; no property predicate failed" % what)
            info["trace_rejected_tail"] = r.out.splitlines()[-12:]
        return ok
    return job


def tamper(ctx, spec, cfg, trace, what, mutate):
    """binding: a corrupted history must be rejected"""
    lines = [json.loads(x) for x in open(trace)]
    if not mutate(lines):
        raise vf.MachineryError("tamper test (%s): nothing to corrupt in the history" % what)
    bad = trace.replace(".ndjson", "_tampered.ndjson")
    with open(bad, "w") as f:
        for ln in lines:
            f.write(json.dumps(ln) + "\n")
    ok, _ = ctx.tlc_trace(MOD, spec, cfg, bad, timeout=900, deque=False)
    if ok:
        raise vf.MachineryError("tamper test: %s accepted a corrupted history (%s): binding lost" % (spec, what))


def tamper_ld(lines):
    # a live answer after a terminal one
    seen = False
    for ln in lines:
        if ln.get("ev") == "Reset":
            seen = False
        if ln.get("ev") == "res" and ln.get("op") == "err":
            if ln["e"] != "nil":
                seen = True
            elif seen:
                return False
    seen = False
    for ln in lines:
        if ln.get("ev") == "Reset":
            seen = False
        if ln.get("ev") == "res" and ln.get("op") == "err" and ln["e"] != "nil":
            if seen:
                ln["e"] = "nil"
                return True
            seen = True
    return False


def tamper_ig(lines):
    # drop one interruption of the fire
    for i, ln in enumerate(lines):
        if ln.get("ev") == "touch" and not ln.get("arm"):
            del lines[i]
            return True
    return False


# ---------------------------------------------------------------------------------------------------
def run_tier(ctx):
    thorough = ctx.tier == "thorough"
    ctx.cov["rule"] = (ctx.cov.get("rule", "") + " | X11DL: behaviours = TLC-simulated forced schedules / call orders of "
                       "LazyDeadline.tla and InterruptGroup.tla replayed on the real objects (distinct = distinct step sequences) "
                       "+ concurrent histories validated against the trace specs + end-to-end fan-out scenarios").strip(" |")
    ctx.assumptions += [
        "X11DL: the code reads time.Now() directly; time is real (tens of ms) with a 4 s scheduling margin, steps the model "
        "places before the deadline only count when the wall clock agrees",
        "X11DL: only parent.Err()/parent.Deadline() (LazyDeadline) and Conn.SetDeadline (InterruptGroup) are seams; interleavings of "
        "the remaining atomics are exhausted by TLC and matched against recorded histories, not forced",
        "X11DL: the pin table / value provider of LazyDeadline are covered by Ledger.tla (C12), context.Cause is not modelled",
    ]
    ctx.spec_dir(MOD)
    # phase 1: model checking + behaviours for the replay
    ld_runs, ld_infos, ig_behs, ig_infos = {}, {}, {}, {}
    jobs = [ld_sim_job(ctx, thorough, n, k, g, num, d, ld_runs, ld_infos) for n, k, g, num, d in LD_PLAN]
    jobs += [ig_sim_job(ctx, thorough, "Forced", 120, 70, ig_behs, ig_infos), ig_sim_job(ctx, thorough, "Full", 60, 90, ig_behs, ig_infos)]
    jobs += mc_jobs(ctx, thorough)
    par(jobs)
    if ig_infos["Full"]["refusals"] == 0:
        raise vf.MachineryError("InterruptGroup replay: no behaviour fills the slot table (vacuous refusal)")
    need = ["ArmTouch", "FireTouch", "FireLock", "Close", "CtxCancel", "DisarmLock"]
    miss = [a for a in need if not (ig_infos["Forced"]["actions"].get(a) or ig_infos["Full"]["actions"].get(a))]
    if miss:
        raise vf.MachineryError("InterruptGroup replay: actions missing %s (vacuous)" % miss)

    # phase 2: one process drives the real objects
    kinds = ["custom", "cancel", "deadline"]
    rounds = 10 if not thorough else 120
    ld_traces = {k: os.path.join(ctx.scratch, "ld_%s.ndjson" % k) for k in kinds}
    ig_trace = os.path.join(ctx.scratch, "ig.ndjson")
    ig_all = ig_behs["Forced"] + ig_behs["Full"]
    inp = {
        "ldReplay": {"runs": [ld_runs[n] for n, _, _, _, _ in LD_PLAN], "tickMs": 60, "workers": 6},
        "igReplay": {"procs": IG_PROCS, "slots": IG_SLOTS, "behaviours": ig_all, "workers": 4},
        "ldStress": {"runs": [{"name": k, "parent": k, "rounds": rounds, "procs": 4, "ops": 12, "traceOut": ld_traces[k]} for k in kinds] +
                             [{"name": k + "16", "parent": k, "rounds": max(4, rounds // 2), "procs": 16, "ops": 25, "traceOut": ""} for k in kinds]},
        "igStress": {"rounds": 12 if not thorough else 150, "procs": IG_PROCS, "ops": 6, "traceOut": ig_trace},
        "fanout": {"rounds": 2 if not thorough else 20},
    }
    res = ctx.go_driver("./x11dl", "TestX11DL", inp, name="x11dl", timeout=1500)
    ctx.take_driver_result(res, "[x11dl] ")
    cnt = res.get("counters", {})
    for name, info in ld_infos.items():
        info.update(replayed=cnt.get("cases_" + name, 0), diverged=cnt.get("diverged_" + name, 0))
        ctx.cov["replay"]["ld_replay_" + name] = info
    ig_total = len(ig_all)
    ctx.cov["replay"]["ig_replay"] = dict(ig_infos, replayed=cnt.get("ig_cases", 0), diverged=cnt.get("ig_diverged", 0), steps=cnt.get("ig_steps", 0))
    ctx.cov["replay"]["drivers"] = {"counters": cnt, "drift": res["drift"], "drift_notes": res.get("drift_notes", []),
                                    "skipped": res.get("skipped", [])}
    if res.get("skipped"):
        raise vf.MachineryError("X11DL drivers could not run: %s" % res["skipped"][:3])
    if res.get("violations"):
        return
    for name, info in ld_infos.items():
        if info["replayed"] != info["distinct"]:
            raise vf.MachineryError("LazyDeadline replay %s ran %d of %d behaviours" % (name, info["replayed"], info["distinct"]))
        if info["diverged"] * 2 > info["distinct"]:
            raise vf.MachineryError("LazyDeadline replay %s: the code left the model's schedule in %d of %d behaviours (binding lost)" % (
                name, info["diverged"], info["distinct"]))
    if cnt.get("ig_cases", 0) != ig_total or cnt.get("ig_diverged", 0) * 2 > ig_total:
        raise vf.MachineryError("InterruptGroup replay ran %d of %d behaviours, %d left the model's schedule" % (
            cnt.get("ig_cases", 0), ig_total, cnt.get("ig_diverged", 0)))
    for k in kinds:
        if cnt.get("rounds_" + k, 0) != rounds:
            raise vf.MachineryError("LazyDeadline stress %s ran %d of %d rounds" % (k, cnt.get("rounds_" + k, 0), rounds))
    if sum(cnt.get("overlapping_calls_" + k, 0) for k in kinds) < 5:
        raise vf.MachineryError("LazyDeadline stress: the recorded histories contain no overlapping calls (vacuous)")
    if cnt.get("ig_stress_touches", 0) == 0 or cnt.get("fanout_scenarios", 0) < 5 * inp["fanout"]["rounds"]:
        raise vf.MachineryError("InterruptGroup stress / fan-out did not run (touches=%d scenarios=%d)" % (
            cnt.get("ig_stress_touches", 0), cnt.get("fanout_scenarios", 0)))

    # phase 3: code -> spec
    accepted = []
    tinfos = {}
    jobs = []
    first = {}
    for k in kinds:
        tinfos[k] = {"traces": cnt.get("traces_" + k, 0), "calls": cnt.get("calls_" + k, 0), "overlapping_calls": cnt.get("overlapping_calls_" + k, 0)}
        for fn in split_trace(ld_traces[k]):
            first.setdefault(k, (len(jobs), fn))
            jobs.append(validate_trace(ctx, "Trace_LazyDeadline.tla", "Trace_LD_%s.cfg" % k, fn, "LazyDeadline stress " + k, tinfos[k], accepted))
    tinfos["ig"] = {"traces": cnt.get("ig_traces", 0), "spans": cnt.get("ig_stress_spans", 0), "touches": cnt.get("ig_stress_touches", 0)}
    for fn in split_trace(ig_trace):
        first.setdefault("ig", (len(jobs), fn))
        jobs.append(validate_trace(ctx, "Trace_InterruptGroup.tla", "Trace_IG.cfg", fn, "InterruptGroup stress", tinfos["ig"], accepted))
    oks = par(jobs, width=4)
    ctx.cov["replay"]["traces"] = tinfos
    ctx.cov["traces_validated_against_impl"] += sum(accepted)
    if not any(oks) and not ctx.violations:
        raise vf.MachineryError("no recorded history was accepted by the trace specs (binding lost)")
    if thorough:
        tj = []
        if oks[first["custom"][0]]:
            tj.append(lambda: tamper(ctx, "Trace_LazyDeadline.tla", "Trace_LD_custom.cfg", first["custom"][1], "Err() nil after non-nil", tamper_ld))
        if oks[first["ig"][0]]:
            tj.append(lambda: tamper(ctx, "Trace_InterruptGroup.tla", "Trace_IG.cfg", first["ig"][1], "a fire touch dropped", tamper_ig))
        par(tj)
        ctx.cov["replay"]["traces"]["tamper_rejected"] = len(tj)


def run(ctx, replay):
    if replay:
        ctx.log("replay: re-running tier %s with seed %d (the generators are seeded)" % (ctx.tier, ctx.seed))
    run_tier(ctx)
