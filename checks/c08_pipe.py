"""C08, pipeline tier -- ghost domains against scripted parents, in real time.

run_pipe(ctx):
  1. TLC checks LeasePipe.tla (delegation tree root -> p -> c, NS/DS TTLs 1..3 per level, parent
     withdraw / re-point at both levels, client queries incl. hot bursts, Tick): FollowsParent and
     LeaseWithinGrant hold for the intended resolver; two model mutants (cache floor / answer TTL
     beating the cut; the child's self-referral re-anchoring the lease) must violate FollowsParent;
     the stale-data window must be reachable.
  2. simulated behaviours become scenario scripts (1 tick = 1 s) for harness/c08pipe: the real
     edns+cache+resolver pipeline against authkit parents/children.  The oracle there uses only
     the scripted parents' referral logs and the version encoded in the served A records.
  3. the long-lease family (run_long): the same module with RealTime = FALSE -- referral TTLs of 6 h / 1 d / 2 d
     against the 12 h ceiling of the statement, answers of 1 h / 1 d, the clock moved by Jump(6 h + 100 s | 12 h + 100 s).
     Exhaustive (MC_LP_long*), two model mutants (the ceiling missing from the cut the learning resolution reports:
     FollowsParent; no ceiling at all: LeaseWithinGrant), two reachability configs; simulated behaviours become
     scripts whose "jump" steps move the stored timestamps of the answer cache and the delegation cache
     (virtual clock, overlay tag c08p).  Same oracle, the granted lease read as min(TTL, 12 h).
  4. the denied-subtree family (run_neg): the same module with cfg.kind = "negsub" -- NEGATIVE answers.  Version 1 of c.p.
     lacks d.c.p. (validated NXDOMAIN: RFC 8020 cut + RFC 8198 proofs + exact entry), every re-pointed version has d.c.p. and
     www.d.c.p.; a copy that lacks the subtree may hold its denials back for longer than the lease they are learned under
     (cfg.lat), so the cache is handed a cut deadline that is already past.  Exhaustive (MC_LP_neg*), model mutant CutAdmitsPast
     (a past deadline bounds nothing: FollowsParent), two reachability configs; simulated behaviours become real-time scripts
     with QueryX steps for d.c.p. / www.d.c.p.  The SOA serial of every copy of c.p. encodes the delegation versions, so an
     NXDOMAIN reply names the delegation it was learned through and is judged like a positive one -- only where the zone the
     parents delegate to at that moment HAS the name.
"""
import json
import os
import random
from concurrent.futures import ThreadPoolExecutor

import vf

MOD = "LeasePipe"
OPS = {"ParentWithdraw": "withdraw", "ParentRepoint": "repoint", "RootWithdraw": "withdrawP", "RootRepoint": "repointP"}


def _exp(reply):
    if not isinstance(reply, list) or len(reply) != 2 or reply == [9, 9]:
        return "any"
    if reply == [0, 0]:
        return "nx"
    return "%d.%d" % (reply[0], reply[1])


def _grants(st):
    """(p, c) -> lease end granted by the parents, from the ghost variable grantC."""
    out = {}
    g = st["grantC"]
    rows = g if isinstance(g, list) else [g[k] for k in sorted(g)]
    for p, row in enumerate(rows, 1):
        cells = row if isinstance(row, list) else [row[k] for k in sorted(row)]
        for c, v in enumerate(cells, 1):
            out[(p, c)] = v
    return out


def _scenario(sid, beh, horizon=6):
    cfg = beh[0][1]["cfg"]
    steps, i, changes, q_before, q_after = [], 0, [], 0, 0
    probes = []
    for k in range(1, len(beh)):
        label, st = beh[k]
        name = label.split("(")[0].strip()
        t = beh[k - 1][1]["now"]
        if name == "Tick":
            continue
        at = t * 1000 + 60 + 45 * i
        i += 1
        if name in ("Query", "Hot"):
            # boundary probes from the model state: this query observed a referral whose lease ends at E
            g0, g1 = _grants(beh[k - 1][1]), _grants(st)
            for key, e in g1.items():
                if e != g0.get(key) and t < e <= horizon:
                    probes.append((at, e * 1000 + (at - t * 1000) + 150))
        if name == "Query":
            steps.append({"at": at, "op": "query", "exp": _exp(st["reply"])})
        elif name == "Hot":
            steps.append({"at": at, "op": "hot", "until": (t + 1) * 1000 + 20, "every": 300})
        elif name in OPS:
            steps.append({"at": at, "op": OPS[name]})
            changes.append(OPS[name])
        else:
            raise vf.MachineryError("unknown LeasePipe action %r" % label)
        if name in ("Query", "Hot"):
            if changes:
                q_after += 1
            else:
                q_before += 1
    # a probe is useful only if the parents changed something between the observation and the lease end
    added = False
    for seen_at, at in probes:
        if any(seen_at < x["at"] < at and x["op"] not in ("query", "hot") for x in steps):
            steps.append({"at": at, "op": "query", "exp": "any", "probe": True})
            added = True
    if added:
        steps.sort(key=lambda x: x["at"])
        first = min(k for k, x in enumerate(steps) if x.get("probe"))
        for x in steps[first:]:
            if x["op"] == "query":
                x["exp"] = "any"   # the extra query may re-observe a referral: later predictions no longer apply
    sc = {"id": sid, "signed": bool(cfg["signed"]), "pNS": cfg["pNS"], "pDS": cfg["pDS"], "cNS": cfg["cNS"], "cDS": cfg["cDS"],
          "childTTL": cfg["childTTL"], "child": cfg["child"], "deep": bool(cfg["deep"]), "valDelayMs": cfg["valDelay"], "steps": steps,
          "wire": False, "prefetch": 0}
    return sc, changes, q_before, q_after


# ---- long-lease family ---------------------------------------------------------------------------------------------
CEIL = 43200
LONG_NEG = (("MC_LP_reg_ceilcut.cfg", "FollowsParent"), ("MC_LP_reg_noceil.cfg", "LeaseWithinGrant"),
            ("MC_LP_reach_long.cfg", "NeverStaleWindow"), ("MC_LP_reach_ceil.cfg", "NeverCeilTension"))


def _current(st, p, c):
    cver = st["cver"]
    cver = cver if isinstance(cver, list) else [cver[k] for k in sorted(cver)]
    return p != 0 and p == st["pver"] and c == cver[p - 1]


def _scenario_long(sid, beh):
    """One behaviour of the RealTime = FALSE family -> script.  Steps run back to back; only "jump" moves the clock."""
    cfg = beh[0][1]["cfg"]
    steps, changes, feats = [], [], set()
    q_before = q_after = jumps_before_last_query = jumps = 0
    for k in range(1, len(beh)):
        label, st = beh[k]
        pre = beh[k - 1][1]
        name = label.split("(")[0].strip()
        at = 40 * len(steps)
        if name == "Jump":
            steps.append({"at": at, "op": "jump", "d": st["now"] - pre["now"]})
            jumps += 1
        elif name == "Query":
            a = pre["ans"]
            if a["pv"] != 0 and not _current(pre, a["pv"], a["cv"]) and a["exp"] <= pre["now"] < a["raw"]:
                feats.add("ceil")       # only the ceiling has ended the stale answer: CeilTension, and a query looks
            rp = st["reply"]
            if rp not in ([9, 9], [0, 0]) and not _current(st, rp[0], rp[1]):
                feats.add("leased")     # stale data served inside the (capped) lease
            steps.append({"at": at, "op": "query", "exp": _exp(rp)})
            if changes:
                q_after += 1
            else:
                q_before += 1
            jumps_before_last_query = jumps
        elif name in OPS:
            steps.append({"at": at, "op": OPS[name]})
            changes.append(OPS[name])
        else:
            raise vf.MachineryError("unknown LeasePipe action %r in the long-lease family" % label)
    while steps and steps[-1]["op"] != "query":     # trailing jumps / changes observe nothing
        steps.pop()
    sc = {"id": sid, "signed": bool(cfg["signed"]), "pNS": cfg["pNS"], "pDS": cfg["pDS"], "cNS": cfg["cNS"], "cDS": cfg["cDS"],
          "childTTL": cfg["childTTL"], "child": cfg["child"], "deep": False, "valDelayMs": 0, "steps": steps,
          "wire": False, "prefetch": 0, "long": True}
    usable = bool(changes) and q_before >= 1 and q_after >= 1 and jumps_before_last_query >= 1
    return sc, changes, feats, usable


def _lease_of(sc, which):
    t = sc[which + "NS"]
    if sc["signed"]:
        t = min(t, sc[which + "DS"])
    return t


def pick_long(ctx, behs, want):
    rnd = random.Random(ctx.seed)
    strata, seen = {}, set()
    for bi, b in enumerate(behs):
        if len(b) < 5:
            continue
        sc, changes, feats, usable = _scenario_long("L%04d" % bi, b)
        if not usable:
            continue
        key = json.dumps({k: v for k, v in sc.items() if k != "id"}, sort_keys=True)
        if key in seen:
            continue
        seen.add(key)
        cls = "0ceil" if "ceil" in feats else "1leased" if "leased" in feats else "2plain"
        sc["feats"] = sorted(feats)
        st = "%s|s%d|%s|p%d|c%d|t%d" % (cls, sc["signed"], changes[0], _lease_of(sc, "p") > CEIL, _lease_of(sc, "c") > CEIL,
                                        sc["childTTL"] > CEIL)
        strata.setdefault(st, []).append(sc)
    order = sorted(strata)
    for s in strata.values():
        rnd.shuffle(s)
    classes = {}
    for s in order:
        classes.setdefault(s.split("|")[0], []).append(s)
    for names in classes.values():
        rnd.shuffle(names)
        # a signed hierarchy re-reads the (clamped) stored delegation while it validates, which happens to bound the
        # request tree as well: the unsigned strata come first so the share of a class never consists of signed ones only
        names.sort(key=lambda n: n.split("|")[1] != "s0")
    share = {"0ceil": 0.4, "1leased": 0.3, "2plain": 0.3}
    picked = []
    for cl, names in sorted(classes.items()):
        quota, got = int(round(want * share.get(cl, 0.1))), 0
        while got < quota and any(strata[n] for n in names):
            for n in names:
                if strata[n] and got < quota:
                    picked.append(strata[n].pop())
                    got += 1
    while len(picked) < want and any(strata.values()):
        for s in order:
            if strata[s] and len(picked) < want:
                picked.append(strata[s].pop())
    for i, sc in enumerate(picked):
        sc["wire"] = i % 2 == 1
        sc["id"] += "w" if sc["wire"] else "m"
    return picked, len(order)


# ---- denied-subtree family (negative answers) ------------------------------------------------------------------------
NEG_NEG = (("MC_LP_reg_cutpast.cfg", "FollowsParent"), ("MC_LP_reach_neg.cfg", "NeverStaleDenial"),
           ("MC_LP_reach_past.cfg", "NeverPastLeaseTension"))
XNAME = {1: "d", 2: "b"}      # LeasePipe XNames -> harness name tags (d.c.p. / www.d.c.p.)
NEG_SIM = {"quick": (1500, 14, 10), "thorough": (8000, 16, 48)}     # behaviours simulated, depth, scenarios wanted


def _exp_x(st):
    rp = st["reply"]
    if rp == [9, 9]:
        return "any"           # SERVFAIL predicted (the denial's signer is no longer the copy the parent names)
    if rp == [0, 0]:
        return "nx"
    return ("nx%d.%d" if st["rneg"] else "%d.%d") % (rp[0], rp[1])


def _scenario_neg(sid, beh):
    """One behaviour of the negsub family -> real-time script (1 tick = 1 s; a slow denial of lat ticks is held back
    lat s - 0.5 s, so it is written strictly between two ticks)."""
    cfg = beh[0][1]["cfg"]
    lat = cfg["lat"]
    steps, changes, feats, late = [], [], set(), []
    i = nx = 0
    blind = False
    for k in range(1, len(beh)):
        label, st = beh[k]
        pre = beh[k - 1][1]
        name = label.split("(")[0].strip()
        t = pre["now"]
        if name == "Tick":
            continue
        at = t * 1000 + 60 + 45 * i
        i += 1
        if name == "Query":
            steps.append({"at": at, "op": "query", "exp": "any" if blind else _exp(st["reply"]), "name": "w"})
        elif name == "Hot":
            steps.append({"at": at, "op": "hot", "until": (t + 1) * 1000 + 20, "every": 300})
        elif name == "QueryX":
            n = int(label.split("(")[1].split(")")[0])
            nx += 1
            g = _grants(pre)
            for p, c in late:
                if not _current(pre, p, c) and pre["pver"] != 0 and g[(p, c)] <= t:
                    cv = pre["cver"]
                    cv = cv if isinstance(cv, list) else [cv[x] for x in sorted(cv)]
                    if cv[pre["pver"] - 1] >= 2:
                        feats.add("tension")    # the question the CutAdmitsPast mutant answers from the dead delegation
            rp = st["reply"]
            if st["rneg"] and rp != [9, 9]:
                if not _current(st, rp[0], rp[1]):
                    feats.add("staleneg")       # a stale denial served inside its lease
                if lat > 0 and st["now"] > t and st["cutx"]["pv"] == 0 and st["leaseC"]["exp"] > st["now"]:
                    feats.add("late")           # written after its lease: nothing admitted, the descent repeated
                    late.append((rp[0], rp[1]))
            e = "any" if blind else _exp_x(st)
            if rp == [9, 9]:
                blind = True                    # a SERVFAIL is remembered (RFC 9520): later predictions do not apply
            steps.append({"at": at, "op": "query", "exp": e, "name": XNAME[n]})
        elif name in OPS:
            steps.append({"at": at, "op": OPS[name]})
            changes.append(OPS[name])
        else:
            raise vf.MachineryError("unknown LeasePipe action %r in the denied-subtree family" % label)
    while steps and steps[-1]["op"] not in ("query", "hot"):
        steps.pop()
    sc = {"id": sid, "signed": True, "pNS": cfg["pNS"], "pDS": cfg["pDS"], "cNS": cfg["cNS"], "cDS": cfg["cDS"],
          "childTTL": cfg["childTTL"], "child": cfg["child"], "deep": False, "valDelayMs": 0, "steps": steps,
          "wire": False, "prefetch": 0, "kind": "negsub", "latMs": lat * 1000 - 500 if lat > 0 else 0}
    usable = bool(changes) and nx >= 1 and any(x["op"] not in ("query", "hot") for x in steps)
    return sc, changes, feats, usable


def pick_neg(ctx, behs, want):
    rnd = random.Random(ctx.seed)
    strata, seen = {}, set()
    for bi, b in enumerate(behs):
        if len(b) < 4:
            continue
        sc, changes, feats, usable = _scenario_neg("N%04d" % bi, b)
        if not usable:
            continue
        key = json.dumps({k: v for k, v in sc.items() if k != "id"}, sort_keys=True)
        if key in seen:
            continue
        seen.add(key)
        cls = "0tension" if "tension" in feats else "1staleneg" if "staleneg" in feats else "2plain"
        sc["feats"] = sorted(feats)
        strata.setdefault("%s|%s|l%d|c%d" % (cls, changes[0], sc["latMs"] > 0, _lease_of(sc, "c")), []).append(sc)
    order = sorted(strata)
    for s in strata.values():
        rnd.shuffle(s)
    share = {"0tension": 0.5, "1staleneg": 0.3, "2plain": 0.2}
    picked = []
    for cl in sorted(share):
        names = [n for n in order if n.startswith(cl)]
        rnd.shuffle(names)
        quota, got = int(round(want * share[cl])), 0
        while got < quota and any(strata[n] for n in names):
            for n in names:
                if strata[n] and got < quota:
                    picked.append(strata[n].pop())
                    got += 1
    while len(picked) < want and any(strata.values()):
        for s in order:
            if strata[s] and len(picked) < want:
                picked.append(strata[s].pop())
    for i, sc in enumerate(picked):
        sc["wire"] = i % 2 == 1
        sc["id"] += "w" if sc["wire"] else "m"
    return picked, len(order)


def prepare_neg(ctx):
    """Model part of the denied-subtree family: exhaustive config, the mutant and reachability twins, simulation."""
    thorough = ctx.tier == "thorough"
    num, depth, want = NEG_SIM["thorough" if thorough else "quick"]

    def neg(cfg, inv):
        def run():
            r = ctx.tlc(MOD, "MC_LP.tla", cfg, workers=2, timeout=300, heap="2g", must_pass=False, count=False, tag="regression-must-fail")
            if r.violated != inv:
                raise vf.MachineryError("LeasePipe %s no longer violates %s (got %s): vacuous model?" % (cfg, inv, r.violated))
        return run
    jobs = [lambda: ctx.tlc(MOD, "MC_LP.tla", "MC_LP_neg.cfg", workers=4, timeout=900, heap="4g", tag="negsub-exhaustive")]
    if thorough:
        jobs.append(lambda: ctx.tlc(MOD, "MC_LP.tla", "MC_LP_neg_full.cfg", workers=8, timeout=2400, heap="8g", tag="negsub-exhaustive"))
    jobs += [neg(c, i) for c, i in NEG_NEG]
    with ThreadPoolExecutor(max_workers=4) as ex:
        fsim = ex.submit(lambda: ctx.tlc_behaviours(MOD, "MC_LP.tla", "Sim_LP_neg.cfg", num=num, depth=depth, timeout=900))
        futs = [ex.submit(j) for j in jobs]
        behs = fsim.result()
        for f in futs:
            f.result()
    picked, nstrata = pick_neg(ctx, behs, want)
    fc = {}
    for sc in picked:
        for f in sc["feats"] or ["plain"]:
            fc[f] = fc.get(f, 0) + 1
    ctx.log("C08 pipeline, denied-subtree family: %d behaviours simulated, %d strata, %d scenarios picked, features %s" % (len(behs), nstrata, len(picked), fc))
    if len(picked) < min(want, 8) or fc.get("tension", 0) < 3 or fc.get("late", 0) < 3 or fc.get("staleneg", 0) < 2:
        raise vf.MachineryError("LeasePipe denied-subtree simulation: %d usable scenarios, features %s (vacuous)" % (len(picked), fc))
    return picked, fc


def run_neg(ctx, prepared):
    """The negative-answer dimension (see the module docstring, 4.): replay on the real pipeline, in real time."""
    picked, fc = prepared
    ctx.assumptions += [
        "C08 pipeline, denied-subtree family: real time, NS/DS TTLs 1..2 s, signed hierarchy; a copy of c.p. without d.c.p. holds its denials "
        "back 1.5 s (longer than a 1 s lease, shorter than a 2 s one); an NXDOMAIN reply is judged only when its SOA names a copy of c.p. the "
        "parents had stopped delegating to before the query started, the query started after the most lenient lease of that copy (same tolerance "
        "as for answers) and the copy the parents delegate to at that moment has the name; every other NXDOMAIN / SERVFAIL is not judged",
    ]
    # (quick: every scenario gets its own worker -- one round of at most Horizon + 2 s)
    res = ctx.go_driver("./c08pipe", "TestLeasePipeline", {"scenarios": picked, "workers": min(len(picked), 12)}, name="c08pipe_neg", timeout=900)
    ctx.take_driver_result(res, "[C08 pipeline, denied subtree] ")
    c = res.get("counters") or {}
    ctx.cov["replay"]["c08_pipeline_negsub"] = {"scenarios": len(picked), "ran": res["cases"], "features": fc, "drift": res["drift"],
                                                "drift_notes": (res.get("drift_notes") or [])[:8], "skipped": (res.get("skipped") or [])[:8], "counters": c}
    if res.get("violations"):
        return res
    if res["cases"] < len(picked) - 2:
        raise vf.MachineryError("C08 denied-subtree family ran %d of %d scenarios (skipped: %s)" % (res["cases"], len(picked), (res.get("skipped") or [])[:3]))
    # the real run must have been where the family aims: denials written after their lease, and questions about the subtree
    # answered by the copy the parents point at afterwards; denials served at all (current or leased)
    if (c.get("neg_denial_written_after_lease", 0) < 2 or c.get("neg_followed_parent_after_late_denial", 0) < 2
            or c.get("reply_neg_current", 0) + c.get("reply_neg_leased", 0) < len(picked) // 2):
        raise vf.MachineryError("C08 denied-subtree replay is vacuous: %s" % c)
    if res["drift"] > len(picked):
        raise vf.MachineryError("C08 denied-subtree family: %d drift notes on %d scenarios (binding lost): %s" % (res["drift"], len(picked), (res.get("drift_notes") or [])[:3]))
    return res


def _use_c08p(ctx):
    """the harness needs the c08p shifters (overlay tag c08p): rebuild the overlay list if it was made without them"""
    if "c08p" not in ctx.overlay_tags:
        ctx.overlay_tags.add("c08p")
        ov = os.path.join(ctx.scratch, "overlay.json")
        if os.path.exists(ov):
            os.remove(ov)


def observe_glue_hosts(ctx):
    """OBSERVATION, never a verdict (harness/c08pipe/gluehost_test.go): the resolver's un-timed NS-host address maps
    (glueV4 / glueV6).  The statement speaks of the delegation the parent granted and of what is served; an address
    remembered for an out-of-zone NS host is neither, so nothing is judged -- the behaviour is logged."""
    cases = [{"id": "glueless-60s", "lease": 60, "jump": 200}, {"id": "glueless-1d", "lease": 86400, "jump": 90000},
             {"id": "glued-60s", "glued": True, "lease": 60, "jump": 200}, {"id": "hostgone-60s", "gone": True, "lease": 60, "jump": 200}]
    try:
        res = ctx.go_driver("./c08pipe", "TestGlueHostObservation", {"cases": cases}, name="c08pipe_gluehost", timeout=300)
    except vf.MachineryError as ex:
        ctx.log("OBSERVATION [C08 glue hosts] not made: %s" % str(ex).splitlines()[0])
        return
    c = res.get("counters") or {}
    ctx.cov["replay"]["c08_glue_host_observation"] = {"cases": len(cases), "counters": c, "samples": res.get("samples", [])[:4],
                                                      "skipped": (res.get("skipped") or [])[:4], "verdict": "none (not a predicate of the statement)"}
    stale = c.get("obs_glueless_stale_address", 0)
    gone = c.get("obs_hostgone_stale_address", 0)
    if stale or gone:
        ctx.log("OBSERVATION [C08 glue hosts] (no verdict) the address first seen for an out-of-zone NS host named without glue is used "
                "after every TTL and lease involved has ended: %d of 2 cases where the host moved (its zone now publishes another address; the "
                "host was not looked up again, the old server was asked and its data served), %d of 1 where the host's zone was withdrawn by "
                "the root (www.c.p. still resolved); control with glue in the referral followed the parent: %d of 1   [Resolver.glueV4/glueV6: "
                "LRU only, read before any look-up in lookupNSAddrV4/V6]" % (stale, gone, c.get("obs_glued_followed", 0)))
    else:
        ctx.log("OBSERVATION [C08 glue hosts] (no verdict) a moved / withdrawn out-of-zone NS host was looked up again: %s" % c)


def run_long(ctx):
    """The lease-length dimension above the 12 h ceiling (see the module docstring, 3.)."""
    thorough = ctx.tier == "thorough"
    ctx.assumptions += [
        "C08 pipeline, long-lease family: virtual clock = the answer cache's and the delegation cache's stored timestamps moved "
        "into the past between two steps (overlay shifters c08p), nothing in flight (prefetch off, IPv6 off); referral TTLs 6 h / 1 d / 2 d, "
        "answers 1 h / 1 d, jumps of 6 h + 100 s and 12 h + 100 s: no reachable instant is within 100 s of a lease end, real latencies "
        "(milliseconds) never decide a verdict; the ceiling in the oracle is the statement's 12 h, not read from the code",
    ]
    num, depth, want = (2500, 12, 16) if not thorough else (12000, 14, 80)

    def neg(cfg, inv):
        def run():
            r = ctx.tlc(MOD, "MC_LP.tla", cfg, workers=2, timeout=300, heap="2g", must_pass=False, count=False, tag="regression-must-fail")
            if r.violated != inv:
                raise vf.MachineryError("LeasePipe %s no longer violates %s (got %s): vacuous model?" % (cfg, inv, r.violated))
        return run
    jobs = [lambda: ctx.tlc(MOD, "MC_LP.tla", "MC_LP_long.cfg", workers=4, timeout=900, heap="4g", tag="long-exhaustive")]
    if thorough:
        jobs.append(lambda: ctx.tlc(MOD, "MC_LP.tla", "MC_LP_long_full.cfg", workers=8, timeout=2400, heap="12g", tag="long-exhaustive"))
    jobs += [neg(c, i) for c, i in LONG_NEG]
    ctx.spec_dir(MOD)
    with ThreadPoolExecutor(max_workers=4) as ex:
        fsim = ex.submit(lambda: ctx.tlc_behaviours(MOD, "MC_LP.tla", "Sim_LP_long.cfg", num=num, depth=depth, timeout=900))
        futs = [ex.submit(j) for j in jobs]
        behs = fsim.result()
        fobs = ex.submit(lambda: observe_glue_hosts(ctx))     # go test while TLC finishes
        for f in futs:
            f.result()
        fobs.result()
    picked, nstrata = pick_long(ctx, behs, want)
    fc = {}
    for sc in picked:
        for f in sc["feats"] or ["plain"]:
            fc[f] = fc.get(f, 0) + 1
        if "ceil" in sc["feats"] and not sc["signed"]:
            fc["ceil_unsigned"] = fc.get("ceil_unsigned", 0) + 1
    ctx.log("C08 pipeline, long-lease family: %d behaviours simulated, %d strata, %d scenarios picked, features %s" % (len(behs), nstrata, len(picked), fc))
    if len(picked) < min(want, 12) or fc.get("ceil", 0) < 3 or fc.get("ceil_unsigned", 0) < 2 or fc.get("leased", 0) < 2 or fc.get("plain", 0) < 2:
        raise vf.MachineryError("LeasePipe long-lease simulation: %d usable scenarios, features %s (vacuous)" % (len(picked), fc))
    res = ctx.go_driver("./c08pipe", "TestLeasePipeline", {"scenarios": picked, "workers": 8}, name="c08pipe_long", timeout=900)
    ctx.take_driver_result(res, "[C08 pipeline, long leases] ")
    c = res.get("counters") or {}
    ctx.cov["replay"]["c08_pipeline_long"] = {"scenarios": len(picked), "ran": res["cases"], "features": fc, "drift": res["drift"],
                                              "drift_notes": (res.get("drift_notes") or [])[:8], "skipped": (res.get("skipped") or [])[:8], "counters": c}
    if res.get("violations"):
        return res
    if res["cases"] < len(picked) - 2:
        raise vf.MachineryError("C08 long-lease family ran %d of %d scenarios (skipped: %s)" % (res["cases"], len(picked), (res.get("skipped") or [])[:3]))
    if (c.get("jumps", 0) < len(picked) or c.get("jump_shifted_answers", 0) < len(picked) or c.get("jump_shifted_delegations", 0) < len(picked)
            or c.get("long_queries_after_jump", 0) < len(picked) or c.get("long_reply_leased", 0) < 2 or c.get("long_reply_current", 0) < len(picked)):
        raise vf.MachineryError("C08 long-lease replay is vacuous: %s" % c)
    if res["drift"] > len(picked) // 3:
        raise vf.MachineryError("C08 long-lease family: %d drift notes on %d scenarios (binding lost): %s" % (res["drift"], len(picked), (res.get("drift_notes") or [])[:3]))
    return res


def _stratum(sc, changes):
    return "%s|s%d|%s|d%d|v%d|t%d" % (changes[0], sc["signed"], sc["child"], sc["deep"], sc["valDelayMs"] > 0, sc["childTTL"] == 1)


def run_pipe(ctx):
    thorough = ctx.tier == "thorough"
    rnd = random.Random(ctx.seed)
    ctx.cov["rule"] += (" | C08 pipeline tier: scenarios = simulated behaviours of LeasePipe.tla with at least one parent-side change "
                        "between client queries, run in real time (1 tick = 1 s) on the full pipeline; distinct = scenario/reply-class signature")
    ctx.assumptions += [
        "C08 pipeline: real time, NS/DS TTLs 1..3 s (the long-lease family, under a virtual clock, covers TTLs around the 12 h ceiling)",
        "C08 pipeline: tolerance on a lease end = end of the client query during which the parent served the referral, minus delays the script "
        "injected afterwards, + 30 ms (400 ms when the referral was served outside any client query)",
        "C08 pipeline: NXDOMAIN / SERVFAIL replies are never judged (truth-or-SERVFAIL shape) -- except, in the denied-subtree family, an "
        "NXDOMAIN whose SOA names the copy of c.p. it was learned from; replies inside the tolerance window are 'gray'",
    ]
    _use_c08p(ctx)
    # ---- 0. the long-lease family (12 h ceiling), virtual clock: cheap, first ----------------
    # (the model part of the denied-subtree family -- TLC only -- runs next to it)
    ctx.spec_dir(MOD)
    with ThreadPoolExecutor(max_workers=1) as bg:
        fneg = bg.submit(lambda: prepare_neg(ctx))
        run_long(ctx)
        prepared = fneg.result()
    # ---- 0b. the denied-subtree family (negative answers), real time ---------------------------
    run_neg(ctx, prepared)
    # ---- 1. model -------------------------------------------------------------------------
    ctx.tlc(MOD, "MC_LP.tla", "MC_LP_quick.cfg", workers=6, timeout=900, heap="6g")
    if thorough:
        ctx.tlc(MOD, "MC_LP.tla", "MC_LP_full.cfg", workers=8, timeout=2400, heap="16g")
    for cfg, want in (("MC_LP_reg_floor.cfg", "FollowsParent"), ("MC_LP_reg_self.cfg", "FollowsParent"), ("MC_LP_reach.cfg", "NeverStaleWindow")):
        r = ctx.tlc(MOD, "MC_LP.tla", cfg, workers=2, timeout=300, heap="2g", must_pass=False, count=False, tag="regression-must-fail")
        if r.violated != want:
            raise vf.MachineryError("LeasePipe %s no longer violates %s (got %s): vacuous model?" % (cfg, want, r.violated))
    # ---- 2. scenarios ---------------------------------------------------------------------
    want = 36 if not thorough else 200
    behs = ctx.tlc_behaviours(MOD, "MC_LP.tla", "Sim_LP.cfg", num=700 if not thorough else 5000, depth=16, timeout=900)
    strata, seen = {}, set()
    for bi, b in enumerate(behs):
        if len(b) < 4:
            continue
        sc, changes, qb, qa = _scenario("s%04d" % bi, b)
        if not changes or qb < 1 or qa < 1:
            continue
        key = json.dumps({k: v for k, v in sc.items() if k != "id"}, sort_keys=True)
        if key in seen:
            continue
        seen.add(key)
        strata.setdefault(_stratum(sc, changes), []).append(sc)
    order = sorted(strata)
    rnd.shuffle(order)
    for s in strata.values():
        rnd.shuffle(s)
    picked = []
    while len(picked) < want and any(strata.values()):
        for s in order:
            if strata[s] and len(picked) < want:
                picked.append(strata[s].pop())
    if len(picked) < min(want, 12):
        raise vf.MachineryError("LeasePipe simulation produced only %d usable scenarios" % len(picked))
    # every scenario runs in one of four shapes: message-born / wire-born client queries, background refresh off /
    # on (threshold 90 %: a lease-bounded entry is due for refresh on its first hit, so hot names are refreshed
    # while the parent changes its mind)
    for i, sc in enumerate(picked):
        sc["wire"] = i % 2 == 1
        sc["prefetch"] = 90 if (i // 2) % 2 == 1 else 0
        sc["id"] += "%s%s" % ("w" if sc["wire"] else "m", "p" if sc["prefetch"] else "")
    ctx.log("C08 pipeline: %d behaviours simulated, %d strata, %d scenarios picked" % (len(behs), len(order), len(picked)))
    # ---- 3. replay ------------------------------------------------------------------------
    tot = {"cases": 0, "drift": 0, "counters": {}, "drift_notes": [], "skipped": []}
    chunk = 56
    for i in range(0, len(picked), chunk):
        inp = {"scenarios": picked[i:i + chunk], "workers": 8}
        res = ctx.go_driver("./c08pipe", "TestLeasePipeline", inp, name="c08pipe_%d" % i, timeout=1500)
        ctx.take_driver_result(res, "[C08 pipeline] ")
        tot["cases"] += res["cases"]
        tot["drift"] += res["drift"]
        tot["drift_notes"] += res.get("drift_notes") or []
        tot["skipped"] += res.get("skipped") or []
        for k, v in (res.get("counters") or {}).items():
            tot["counters"][k] = tot["counters"].get(k, 0) + v
    ctx.cov["replay"]["c08_pipeline"] = {"scenarios": len(picked), "ran": tot["cases"], "drift": tot["drift"],
                                         "drift_notes": tot["drift_notes"][:8], "skipped": tot["skipped"][:8], "counters": tot["counters"]}
    c = tot["counters"]
    if tot["cases"] < len(picked) - max(2, len(picked) // 10):
        raise vf.MachineryError("C08 pipeline ran %d of %d scenarios (skipped: %s)" % (tot["cases"], len(picked), tot["skipped"][:3]))
    if c.get("reply_leased", 0) < 3 or c.get("reply_current", 0) < len(picked) or c.get("referrals_logged", 0) < 2 * len(picked):
        raise vf.MachineryError("C08 pipeline replay is vacuous: %s" % c)
    return tot


run_pipeline = run_pipe   # the name checks/c08.py looks for when it imports the pipeline tier


def replay_pipe(ctx, path):
    """Focused replay of one recorded violation (the recorded scenario script, run 3 times:
    the oracle is timing based, so a single green run does not retract a recorded red one)."""
    with open(path) as f:
        rec = json.load(f)
    sc = (rec.get("replay") or {}).get("scenario")
    if not isinstance(sc, dict) or "steps" not in sc:
        return False
    _use_c08p(ctx)
    # the property statement the replay is judged by
    ctx.tlc(MOD, "MC_LP.tla", "MC_LP_long.cfg" if sc.get("long") else "MC_LP_neg.cfg" if sc.get("kind") == "negsub" else "MC_LP_quick.cfg",
            workers=6, timeout=900, heap="6g")
    scs = []
    for k in range(3):
        c = dict(sc)
        c["id"] = "%s-r%d" % (sc.get("id"), k)
        scs.append(c)
    res = ctx.go_driver("./c08pipe", "TestLeasePipeline", {"scenarios": scs, "workers": 3}, name="c08pipe_replay", timeout=900)
    ctx.take_driver_result(res, "[C08 pipeline, replay] ")
    ctx.note_case("replay:" + str(sc.get("id")))
    ctx.note_case("replay-file:" + path)
    ctx.cov["replay"]["c08_pipeline_replay"] = {"scenario": sc.get("id"), "ran": res["cases"], "counters": res.get("counters", {})}
    return True
