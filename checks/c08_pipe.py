"""C08, pipeline tier -- ghost domains against scripted parents, in real time.

run_pipe(ctx):
  1. TLC checks LeasePipe.tla (delegation tree root -> p -> c, NS/DS TTLs 1..3 per level, parent
     withdraw / re-point at both levels, client queries incl. hot bursts, Tick): FollowsParent and
     LeaseWithinGrant hold for the intended resolver; two model mutants (cache floor / answer TTL
     beating the cut; the child's self-referral re-anchoring the lease) must violate FollowsParent;
     the stale-data window must be reachable.
  2. simulated behaviours become scenario scripts (1 tick = 1 s) for harness/c08pipe: the real
     edns+cache+resolver pipeline against authkit parents/children.  The oracle there uses only
     the scripted parents' referral logs and the version encoded in the served A records.
"""
import json
import random

import vf

MOD = "LeasePipe"
OPS = {"ParentWithdraw": "withdraw", "ParentRepoint": "repoint", "RootWithdraw": "withdrawP", "RootRepoint": "repointP"}


def _exp(reply):
    if not isinstance(reply, list) or len(reply) != 2 or reply == [9, 9]:
        return "any"
    if reply == [0, 0]:
        return "nx"
    return "%d.%d" % (reply[0], reply[1])


def _grants(st):
    """(p, c) -> lease end granted by the parents, from the ghost variable grantC."""
    out = {}
    g = st["grantC"]
    rows = g if isinstance(g, list) else [g[k] for k in sorted(g)]
    for p, row in enumerate(rows, 1):
        cells = row if isinstance(row, list) else [row[k] for k in sorted(row)]
        for c, v in enumerate(cells, 1):
            out[(p, c)] = v
    return out


def _scenario(sid, beh, horizon=6):
    cfg = beh[0][1]["cfg"]
    steps, i, changes, q_before, q_after = [], 0, [], 0, 0
    probes = []
    for k in range(1, len(beh)):
        label, st = beh[k]
        name = label.split("(")[0].strip()
        t = beh[k - 1][1]["now"]
        if name == "Tick":
            continue
        at = t * 1000 + 60 + 45 * i
        i += 1
        if name in ("Query", "Hot"):
            # boundary probes from the model state: this query observed a referral whose lease ends at E
            g0, g1 = _grants(beh[k - 1][1]), _grants(st)
            for key, e in g1.items():
                if e != g0.get(key) and t < e <= horizon:
                    probes.append((at, e * 1000 + (at - t * 1000) + 150))
        if name == "Query":
            steps.append({"at": at, "op": "query", "exp": _exp(st["reply"])})
        elif name == "Hot":
            steps.append({"at": at, "op": "hot", "until": (t + 1) * 1000 + 20, "every": 300})
        elif name in OPS:
            steps.append({"at": at, "op": OPS[name]})
            changes.append(OPS[name])
        else:
            raise vf.MachineryError("unknown LeasePipe action %r" % label)
        if name in ("Query", "Hot"):
            if changes:
                q_after += 1
            else:
                q_before += 1
    # a probe is useful only if the parents changed something between the observation and the lease end
    added = False
    for seen_at, at in probes:
        if any(seen_at < x["at"] < at and x["op"] not in ("query", "hot") for x in steps):
            steps.append({"at": at, "op": "query", "exp": "any", "probe": True})
            added = True
    if added:
        steps.sort(key=lambda x: x["at"])
        first = min(k for k, x in enumerate(steps) if x.get("probe"))
        for x in steps[first:]:
            if x["op"] == "query":
                x["exp"] = "any"   # the extra query may re-observe a referral: later predictions no longer apply
    sc = {"id": sid, "signed": bool(cfg["signed"]), "pNS": cfg["pNS"], "pDS": cfg["pDS"], "cNS": cfg["cNS"], "cDS": cfg["cDS"],
          "childTTL": cfg["childTTL"], "child": cfg["child"], "deep": bool(cfg["deep"]), "valDelayMs": cfg["valDelay"], "steps": steps,
          "wire": False, "prefetch": 0}
    return sc, changes, q_before, q_after


def _stratum(sc, changes):
    return "%s|s%d|%s|d%d|v%d|t%d" % (changes[0], sc["signed"], sc["child"], sc["deep"], sc["valDelayMs"] > 0, sc["childTTL"] == 1)


def run_pipe(ctx):
    thorough = ctx.tier == "thorough"
    rnd = random.Random(ctx.seed)
    ctx.cov["rule"] += (" | C08 pipeline tier: scenarios = simulated behaviours of LeasePipe.tla with at least one parent-side change "
                        "between client queries, run in real time (1 tick = 1 s) on the full pipeline; distinct = scenario/reply-class signature")
    ctx.assumptions += [
        "C08 pipeline: real time, NS/DS TTLs 1..3 s; the 12 h ceiling is left to the API tier",
        "C08 pipeline: tolerance on a lease end = end of the client query during which the parent served the referral, minus delays the script "
        "injected afterwards, + 30 ms (400 ms when the referral was served outside any client query)",
        "C08 pipeline: NXDOMAIN / SERVFAIL replies are never judged (truth-or-SERVFAIL shape); replies inside the tolerance window are 'gray'",
    ]
    # ---- 1. model -------------------------------------------------------------------------
    ctx.tlc(MOD, "MC_LP.tla", "MC_LP_quick.cfg", workers=6, timeout=900, heap="6g")
    if thorough:
        ctx.tlc(MOD, "MC_LP.tla", "MC_LP_full.cfg", workers=8, timeout=2400, heap="16g")
    for cfg, want in (("MC_LP_reg_floor.cfg", "FollowsParent"), ("MC_LP_reg_self.cfg", "FollowsParent"), ("MC_LP_reach.cfg", "NeverStaleWindow")):
        r = ctx.tlc(MOD, "MC_LP.tla", cfg, workers=2, timeout=300, heap="2g", must_pass=False, count=False, tag="regression-must-fail")
        if r.violated != want:
            raise vf.MachineryError("LeasePipe %s no longer violates %s (got %s): vacuous model?" % (cfg, want, r.violated))
    # ---- 2. scenarios ---------------------------------------------------------------------
    want = 36 if not thorough else 200
    behs = ctx.tlc_behaviours(MOD, "MC_LP.tla", "Sim_LP.cfg", num=700 if not thorough else 5000, depth=16, timeout=900)
    strata, seen = {}, set()
    for bi, b in enumerate(behs):
        if len(b) < 4:
            continue
        sc, changes, qb, qa = _scenario("s%04d" % bi, b)
        if not changes or qb < 1 or qa < 1:
            continue
        key = json.dumps({k: v for k, v in sc.items() if k != "id"}, sort_keys=True)
        if key in seen:
            continue
        seen.add(key)
        strata.setdefault(_stratum(sc, changes), []).append(sc)
    order = sorted(strata)
    rnd.shuffle(order)
    for s in strata.values():
        rnd.shuffle(s)
    picked = []
    while len(picked) < want and any(strata.values()):
        for s in order:
            if strata[s] and len(picked) < want:
                picked.append(strata[s].pop())
    if len(picked) < min(want, 12):
        raise vf.MachineryError("LeasePipe simulation produced only %d usable scenarios" % len(picked))
    # every scenario runs in one of four shapes: message-born / wire-born client queries, background refresh off /
    # on (threshold 90 %: a lease-bounded entry is due for refresh on its first hit, so hot names are refreshed
    # while the parent changes its mind)
    for i, sc in enumerate(picked):
        sc["wire"] = i % 2 == 1
        sc["prefetch"] = 90 if (i // 2) % 2 == 1 else 0
        sc["id"] += "%s%s" % ("w" if sc["wire"] else "m", "p" if sc["prefetch"] else "")
    ctx.log("C08 pipeline: %d behaviours simulated, %d strata, %d scenarios picked" % (len(behs), len(order), len(picked)))
    # ---- 3. replay ------------------------------------------------------------------------
    tot = {"cases": 0, "drift": 0, "counters": {}, "drift_notes": [], "skipped": []}
    chunk = 56
    for i in range(0, len(picked), chunk):
        inp = {"scenarios": picked[i:i + chunk], "workers": 8}
        res = ctx.go_driver("./c08pipe", "TestLeasePipeline", inp, name="c08pipe_%d" % i, timeout=1500)
        ctx.take_driver_result(res, "[C08 pipeline] ")
        tot["cases"] += res["cases"]
        tot["drift"] += res["drift"]
        tot["drift_notes"] += res.get("drift_notes") or []
        tot["skipped"] += res.get("skipped") or []
        for k, v in (res.get("counters") or {}).items():
            tot["counters"][k] = tot["counters"].get(k, 0) + v
    ctx.cov["replay"]["c08_pipeline"] = {"scenarios": len(picked), "ran": tot["cases"], "drift": tot["drift"],
                                         "drift_notes": tot["drift_notes"][:8], "skipped": tot["skipped"][:8], "counters": tot["counters"]}
    c = tot["counters"]
    if tot["cases"] < len(picked) - max(2, len(picked) // 10):
        raise vf.MachineryError("C08 pipeline ran %d of %d scenarios (skipped: %s)" % (tot["cases"], len(picked), tot["skipped"][:3]))
    if c.get("reply_leased", 0) < 3 or c.get("reply_current", 0) < len(picked) or c.get("referrals_logged", 0) < 2 * len(picked):
        raise vf.MachineryError("C08 pipeline replay is vacuous: %s" % c)
    return tot


run_pipeline = run_pipe   # the name checks/c08.py looks for when it imports the pipeline tier


def replay_pipe(ctx, path):
    """Focused replay of one recorded violation (the recorded scenario script, run 3 times:
    the oracle is timing based, so a single green run does not retract a recorded red one)."""
    with open(path) as f:
        rec = json.load(f)
    sc = (rec.get("replay") or {}).get("scenario")
    if not isinstance(sc, dict) or "steps" not in sc:
        return False
    ctx.tlc(MOD, "MC_LP.tla", "MC_LP_quick.cfg", workers=6, timeout=900, heap="6g")   # the property statement the replay is judged by
    scs = []
    for k in range(3):
        c = dict(sc)
        c["id"] = "%s-r%d" % (sc.get("id"), k)
        scs.append(c)
    res = ctx.go_driver("./c08pipe", "TestLeasePipeline", {"scenarios": scs, "workers": 3}, name="c08pipe_replay", timeout=900)
    ctx.take_driver_result(res, "[C08 pipeline, replay] ")
    ctx.note_case("replay:" + str(sc.get("id")))
    ctx.note_case("replay-file:" + path)
    ctx.cov["replay"]["c08_pipeline_replay"] = {"scenario": sc.get("id"), "ran": res["cases"], "counters": res.get("counters", {})}
    return True
