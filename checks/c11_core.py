"""C11 core -- exactly one reply per admitted query, in time; failures private.

State-machine level of C11 (the engine/socket level and the scripted-authority level are
separate drivers merged by checks/c11.py):

Dedup.tla   Cache.ServeDNS dedup loop over the real internal/waitgroup API + written-once writer
  - TLC exhaustive: safety under every timing (no clock), liveness under weak fairness,
    bounded time with an urgent clock (D<W and W<D), and a negative config (writer guard off
    must violate AtMostOneReply: the invariant is not vacuous).
  - spec->code (a): internal/waitgroup replayed call-by-call from TLC behaviours.
  - spec->code (b): TLC schedules forced on the real Cache.ServeDNS with gated goroutine clients.
  - code->spec (c): the recorded executions of (b) validated by TLC against Trace_Dedup.tla.
  - free-running stress with real deadlines (the "in time" half in wall-clock time).
"""
import os

import vf

# config name -> (reqs, internal, keyOf, probe keys, nk, maxgen, trace cfg)
DD_CONFIGS = {
    "Ord":    dict(reqs=[1, 2, 3], internal=[3], key_of={1: 1, 2: 1, 3: 1}, probe=[], nk=1, maxgen=2, trace="Trace_Ord.cfg"),
    "OrdT":   dict(reqs=[1, 2, 3], internal=[3], key_of={1: 1, 2: 1, 3: 1}, probe=[], nk=1, maxgen=2, trace="Trace_Ord.cfg"),
    "Probe":  dict(reqs=[1, 2, 3], internal=[], key_of={1: 1, 2: 1, 3: 1}, probe=[1], nk=1, maxgen=3, trace="Trace_Probe.cfg"),
    "ProbeT": dict(reqs=[1, 2, 3], internal=[], key_of={1: 1, 2: 1, 3: 1}, probe=[1], nk=1, maxgen=3, trace="Trace_Probe.cfg"),
    "ProbeQ": dict(reqs=[1, 2, 3], internal=[], key_of={1: 1, 2: 1, 3: 1}, probe=[1], nk=1, maxgen=3, trace="Trace_Probe.cfg"),
    "FourQ":  dict(reqs=[1, 2, 3, 4], internal=[], key_of={1: 1, 2: 1, 3: 1, 4: 2}, probe=[1], nk=2, maxgen=4, trace="Trace_Four.cfg"),
    "Defensive": dict(reqs=[1, 2, 3], internal=[], key_of={1: 1, 2: 1, 3: 1}, probe=[1], nk=1, maxgen=3, trace=None),
    "Split":  dict(reqs=[1, 2, 3], internal=[], key_of={1: 1, 2: 1, 3: 2}, probe=[1], nk=2, maxgen=3, trace="Trace_Split.cfg"),
    "Four":   dict(reqs=[1, 2, 3, 4], internal=[], key_of={1: 1, 2: 1, 3: 1, 4: 2}, probe=[1], nk=2, maxgen=4, trace="Trace_Four.cfg"),
    "FourI":  dict(reqs=[1, 2, 3, 4], internal=[4], key_of={1: 1, 2: 1, 3: 1, 4: 1}, probe=[1], nk=1, maxgen=3, trace="Trace_FourI.cfg"),
}


def seq(v, n, default=0):
    """TLC function over 1..n (printed as a sequence or as a :> @@ function) -> list."""
    if isinstance(v, list):
        return [v[i] if i < len(v) else default for i in range(n)]
    return [v.get(i, v.get(str(i), default)) for i in range(1, n + 1)]


def at(v, i, default=0):
    if isinstance(v, list):
        return v[i - 1] if 1 <= i <= len(v) else default
    return v.get(i, v.get(str(i), default))


def label_parts(lab):
    lab = lab.strip()
    if "(" not in lab:
        return lab, []
    name, rest = lab.split("(", 1)
    return name, [a.strip() for a in rest.rstrip(")").split(",")]


_BEHS = {}

# (behaviours, depth) simulated once per run and shared by the waitgroup and the dedup replay
SIM_QUICK = {"Ord": (70, 40), "OrdT": (40, 60), "Probe": (200, 45), "ProbeQ": (150, 45), "ProbeT": (100, 60),
             "Split": (120, 45), "Defensive": (250, 40)}
SIM_THOROUGH = {"Ord": (900, 40), "OrdT": (500, 60), "Probe": (2500, 45), "ProbeQ": (1000, 45), "ProbeT": (1200, 60),
                "Split": (1500, 45), "Defensive": (2500, 45), "Four": (2000, 60), "FourQ": (800, 60), "FourI": (1500, 60)}


def dedup_behaviours(ctx, name, limit=None):
    """TLC -simulate behaviours of Dedup.tla for one Sim_<name>.cfg (cached for the run)."""
    if name not in _BEHS:
        num, depth = (SIM_THOROUGH if ctx.tier == "thorough" else SIM_QUICK)[name]
        behs = ctx.tlc_behaviours("Dedup", "MC_Dedup.tla", "Sim_%s.cfg" % name, num=num, depth=depth, timeout=900)
        if not behs:
            raise vf.MachineryError("TLC produced no behaviours for Sim_%s" % name)
        _BEHS[name] = behs
    return _BEHS[name][:limit] if limit else _BEHS[name]


def wg_calls(beh, cfg):
    """Project a Dedup behaviour onto the WaitGroup API calls it makes."""
    nk, mg = cfg["nk"], cfg["maxgen"]
    timeouts = set()
    for lab, _ in beh[1:]:
        n, a = label_parts(lab)
        if n == "Timeout":
            timeouts.add(int(a[0]))
    calls = []
    for i in range(1, len(beh)):
        lab, post = beh[i]
        pre = beh[i - 1][1]
        n, a = label_parts(lab)
        if n not in ("JoinGeneration", "Regroup", "DoneGeneration", "Timeout"):
            continue
        c = {"label": lab, "post": {
            "groups": seq(post["groups"], nk), "done": seq(post["gDone"], mg, False), "to": seq(post["gTO"], mg, False),
            "next": seq(post["gNext"], mg), "ngen": post["ngen"]}}
        if n == "Timeout":
            g = int(a[0])
            c.update(op="timeout", g=g, k=at(post["gKey"], g))
        else:
            r = int(a[0])
            k = cfg["key_of"][r]
            c.update(r=r, k=k)
            if n == "DoneGeneration":
                c.update(op="done", g=at(pre["mygen"], r))
            else:
                created = post["ngen"] > pre["ngen"]
                p = at(pre["prev"], r) if n == "Regroup" else 0
                c.update(op="join" if n == "JoinGeneration" else "regroup",
                         p=p, leader=created, gen=at(post["mygen"], r),
                         short=(pre["ngen"] + 1) in timeouts,
                         tomb=bool(p and at(pre["gTO"], p, False)))
                if created and at(post["mygen"], r) != post["ngen"]:
                    raise vf.MachineryError("behaviour projection: leader of a new generation holds another one")
        calls.append(c)
    return calls


def waitgroup_replay(ctx, thorough):
    """(a) internal/waitgroup call-by-call."""
    total, uniq = 0, {}
    plan = ["Probe", "ProbeQ", "Defensive", "Split", "ProbeT"]
    if thorough:
        plan += ["Four", "FourQ", "FourI"]
    for name in plan:
        cfg = DD_CONFIGS[name]
        for b in dedup_behaviours(ctx, name):
            calls = wg_calls(b, cfg)
            total += 1
            if not calls:
                continue
            key = ";".join(c["label"] + ("!" if c.get("short") else "") for c in calls)
            uniq.setdefault(key, {"id": "%s-%d" % (name, len(uniq)), "calls": calls})
    behs = list(uniq.values())
    if len(behs) < 20:
        raise vf.MachineryError("waitgroup replay: only %d distinct call sequences (vacuous)" % len(behs))
    kinds = {}
    for b in behs:
        for c in b["calls"]:
            kinds[c["op"]] = kinds.get(c["op"], 0) + 1
            if c["op"] == "regroup":
                sub = "regroup_tombstone" if c["tomb"] else ("regroup_leader" if c["leader"] else "regroup_follower")
                kinds[sub] = kinds.get(sub, 0) + 1
    for need in ("join", "regroup_leader", "regroup_follower", "regroup_tombstone", "done", "timeout"):
        if not kinds.get(need):
            raise vf.MachineryError("waitgroup replay: no %s call in any behaviour (vacuous)" % need)
    res = ctx.go_driver("./c11", "TestWaitGroupReplay", {"nk": 2, "shortMs": 15, "behaviours": behs},
                        name="wg_replay", timeout=900)
    ctx.take_driver_result(res, "[waitgroup] ")
    ctx.cov["replay"]["waitgroup"] = {
        "tlc_behaviours": total, "distinct_call_sequences": len(behs), "replayed": res["cases"],
        "calls": res.get("counters", {}).get("calls", 0), "call_kinds": kinds, "drift": res["drift"],
        "drift_notes": res.get("drift_notes", []), "skipped": res.get("skipped", [])}
    if res.get("skipped"):
        raise vf.MachineryError("waitgroup replay skipped behaviours: %s" % res["skipped"][:3])
    if res["cases"] != len(behs):
        raise vf.MachineryError("waitgroup replay ran %d of %d behaviours" % (res["cases"], len(behs)))


def dedup_replay(ctx, thorough):
    """(b) gated schedules on the real Cache.ServeDNS and (c) trace validation."""
    # groups share the request set / trace config; members differ in how TLC drives the environment
    # (sim config, number of behaviours used)
    plan = [("Ord", [("Ord", 70), ("OrdT", 40)]),
            ("Probe", [("Probe", 80), ("ProbeQ", 80), ("ProbeT", 40)]),
            ("Split", [("Split", 50)])]
    if thorough:
        plan = [("Ord", [("Ord", 900), ("OrdT", 500)]),
                ("Probe", [("Probe", 1200), ("ProbeQ", 800), ("ProbeT", 700)]),
                ("Split", [("Split", 700)]),
                ("Four", [("Four", 900), ("FourQ", 600)]),
                ("FourI", [("FourI", 900)])]
    traces_ok = 0
    actions_seen = set()
    runs, infos = [], {}
    for name, members in plan:
        cfg = DD_CONFIGS[name]
        scheds, seen = [], set()
        for sim, limit in members:
            for b in dedup_behaviours(ctx, sim, limit):
                labs = [x[0] for x in b[1:] if x[0] != "Tick"]
                actions_seen.update(label_parts(x)[0] for x in labs)
                key = ";".join(labs)
                if key in seen or not labs:
                    continue
                seen.add(key)
                scheds.append({"id": "%s-%d" % (sim, len(scheds)), "steps": labs})
        trace = os.path.join(ctx.scratch, "dedup_%s.ndjson" % name)
        runs.append({"config": name, "nk": cfg["nk"], "maxGen": cfg["maxgen"],
                     "reqs": [{"id": r, "key": cfg["key_of"][r], "internal": r in cfg["internal"]} for r in cfg["reqs"]],
                     "probeKeys": cfg["probe"], "schedules": scheds, "traceOut": trace, "shortMs": 25})
        infos[name] = {"schedules": len(scheds), "trace": trace}
    res = ctx.go_driver("./c11", "TestDedupSchedules", {"runs": runs}, name="dedup_schedules", timeout=2400)
    ctx.take_driver_result(res, "[dedup] ")
    cnt = res.get("counters", {})
    if res.get("skipped"):
        raise vf.MachineryError("dedup schedule replay stalled: %s" % res["skipped"][:3])
    for name, members in plan:
        cfg = DD_CONFIGS[name]
        info = infos[name]
        trace = info.pop("trace")
        info.update(replayed=cnt.get("cases_" + name, 0), steps=cnt.get("steps_" + name, 0),
                    events=cnt.get("events_" + name, 0))
        ctx.cov["replay"]["dedup_" + name] = info
        if res.get("violations") and info["replayed"] < info["schedules"]:
            continue   # the driver stopped at a violation
        if info["replayed"] != info["schedules"]:
            raise vf.MachineryError("dedup replay %s ran %d of %d schedules" % (name, info["replayed"], info["schedules"]))
        if info["steps"] < 3 * info["schedules"]:
            raise vf.MachineryError("dedup replay %s executed only %d steps for %d schedules (vacuous)" % (
                name, info["steps"], info["schedules"]))
        # (c) code -> spec
        nlines = sum(1 for _ in open(trace))
        ok, r = ctx.tlc_trace("Dedup", "Trace_Dedup.tla", cfg["trace"], trace, timeout=1500)
        info["trace_lines"] = nlines
        info["trace_matched"] = max(0, r.depth - 1)
        if r.violated and r.violated != "TraceAccepted":
            lines = open(trace).read().splitlines()[: r.depth + 1]
            ctx.violation("dedup/trace/" + r.violated,
                          "[dedup %s] invariant %s is false on a recorded execution of Cache.ServeDNS "
                          "(trace line %d)" % (name, r.violated, r.depth), {"trace_prefix": lines[-60:]})
        elif not ok:
            if res.get("violations"):
                ctx.log("trace rejected after %d of %d lines (driver already reported a violation)" % (r.depth - 1, nlines))
            else:
                ctx.cov["drift"] += 1
                lines = open(trace).read().splitlines()
                at_line = max(0, r.depth - 1)
                ctx.log("DRIFT: recorded execution not explained by Dedup.tla after %d of %d lines; no property "
                        "predicate failed. next line: %s" % (at_line, nlines, lines[at_line][:300] if at_line < nlines else ""))
                info["trace_rejected_at"] = lines[max(0, at_line - 3): at_line + 1]
        else:
            traces_ok += cnt.get("traces_" + name, 0)
    missing = {"FirstLookup", "JoinGeneration", "Regroup", "ProbeLimit", "Wait", "Recheck", "LeadCheck", "Downstream",
               "DoneGeneration", "Timeout", "Deadline", "Cancel"} - actions_seen
    if missing:
        raise vf.MachineryError("dedup schedules never contain the actions %s (vacuous)" % sorted(missing))
    ctx.cov["traces_validated_against_impl"] += traces_ok
    if traces_ok == 0 and not ctx.violations:
        raise vf.MachineryError("no recorded Cache.ServeDNS execution was accepted by Trace_Dedup (binding lost)")


def free_run(ctx, thorough):
    rounds = 12 if not thorough else 120
    res = ctx.go_driver("./c11", "TestDedupFreeRun", {"rounds": rounds, "clients": 18, "deadlineMs": 150,
                                                       "marginMs": 2500}, name="dedup_free", timeout=1200)
    ctx.take_driver_result(res, "[dedup free-run] ")
    ctx.cov["replay"]["dedup_free_run"] = {"rounds": res["cases"], "counters": res.get("counters", {}),
                                           "skipped": res.get("skipped", [])}
    if res.get("skipped"):
        raise vf.MachineryError("free-running dedup stress could not run: %s" % res["skipped"][:3])
    if res["cases"] < rounds and not res.get("violations"):
        raise vf.MachineryError("free-running dedup stress ran %d of %d rounds" % (res["cases"], rounds))


def model_check(ctx, thorough):
    quick = [("MC_Ord.cfg", 4), ("MC_Probe2.cfg", 2), ("MC_LiveOrd2.cfg", 2), ("MC_LiveProbe2.cfg", 2),
             ("MC_TimeDW2.cfg", 2), ("MC_TimeWD2.cfg", 2)]
    full = quick + [("MC_Probe.cfg", 8), ("MC_Split.cfg", 8), ("MC_Defensive.cfg", 8), ("MC_LiveOrd.cfg", 6),
                    ("MC_LiveProbe.cfg", 8), ("MC_TimeWD.cfg", 6), ("MC_TimeDW.cfg", 8)]
    # -coverage on one config per tier: every action of the model must be exercised.  (ProbeLimit needs
    # three requests on a probe key; the two-request quick config cannot reach it, so the quick tier
    # requires it among the simulated schedules instead.)
    cov_cfg = "MC_Probe.cfg" if thorough else "MC_Probe2.cfg"
    for cfg, w in (full if thorough else quick):
        args = ["-coverage", "1"] if cfg == cov_cfg else []
        r = ctx.tlc("Dedup", "MC_Dedup.tla", cfg, workers=w, timeout=2400, heap="10g", tag="exhaustive", args=args)
        if cfg == cov_cfg:
            zero = [a for a in r.zero_coverage() if a != "Tick" and (thorough or a != "ProbeLimit")]
            if zero:
                raise vf.MachineryError("Dedup actions never taken in %s: %s" % (cov_cfg, zero))
    if thorough:
        # four requests (three clients + a second key / an internal sub-query): the exhaustive graphs are
        # 10^7..10^8 states, so the invariants are checked along random deep behaviours instead
        for cfg in ("MC_Four.cfg", "MC_FourI.cfg"):
            r = ctx.tlc("Dedup", "MC_Dedup.tla", cfg, workers=4, timeout=900, heap="6g", must_pass=False, count=False,
                        tag="simulate-invariants", args=["-simulate", "num=30000", "-depth", "70", "-seed", str(ctx.seed)])
            if r.rc != 0 or r.violated:
                raise vf.MachineryError("TLC simulation of %s failed on the model alone (rc=%d, violated=%s)\n%s" % (
                    cfg, r.rc, r.violated, "\n".join(r.out.splitlines()[-30:])))
    # non-vacuity: with the guarding mechanism switched off in the model TLC must find the violation
    for cfg, inv in (("MC_NoGuard.cfg", "AtMostOneReply"), ("MC_NegLocal.cfg", "FailureIsPrivate"),
                     ("MC_NegTombstone.cfg", "TimedOutGenerationIsTombstone")):
        r = ctx.tlc("Dedup", "MC_Dedup.tla", cfg, workers=2, timeout=300, heap="4g",
                    must_pass=False, tag="negative", count=False)
        if r.violated != inv:
            raise vf.MachineryError("negative config %s did not violate %s (got %s): the invariant would be "
                                    "vacuous" % (cfg, inv, r.violated))


def replay_core(ctx, path):
    """bin/check C11 --replay <file>: re-run exactly the recorded failing case."""
    import json
    with open(path) as f:
        rec = json.load(f)
    rp = rec.get("replay", rec)
    drv = rp.get("driver")
    if drv == "dedup":
        cfg = DD_CONFIGS[rp["config"]]
        steps = [x[len("drain:"):] if x.startswith("drain:") else x for x in rp["steps"]]
        inp = {"runs": [{"config": rp["config"], "nk": cfg["nk"], "maxGen": cfg["maxgen"], "reqs": rp["reqs"],
                         "probeKeys": rp["probeKeys"], "schedules": [{"id": rp.get("schedule", "replay"), "steps": steps}],
                         "traceOut": "", "shortMs": 25}]}
        res = ctx.go_driver("./c11", "TestDedupSchedules", inp, name="replay_dedup", timeout=600)
    elif drv == "waitgroup":
        res = ctx.go_driver("./c11", "TestWaitGroupReplay", {"nk": 2, "shortMs": 15, "behaviours": [rp["behaviour_full"]]},
                            name="replay_wg", timeout=600)
    elif drv == "dedup-free":
        ctx.seed = int(rp.get("seed", ctx.seed))
        res = ctx.go_driver("./c11", "TestDedupFreeRun", {"rounds": int(rp.get("round", 0)) + 1, "clients": 18,
                                                           "deadlineMs": 150, "marginMs": 2500}, name="replay_free", timeout=900)
    else:
        raise vf.MachineryError("replay file %s: unknown driver %r" % (path, drv))
    ctx.take_driver_result(res, "[replay] ")
    ctx.cov["states"] = max(1, ctx.cov["states"])
    ctx.cov["transitions"] = max(1, ctx.cov["transitions"])
    ctx.cov["replay"]["replayed_file"] = path


def run_core(ctx):
    thorough = ctx.tier == "thorough"
    ctx.cov["rule"] = (ctx.cov.get("rule", "") + " | C11 core: behaviours = TLC simulated behaviours of Dedup.tla; "
                       "each is replayed call-by-call on the real WaitGroup and as a gated schedule on the real "
                       "Cache.ServeDNS; distinct = distinct call sequences / executed schedules; recorded executions "
                       "are validated line by line against Trace_Dedup.tla").strip(" |")
    ctx.assumptions += [
        "C11 core: whether a key is an expired RFC 9520 failure probe is fixed per run (backoff expiry is C13)",
        "C11 core: the scripted downstream returns a request-local failure once its request context is finished "
        "(the bound on real resolution time is checked at the authority level)",
        "C11 core: gate-to-gate bursts of one goroutine (Wait+Recheck+Regroup, Downstream+DoneGeneration) are not "
        "interleaved with other goroutines on the real code; TLC interleaves them in the model",
    ]
    model_check(ctx, thorough)
    waitgroup_replay(ctx, thorough)
    free_run(ctx, thorough)
    dedup_replay(ctx, thorough)
