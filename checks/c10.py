"""C10 -- replies reach only their own client and carry only their own bytes.

UdpJob.tla  : the owned UDP engine, one action per ownership step; TLC exhaustive (portable, batch
              with the inline pass, mixed batch+portable readers) + regression configs in which the
              scrub / rawSA reset / staged-is-terminal rules are switched off (each must break a
              property invariant on the model alone -- the invariants are not vacuous).
TcpConn.tla : one stream connection, pipelined frames, job class swap, staged frames and flush; reply SIZE CLASSES
              (small staged / large after a flush / huge written on its own, after what is staged has left) and the
              job-owned edns writer slot (ReplyOptIsOwn); regression configs: no flush before a direct write, slot not
              zeroed.  Its ScriptSpec graph is walked for every size-class / EDNS order and chunking of up to three
              pipelined hits; each is replayed on a real TCP and a real DoT connection.
UdpSlab.tla : the slab record carries the edns writer slot (ew) and whose cookie the staged bytes hold (txck);
              ReplyOptIsOwn at every send, on the model and on the recorded walk (Trace_UdpJob_opt.cfg).
Engine      : the real server.Server on loopback UDP+TCP sockets with tiny ingress limits, real chain
              up to the cache + scripted tail whose answers encode the question; concurrent clients
              check byte provenance of everything they receive; the verif trace hook (hooks/
              c10_engine_trace.patch) is recorded and validated by Trace_UdpJob.tla (ReplyIsOwn,
              SilentStaysSilent, AtMostOneSend, ownership walk, LeaseBound at every event; all slabs
              home at the end).  TCP observations are validated by Trace_TcpConn.tla.
Gap dimensions (seeded C10-r3-1, C10-r3-3, C11-r3-3; harness/c10/gap_test.go):
  UdpSlab.txhd / ClearHdr, packet kind "failhit"  a reply composed IN PLACE in the slab's leased TX buffer (the failure cache's
              byte rung) keeps the flags word an earlier reply wrote unless the composer clears it: ReplyHeaderIsOwn (model:
              MC_hdr / MC_regress_hdrnotcleared; engine: "a-" names answered AD=1, "x-" names failing, a flags-word predicate on
              every reply of every transport, the sweep passes AD=1 then a failure-cache reply over every slab; recorded walk).
  UdpJob packet kind "trunc" / TruncRelease        a datagram larger than the slab's RX buffer is dropped by its reader AND the
              slab goes back: NoHeldSlabs (MC_trunc / MC_regress_truncleak; engine: oversize datagrams in every UDP load --
              C11's engine walk included --, after the load no more slabs out than the readers can arm (AllHome on the walk),
              probes answered, lease count zero after the stop).
  TcpConn Stall / TimeoutSticky                    the client stops reading, a write made with replies in hand meets its bound:
              the error is final, StreamEndsAtFailedWrite (MC_stall / MC_regress_timeoutnotsticky; engine: the writes that time
              out in MC_script_stall's graph, as size-class cycles, pipelined on connections that are not read for 3.2 s).
"""
import json
import os
import re
import threading
from concurrent.futures import ThreadPoolExecutor

import vf

PANIC_MARKS = (
    # (what must appear in the dead test binary's output, second required mark, meaning)
    ("server: udp job ownership violated", "",
     "udpJob.transition's ownership assertion fired: a job was released twice or had two owners"),
    ("server: tcp job released twice", "", "tcpEngine.put's double-release guard fired"),
    ("nil pointer dereference", "server.(*udpTXBurst).add",
     "burst.add on the nil burst of an overflow serve: the job reached a burst-less serve already carrying a "
     "staged length (a reply left over from the slab's previous lease, or from an inline pass that also handed off)"),
)


def require_hook():
    """The engine trace hook must be in the tree under test (hooks/c10_engine_trace.patch)."""
    try:
        with open(os.path.join(vf.REPO, "server", "udp_engine.go")) as f:
            ok = "verifTraceUDP(" in f.read()
        ok = ok and os.path.exists(os.path.join(vf.REPO, "server", "verif_trace_on.go"))
    except OSError:
        ok = False
    if not ok:
        raise vf.MachineryError("the UDP engine trace hook is not in %s: apply /verif/hooks/c10_engine_trace.patch "
                                "(git -C <repo> apply /verif/hooks/c10_engine_trace.patch)" % vf.REPO)


def engine_configs(tier, seed):
    thorough = tier == "thorough"
    r = 14 if not thorough else 60
    cfgs = [
        dict(name="batch-w1", mode="batch", workers=1, queue=1, sockets=1, spare=0),
        dict(name="mixed-w1", mode="mixed", workers=1, queue=1, sockets=1, spare=0, fallbackRound=r // 3),
        dict(name="portable-w2", mode="portable", workers=2, queue=1, sockets=1, spare=2),
    ]
    if thorough:
        cfgs += [
            dict(name="batch-w2-s2", mode="batch", workers=2, queue=1, sockets=2, spare=0),
            dict(name="mixed-w2-s2", mode="mixed", workers=2, queue=1, sockets=2, spare=0, fallbackRound=r // 4),
            dict(name="retiretx-w1", mode="retiretx", workers=1, queue=1, sockets=1, spare=0),
            dict(name="portable-w1", mode="portable", workers=1, queue=1, sockets=1, spare=0),
            dict(name="batch-w1-load", mode="batch", workers=1, queue=1, sockets=1, spare=0, load=8),
        ]
    for i, c in enumerate(cfgs):
        c.setdefault("load", 0)
        c.setdefault("fallbackRound", 0)
        c.update(tcpSmall=2, tcpLarge=1, udpClients=10 if not thorough else 16, tcpClients=4 if not thorough else 8,
                 rounds=r, burst=6, tcpConnsEach=6 if not thorough else 30, tcpFrames=8,
                 perturb=True, traceLimit=400000)
        # datagrams larger than the slab's RX buffer in the UDP load (kind "trunc" of UdpJob.tla), whoever runs the driver
        c["oversize"] = True
        # bursts holding a destination the kernel refuses (a raw-socket datagram with a non-loopback source address sent to the loopback listener; batched send only): after the traced load
        c["poison"] = (60 if not thorough else 400) if c["mode"] == "batch" else 0
    return cfgs


# engine runs that also play the TLC-enumerated stream scripts on plain TCP (every run does the hygiene sweep)
SCRIPT_RUNS = {"quick": ("batch-w1",), "thorough": ("batch-w1", "portable-w1", "batch-w2-s2")}


def delivery_projections(nodes, edges, inits):
    """Every behaviour of the dumped graph projected on its Deliver steps: the set of tuples of
    (size class, EDNS shape, delivered while the connection was blocked) -- all of them, not a path cover."""
    out_edges = {}
    for src, dst, label in edges:
        out_edges.setdefault(src, []).append((dst, label))
    memo, onstack = {}, set()

    def suffixes(n):
        if n in memo:
            return memo[n]
        if n in onstack:            # a cycle adds no delivery
            return {()}
        onstack.add(n)
        acc = {()}
        for dst, label in out_edges.get(n, ()):
            sub = suffixes(dst)
            if label.startswith("Deliver"):
                st = nodes[n]
                f = st["net"][0]
                head = (f["sz"], f["opt"], st["pc"] == "blocked")
                acc |= {(head,) + t for t in sub}
            else:
                acc |= sub
        onstack.discard(n)
        memo[n] = acc
        return acc

    import sys
    sys.setrecursionlimit(max(10000, sys.getrecursionlimit()))
    res = set()
    for i in inits:
        for t in suffixes(i):
            if t:
                res.add(((t[0][0], t[0][1], False),) + t[1:])     # the first frame never waits for a reply
    return res


def stream_scripts(ctx):
    """Every size-class / EDNS order and chunking of up to NF pipelined hits, from the labelled state graph of
    TcpConn.tla's ScriptSpec: a frame delivered while the connection sits in `blocked` (everything flushed, slab
    returned) starts a new chunk that the client writes only after the earlier replies arrived; a frame delivered
    at any other moment rides the same write as its predecessor."""
    fams = [("MC_script_sizes.cfg", "sizes"), ("MC_script_opts.cfg", "opts")]
    if ctx.tier == "thorough":
        fams.append(("MC_script_all.cfg", "all"))
    out, seen = [], set()
    for cfg, fam in fams:
        r, nodes, edges, inits = ctx.tlc_graph("TcpConn", "MC_TcpConn.tla", cfg, workers=2, timeout=900, heap="4g")
        n0 = len(out)
        for key in sorted(delivery_projections(nodes, edges, inits)):
            if len(key) >= 2 and key not in seen:
                seen.add(key)
                out.append({"fam": fam, "frames": [{"kind": "hit", "sz": z, "opt": o, "brk": b} for z, o, b in key]})
        ctx.log("TcpConn ScriptSpec %s: %d states, %d edges -> %d new scripts" % (cfg, len(nodes), len(edges), len(out) - n0))
        if len(out) == n0:
            raise vf.MachineryError("no stream script could be projected from %s" % cfg)
    out += edge_scripts()
    ctx.cov["replay"]["stream_scripts"] = {"scripts": len(out)}
    return out


def stall_scripts(ctx):
    """The writes that can run into the write bound while the client is not reading, from the labelled state graph of
    TcpConn.tla's ScriptSpec with Stall on: every edge on which the ghost `cut` is set while `cstall` holds is a write that
    timed out; its site (Serve = inside stage(): the reply being staged displaces what is held, or is written on its
    own) and the size classes involved -- what was staged, then the reply being staged -- name a cycle.  The driver
    pipelines each chosen cycle on a connection it does not read (quick: two cycles, the ones whose timed-out write is
    the flush a displaced burst goes out with; thorough: all of them)."""
    r, nodes, edges, inits = ctx.tlc_graph("TcpConn", "MC_TcpConn.tla", "MC_script_stall.cfg", workers=2, timeout=900, heap="4g")
    cycles = {}
    for src, dst, label in edges:
        a, b = nodes[src], nodes[dst]
        if not (a["cut"] == -1 and b["cut"] != -1 and a["cstall"]):
            continue
        site = label.split("(")[0]
        staged = [f["sz"] for f in a["drain"]]
        if site == "Serve":
            cyc = tuple(staged + [a["fill"][0]["f"]["sz"]])
        else:
            cyc = tuple(staged)
        if cyc:
            cycles.setdefault((site, cyc), 0)
            cycles[(site, cyc)] += 1
    if not any(site == "Serve" for site, _ in cycles):
        raise vf.MachineryError("MC_script_stall.cfg: no write inside stage() times out in the graph (%d states)" % len(nodes))
    ctx.log("TcpConn ScriptSpec MC_script_stall.cfg: %d states, %d edges -> timed-out writes: %s" % (
        len(nodes), len(edges), sorted("%s:%s" % (s, ",".join(c)) for s, c in cycles)))
    serve = sorted(c for s, c in cycles if s == "Serve")
    # flush-then-stage first (the last reply is not huge), shortest first: those are the writes only flush() judges
    serve.sort(key=lambda c: (c[-1] == "huge", len(c), c))
    if ctx.tier != "thorough":
        # ... and one in which a huge reply displaces what is staged (flush, then the direct write)
        pick = [c for c in serve if c[-1] != "huge"][:1] + [c for c in serve if c[-1] == "huge" and len(c) > 1][:1]
    else:
        pick = serve
    out = [{"cycle": list(c), "site": "Serve"} for c in pick]
    ctx.cov["replay"]["stall_scripts"] = {"timed_out_writes": len(cycles), "played": [",".join(c) for c in pick]}
    for c in pick:
        ctx._distinct.add("stall-cycle:" + ",".join(c))
    return out


DRAIN = 8 << 10
STALL_FRAMES = 2600     # queries pipelined on a connection that is not read: their replies (2.7 .. 10.7 kB each) overrun the
                        # socket buffers between the server and a client with a 4 KiB receive buffer many times over


def edge_scripts():
    """TcpConn.tla's stage rule at byte precision (need > free => flush first; need counts the 2-byte prefix): pipelined
    hits whose exact-size answers leave the drain buffer with precisely F bytes free, followed by a frame that needs
    F (fits exactly), F+1 or F+2 (one or two bytes too many: must be flushed-then-staged, never cut), F-1."""
    out = []
    for n_before in (1, 3, 7):
        for last_body in (1024, 600):
            for ov in (-1, 0, 1, 2):
                free = last_body + 2 - ov            # the last frame needs free + ov bytes
                used = DRAIN - free
                # n_before framed replies that occupy exactly `used` bytes
                base = used // n_before
                sizes = [base] * n_before
                sizes[-1] += used - base * n_before
                if min(sizes) < 120:
                    continue
                frames = [{"kind": "hit", "sz": "e%d" % (z - 2), "opt": "none", "brk": False} for z in sizes]
                frames.append({"kind": "hit", "sz": "e%d" % last_body, "opt": "none", "brk": False})
                out.append({"fam": "edge", "frames": frames})
    return out


def run_driver(ctx, pkg, test, inp, name, timeout):
    """go_driver, but an engine assertion that kills the test binary is a verdict, not machinery."""
    fin = os.path.join(ctx.scratch, "%s.in.json" % name)
    fout = os.path.join(ctx.scratch, "%s.out.json" % name)
    with open(fin, "w") as f:
        json.dump(inp, f)
    if os.path.exists(fout):
        os.remove(fout)
    rc, out = ctx.go_test(pkg, "^%s$" % test, env={"VERIF_IN": fin, "VERIF_OUT": fout, "VERIF_SCRATCH": ctx.scratch},
                          timeout=timeout)
    if os.path.exists(fout):
        with open(fout) as f:
            res = json.load(f)
        if rc != 0 and not res.get("violations"):
            raise vf.MachineryError("driver %s failed rc=%d without a violation\n%s" % (test, rc, "\n".join(out.splitlines()[-60:])))
        res["_output"] = out
        return res
    for mark, mark2, what in PANIC_MARKS:
        if mark in out and mark2 in out:
            m = re.search(r"(panic: [^\n]*\n(?:.*\n){0,40})", out[out.find(mark) - 200 if out.find(mark) > 200 else 0:])
            ctx.violation("engine-assert/" + mark,
                          "[%s] %s -- on a real execution; the panic took the server process down"
                          % (inp.get("name"), what),
                          {"driver": test, "config": inp, "seed": ctx.seed,
                           "panic": (m.group(1) if m else mark)[:4000]})
            return None
    if "undefined: verifTraceUDP" in out or "undefined: server.SetVerifUDPTrace" in out or "VerifUDPEvent" in out and "undefined" in out:
        raise vf.MachineryError("the engine trace hook is not in the tree under test "
                                "(apply /verif/hooks/c10_engine_trace.patch)\n" + "\n".join(out.splitlines()[-15:]))
    raise vf.MachineryError("driver %s produced no result (rc=%d)\n%s" % (test, rc, "\n".join(out.splitlines()[-80:])))


UDP_INVARIANTS = ("ReplyIsOwn", "ReplyOptIsOwn", "ReplyHeaderIsOwn", "SilentStaysSilent", "AtMostOneSend", "OwnershipWalk",
                  "LeaseBound", "AllHome")
WHAT = {
    "ReplyOptIsOwn": "a datagram left a slab with a COOKIE option that was not built from the client cookie of the packet in "
                     "that slab's RX (the packet carried none, or a different one), or with an NSID / keepalive option the "
                     "packet did not ask for: something of an earlier request that the job-owned edns writer slot kept",
    "ReplyIsOwn": "a datagram left a slab carrying bytes that were not produced for the packet in that slab's RX, "
                  "or addressed to somebody else than the packet's sender",
    "SilentStaysSilent": "a datagram was sent for a packet that was decided in silence (nothing was written for it in this lease)",
    "AtMostOneSend": "a second datagram was sent for one packet",
    "OwnershipWalk": "udpJob.transition found the job in another state than the owner asserted (two owners / double release)",
    "LeaseBound": "more slabs were out than the admission cap allows",
    "AllHome": "after the load stopped a slab was still queued/serving/staged, or the lease count does not match the readers' armed "
               "slabs, or more slabs are out in `reading` than the run's readers can have armed between them (a slab held by nobody)",
    "ReplyHeaderIsOwn": "a datagram left a slab with AD=1 although the packet in that slab's RX is not one whose answer is validated, or "
                        "with the reserved bit set: flag bits an earlier reply left in the slab's TX buffer",
}


def model_runs(ctx):
    """Exhaustive configurations (must pass) and regression configurations (a rule switched off: a named property
    invariant must fail on the model alone -- the invariants are not vacuous).  The runs are independent of the
    tree under test and of each other: a few at a time."""
    thorough = ctx.tier == "thorough"
    big = dict(workers=4, timeout=3000, heap="12g")
    small = dict(workers=3, timeout=900, heap="6g")
    jobs = []        # (module_dir, spec, cfg, kwargs, expected violated invariants or None)
    for cfg in ("MC_portable.cfg", "MC_batch.cfg", "MC_mixed.cfg", "MC_opt.cfg", "MC_trunc.cfg", "MC_hdr.cfg"):
        jobs.append(("UdpJob", "MC_UdpJob.tla", cfg, small, None))
    if thorough:
        for cfg in ("MC_portable_panic.cfg", "MC_batch_cap4.cfg", "MC_batch_noinline.cfg", "MC_mixed3.cfg",
                    "MC_portable_w2.cfg", "MC_batch_all.cfg", "MC_opt_c2.cfg", "MC_opt_batch.cfg", "MC_trunc_mixed.cfg"):
            jobs.append(("UdpJob", "MC_UdpJob.tla", cfg, big, None))
    # (a stale staged length also reaches the nil burst of an overflow serve: ReleaseOnce is the same defect's
    # second symptom, and which invariant TLC's parallel BFS reports first at equal depth is not deterministic)
    regress = [("MC_regress_noscrub.cfg", ("ReplyIsOwn", "SilentStaysSilent", "ReleaseOnce")),
               ("MC_regress_norawsa.cfg", ("ReplyIsOwn",)),
               ("MC_regress_both.cfg", ("SingleOwner", "AtMostOneSend", "ReleaseOnce")),
               ("MC_regress_slotnotreset.cfg", ("ReplyOptIsOwn",)),
               ("MC_regress_truncleak.cfg", ("NoHeldSlabs",)),
               ("MC_regress_hdrnotcleared.cfg", ("ReplyHeaderIsOwn",))]
    if thorough:
        regress.append(("MC_regress_noscrub_batch.cfg", ("ReplyIsOwn", "SilentStaysSilent", "ReleaseOnce")))
        regress.append(("MC_regress_slotnotreset_batch.cfg", ("ReplyOptIsOwn",)))
    for cfg, want in regress:
        jobs.append(("UdpJob", "MC_UdpJob.tla", cfg, small, want))
    for cfg in ("MC_quick.cfg", "MC_opt.cfg", "MC_stall.cfg"):
        jobs.append(("TcpConn", "MC_TcpConn.tla", cfg, small, None))
    if thorough:
        for cfg in ("MC_thorough.cfg", "MC_opt_thorough.cfg", "MC_stall_thorough.cfg"):
            jobs.append(("TcpConn", "MC_TcpConn.tla", cfg, big, None))
    for cfg, want in (("MC_regress_noflushwait.cfg", ("NothingHeldWhileBlocked",)),
                      ("MC_regress_directnoflush.cfg", ("WholeInOrderOnePerQuery",)),
                      ("MC_regress_slotnotreset.cfg", ("ReplyOptIsOwn",)),
                      # (a reply dropped by the forgotten error shows as a gap -- WholeInOrderOnePerQuery -- or as frames
                      # behind the failed write -- StreamEndsAtFailedWrite --, whichever TLC's parallel BFS meets first)
                      ("MC_regress_timeoutnotsticky.cfg", ("WholeInOrderOnePerQuery", "StreamEndsAtFailedWrite"))):
        jobs.append(("TcpConn", "MC_TcpConn.tla", cfg, small, want))

    def one(job):
        d, spec, cfg, kw, want = job
        if want is None:
            return job, ctx.tlc(d, spec, cfg, count=False, **kw)
        return job, ctx.tlc(d, spec, cfg, must_pass=False, tag="regression", count=False, **kw)

    with ThreadPoolExecutor(max_workers=4 if not thorough else 3) as ex:
        done = list(ex.map(one, jobs))
    for (d, spec, cfg, kw, want), r in done:
        if want is None:
            ctx.cov["states"] += r.distinct
            ctx.cov["transitions"] += r.generated
            continue
        if r.violated not in want:
            raise vf.MachineryError("regression config %s/%s: expected one of %s to fail on the mutant model, got %r"
                                    % (d, cfg, want, r.violated))
        ctx._distinct.add("%s-regress:%s:%s" % (d.lower(), cfg, r.violated))


def slab_reuse_stats(lines):
    """How often, per recorded run, a slab answered a cookie-less OPT packet (or one without OPT) right after it had
    answered a packet that carried a client cookie: the reuse on which a slot that is not zeroed shows."""
    stats, run, last, lastad = {}, "?", {}, {}
    zero = {"cookie_then_plain": 0, "cookie_then_none": 0, "sends_with_cookie": 0, "ad_then_failing_name": 0}
    for ln in lines:
        if '"ev":"reset"' in ln:
            run, last, lastad = json.loads(ln).get("cfg_name", "?"), {}, {}
            stats.setdefault(run, dict(zero))
            continue
        if '"ev":"send' not in ln:
            continue
        e = json.loads(ln)
        j, o = e.get("j"), e.get("rxopt", "")
        st = stats.setdefault(run, dict(zero))
        # the reuse on which a flags word that is not cleared shows: a reply to a failing name ("x-": the failure cache
        # answers) leaves the slab whose previous datagram carried AD=1
        if e.get("rk") == "x" and lastad.get(j):
            st["ad_then_failing_name"] += 1
        lastad[j] = bool(e.get("txad"))
        if o == "cookie":
            st["sends_with_cookie"] += 1
        if last.get(j) == "cookie" and o == "plain":
            st["cookie_then_plain"] += 1
        if last.get(j) == "cookie" and o == "none":
            st["cookie_then_none"] += 1
        if o:
            last[j] = o
    return stats


def validate_udp_trace(ctx, trace, prefix="", extended=False):
    if not os.path.exists(trace):
        return
    lines = open(trace).read().splitlines()
    ok, r = ctx.tlc_trace("UdpJob", "Trace_UdpJob.tla", "Trace_UdpJob_opt.cfg" if extended else "Trace_UdpJob.cfg",
                          trace, timeout=1800)
    matched = max(0, r.depth - 1)
    drift = 0
    for m in re.finditer(r'<<"drift", (\d+), "slabs", (\d+)>>', r.out):
        drift = max(drift, int(m.group(1)))
    info = {"lines": len(lines), "matched": matched, "drift": drift, "wall_s": round(r.wall, 1)}
    ctx.cov["replay"]["trace_udpjob"] = info
    ctx.log("Trace_UdpJob: %d of %d lines explained, drift=%d, violated=%s" % (matched, len(lines), drift, r.violated))
    if r.violated in UDP_INVARIANTS:
        # the state after line `matched` breaks the invariant: the line is lines[matched-1]
        k = matched
        ctxl = lines[max(0, k - 25):k]
        run = "?"
        for ln in reversed(lines[:k]):
            if '"ev":"reset"' in ln:
                run = json.loads(ln).get("cfg_name", "?")
                break
        bad = json.loads(lines[k - 1]) if 0 < k <= len(lines) else {}
        slab = bad.get("j")
        hist = [ln for ln in lines[max(0, k - 400):k] if '"j":%s,' % slab in ln][-12:]
        if r.violated == "AllHome":
            # which slabs never came home: last event per slab of this run
            lastev = {}
            for ln in lines[:k]:
                if '"ev":"reset"' in ln:
                    lastev = {}
                elif '"j":' in ln:
                    e = json.loads(ln)
                    lastev[e["j"]] = e
            stuck = [e for e in lastev.values()
                     if not (e["ev"] == "release" or (e["ev"] in ("trans", "take") and e.get("to") == "reading"))]
            hist = [json.dumps(e) for e in stuck[:12]]
            slab = [e["j"] for e in stuck]
            # no slab queued / serving, yet more out than the readers can have armed: slabs that are nobody's
            out_reading = [e["j"] for e in lastev.values() if e not in stuck and e["ev"] != "release"]
            if not stuck and bad.get("hold") is not None and len(out_reading) > bad["hold"]:
                slab = "%d slabs out in `reading` (leased=%s), the readers can hold %s" % (len(out_reading), bad.get("ls"), bad["hold"])
                hist = [json.dumps(lastev[j]) for j in sorted(out_reading)[:24]]
        ctx.violation("trace/" + r.violated,
                      "%s[%s] %s is false on a recorded walk of the real UDP engine (trace line %d, slab %s, event %s): %s"
                      % (prefix, run, r.violated, k, slab, bad.get("ev"), WHAT[r.violated]),
                      {"driver": "Trace_UdpJob", "run": run, "invariant": r.violated, "line": bad,
                       "slab_history": hist, "trace_tail": ctxl, "seed": ctx.seed})
        return
    if not ok:
        if r.violated and r.violated != "TraceAccepted":
            raise vf.MachineryError("trace spec failed on %s\n%s" % (r.violated, "\n".join(r.out.splitlines()[-30:])))
        raise vf.MachineryError("Trace_UdpJob did not consume the trace (%d of %d lines)\n%s"
                                % (matched, len(lines), "\n".join(r.out.splitlines()[-30:])))
    runs = sum(1 for ln in lines if '"ev":"reset"' in ln)
    ctx.cov["traces_validated_against_impl"] += runs
    if extended:
        reuse = slab_reuse_stats(lines)
        ctx.cov["replay"]["trace_udpjob"]["slab_reuse"] = reuse
        for run, st in reuse.items():
            if st["cookie_then_plain"] < 3 or st["sends_with_cookie"] < 10:
                raise vf.MachineryError("engine run %s never recycled a slab from a cookie request to a cookie-less OPT "
                                        "request (ReplyOptIsOwn would be vacuous): %s" % (run, st))
            if st["ad_then_failing_name"] < 3:
                raise vf.MachineryError("engine run %s never sent the reply to a failing name from a slab whose previous datagram "
                                        "carried AD=1 (ReplyHeaderIsOwn would be vacuous): %s" % (run, st))
    if drift:
        ctx.cov["drift"] += drift
        ctx.log("DRIFT: %d recorded steps differ from what UdpSlab.tla predicts (no property predicate failed)" % drift)


TCP_WHAT = {
    "WholeInOrderOnePerQuery": "replies are not whole, one per answerable query, in query order, each of the size class its "
                               "question asks for",
    "NothingAfterFatal": "a query behind a frame that ends the session was answered",
    "ReplyOptIsOwn": "a reply carries a COOKIE option that was not built from its own query's client cookie (the query "
                     "carried none, or a different one), or an NSID / keepalive option its query did not ask for: "
                     "something of a request served earlier on the same job",
}
WANT_ORDERS = ("small,huge", "huge,small", "small,huge,small", "huge,huge", "large,large", "small,large", "huge|small",
               "small|huge")


def stream_order_stats(lines):
    """Per transport: which size-class orders (',' = same write, '|' = after the server blocked) and which EDNS
    orders were played by a scripted connection and read to the end."""
    st = {}
    for ln in lines:
        o = json.loads(ln)
        proto = o["conn"].split("/")[1] if o.get("conn", "").count("/") >= 2 else "?"
        d = st.setdefault(proto, {"scripted": 0, "scripted_done": 0, "orders": set(), "opt_orders": set(), "sweeps": 0,
                                  "big_frames": 0})
        d["big_frames"] += sum(1 for z, k in zip(o.get("rsz", []), o.get("rok", [])) if k and z != "small")
        lab = o.get("script", "")
        if lab.startswith("sweep/") and o.get("done"):
            d["sweeps"] += 1
        if not lab.startswith("script/"):
            continue
        d["scripted"] += 1
        if not o.get("done"):
            continue
        d["scripted_done"] += 1
        sz, op, brk = o["sizes"], o["opts"], o["brk"]
        for a in range(len(sz)):
            for b in range(a + 1, len(sz) + 1):
                key = sz[a]
                okey = op[a]
                for i in range(a + 1, b):
                    key += ("|" if brk[i] else ",") + sz[i]
                    okey += ("|" if brk[i] else ",") + op[i]
                if b - a >= 2:
                    d["orders"].add(key)
                    d["opt_orders"].add(okey)
    return st


def validate_tcp_trace(ctx, trace, prefix="", extended=False, scripted=()):
    if not os.path.exists(trace):
        return
    lines = open(trace).read().splitlines()
    if not lines:
        return
    ok, r = ctx.tlc_trace("TcpConn", "Trace_TcpConn.tla", "Trace_TcpConn_opt.cfg" if extended else "Trace_TcpConn.cfg",
                          trace, timeout=900)
    matched = max(0, r.depth - 1)
    ctx.cov["replay"]["trace_tcpconn"] = {"connections": len(lines), "matched": matched, "wall_s": round(r.wall, 1)}
    ctx.log("Trace_TcpConn: %d of %d connections, violated=%s" % (matched, len(lines), r.violated))
    if r.violated in TCP_WHAT:
        bad = json.loads(lines[matched - 1]) if 0 < matched <= len(lines) else {}
        ctx.violation("trace/tcp/" + r.violated,
                      "%s%s is false on what a client of the real stream engine received (connection %s, %s): %s"
                      % (prefix, r.violated, bad.get("conn"), bad.get("script"), TCP_WHAT[r.violated]),
                      {"driver": "Trace_TcpConn", "connection": bad, "seed": ctx.seed})
        return
    if not ok:
        raise vf.MachineryError("Trace_TcpConn did not consume the trace (%d of %d)\n%s"
                                % (matched, len(lines), "\n".join(r.out.splitlines()[-30:])))
    ctx.cov["traces_validated_against_impl"] += len(lines)
    if extended:
        st = stream_order_stats(lines)
        info = {p: dict(d, orders=sorted(d["orders"]), opt_orders=len(d["opt_orders"])) for p, d in st.items()}
        ctx.cov["replay"]["trace_tcpconn"]["size_class_orders"] = info
        for proto in scripted:
            d = st.get(proto)
            if d is None:
                raise vf.MachineryError("no %s connection was recorded although scripts were sent" % proto)
            missing = [o for o in WANT_ORDERS if o not in d["orders"]]
            if missing or d["scripted_done"] * 10 < d["scripted"] * 9 or d["sweeps"] < 2 \
                    or "cookie,plain" not in d["opt_orders"] or "cookie|plain" not in d["opt_orders"]:
                raise vf.MachineryError("the scripted %s connections did not cover what they are for: %d of %d read to the "
                                        "end, %d sweeps, size-class orders missing: %s" % (
                                            proto, d["scripted_done"], d["scripted"], d["sweeps"], missing))
            for o in d["orders"]:
                ctx._distinct.add("stream-order:%s:%s" % (proto, o))


def engines(ctx, prefix="", only=None, secure=True, extended=None, scripts=None, stalls=None):
    """The engine load driver (and, with secure, the encrypted legs), then the recorded walks through the trace specs.
    extended (default: only when the property under check is C10) adds what is C10's alone: the OPT provenance
    predicate on every reply, the hygiene sweep, the TLC-enumerated stream scripts and ReplyOptIsOwn on the traces;
    another property borrowing the driver (C11's engine walk) keeps its own judgement."""
    if extended is None:
        extended = ctx.pid == "C10"
    if extended and scripts is None:
        scripts = stream_scripts(ctx)
    if extended and stalls is None:
        stalls = stall_scripts(ctx)
    trace = os.path.join(ctx.scratch, "udpjob_trace.ndjson")
    tcptrace = os.path.join(ctx.scratch, "tcpconn_trace.ndjson")
    for p in (trace, tcptrace):
        if os.path.exists(p):
            os.remove(p)
    runs = []
    scripted = set()
    for cfg in engine_configs(ctx.tier, ctx.seed):
        if only is not None and cfg["name"] not in only:
            continue
        cfg = dict(cfg, traceOut=trace, tcpTraceOut=tcptrace)
        if extended:
            cfg.update(optCheck=True, sweep=1 if ctx.tier != "thorough" else 2, scriptPar=4, scripts=[], hdrCheck=True)
            if cfg["name"] in SCRIPT_RUNS.get(ctx.tier, SCRIPT_RUNS["quick"]):
                cfg["scripts"] = scripts
                scripted.add("tcp")
                # connections that are not read while the server's write bound (2 s) passes; two at a time at most
                # (each holds a small-class job while it is parked in its write)
                cfg.update(stalls=stalls[:2] if ctx.tier != "thorough" else stalls, stallFrames=STALL_FRAMES, stallHoldMs=3200)
        res = run_driver(ctx, "./c10", "TestEngineLoad", cfg, "eng_" + cfg["name"], timeout=900)
        if res is None:
            continue
        ctx.take_driver_result(res, prefix)
        c = res.get("counters", {})
        info = {k: c[k] for k in sorted(c)}
        info["skipped"] = res.get("skipped", [])
        info["drift_notes"] = res.get("drift_notes", [])
        ctx.cov["replay"]["engine_" + cfg["name"]] = info
        runs.append((cfg, res))
        ctx.log("engine %s: udp recv=%d tcp frames=%d/%d (large/huge ok=%d) trace=%d lines slabs=%d violations=%d" % (
            cfg["name"], c.get("udp_datagrams_received", 0), c.get("tcp_answered", 0), c.get("tcp_expected", 0),
            c.get("tcp_big_replies_ok", 0), c.get("trace_lines", 0), c.get("trace_slabs", 0), len(res.get("violations", []))))
        for note in res.get("drift_notes", [])[:2]:
            ctx.log("DRIFT (%s): %s" % (cfg["name"], note))
        if res.get("skipped"):
            raise vf.MachineryError("engine run %s skipped: %s" % (cfg["name"], res["skipped"][:3]))
        if not res.get("violations") and (c.get("udp_datagrams_received", 0) < 50 or c.get("tcp_answered", 0) < 10
                                          or c.get("tcp_big_replies_ok", 0) < 8):
            raise vf.MachineryError("engine run %s is vacuous: %s" % (cfg["name"], info))
        if not res.get("violations") and cfg.get("poison") and not c.get("poison_unavailable"):
            if c.get("poison_good_answered_once", 0) < cfg["poison"]:
                raise vf.MachineryError("engine run %s: the refused-destination bursts were not answered (%s)" % (
                    cfg["name"], {k: v for k, v in c.items() if k.startswith("poison")}))
            if c.get("poison_fallback_sends_behind_others", 0) == 0:
                raise vf.MachineryError("engine run %s: no transmit group met a refused destination behind an accepted one (%s): "
                                        "the per-reply fallback after a partial sendmmsg was not exercised" % (
                                            cfg["name"], {k: v for k, v in c.items() if k.startswith("poison")}))
        if not res.get("violations") and cfg.get("stalls"):
            if c.get("stall_conns", 0) < len(cfg["stalls"]) or c.get("stall_all_arrived", 0) or c.get("stall_ended_idle", 0) \
                    or c.get("stall_frames_received", 0) < 50:
                raise vf.MachineryError("engine run %s: the connections that were not read did not meet the server's write bound "
                                        "(vacuous): %s" % (cfg["name"], {k: v for k, v in c.items() if k.startswith("stall")}))
        if not res.get("violations") and cfg.get("hdrCheck") and c.get("failure_rung_served", 0) < 20:
            raise vf.MachineryError("engine run %s: the failure cache's byte rung composed only %s replies (ReplyHeaderIsOwn would be "
                                    "vacuous)" % (cfg["name"], c.get("failure_rung_served")))
        if not res.get("violations") and cfg.get("oversize") and (c.get("udp_sent_oversize", 0) < 8 or not c.get("leased_after_stop_checked")):
            raise vf.MachineryError("engine run %s: only %s oversize datagrams were sent / the lease count after the stop was not "
                                    "read (NoHeldSlabs would be vacuous)" % (cfg["name"], c.get("udp_sent_oversize")))
        if not res.get("violations") and cfg.get("scripts") and any(sc.get("fam") == "edge" for sc in cfg["scripts"]):
            if c.get("tcp_exact_replies_ok", 0) < 20 or c.get("tcp_exact_replies_off", 0) > c.get("tcp_exact_replies_ok", 0) // 10:
                raise vf.MachineryError("engine run %s: the exact-size answers of the edge scripts missed their target lengths "
                                        "(ok=%s off=%s): the drain-buffer boundary was not exercised" % (
                                            cfg["name"], c.get("tcp_exact_replies_ok", 0), c.get("tcp_exact_replies_off", 0)))
    if secure:
        if secure_legs(ctx, tcptrace, prefix, extended, scripts):
            scripted.add("dot")
    validate_udp_trace(ctx, trace, prefix, extended)
    validate_tcp_trace(ctx, tcptrace, prefix, extended, sorted(scripted) if not ctx.violations else ())
    return runs


def secure_legs(ctx, tcptrace, prefix="", extended=False, scripts=None):
    """DoT / DoH / DoH3 / DoQ on loopback under a self-generated certificate; a leg that cannot be
    brought up offline is recorded as skipped in the evidence (never faked).  Returns whether the
    stream scripts were played on DoT."""
    thorough = ctx.tier == "thorough"
    inp = {"name": "secure", "clients": 3 if not thorough else 8, "each": 24 if not thorough else 120,
           "tcpTraceOut": tcptrace}
    if extended:
        inp.update(optCheck=True, sweep=1, scriptPar=4, scripts=scripts or [])
    res = run_driver(ctx, "./c10", "TestSecureTransports", inp, "secure", timeout=900)
    if res is None:
        return False
    ctx.take_driver_result(res, prefix)
    c = res.get("counters", {})
    skipped = res.get("skipped", [])
    if any(s.startswith("all: priming") for s in skipped):
        raise vf.MachineryError("secure transports: %s" % skipped[:3])
    legs = {}
    for leg in ("dot", "doh", "doh3", "doq"):
        n = c.get(leg + "_answered", 0)
        legs[leg] = {"answered": n, "sent": c.get(leg + "_expected", 0) or c.get(leg + "_sent", 0),
                     "silent_ok": c.get(leg + "_silent_ok", 0), "errors": c.get(leg + "_errors", 0),
                     "large_huge_ok": c.get(leg + "_big_replies_ok", 0) if leg != "dot" else c.get("stream_big_replies_ok", 0),
                     "status": "exercised" if n > 0 else "skipped"}
        if extended and n > 0 and not res.get("violations") and legs[leg]["large_huge_ok"] < 1:
            raise vf.MachineryError("secure leg %s carried no large/huge reply: %s" % (leg, legs[leg]))
    ctx.cov["replay"]["secure_transports"] = {"legs": legs, "skipped": skipped,
                                              "drift_notes": res.get("drift_notes", []),
                                              "large_huge_replies_ok": c.get("stream_big_replies_ok", 0)}
    ctx.log("secure transports: %s skipped=%s" % (
        {k: "%d/%d" % (v["answered"], v["sent"]) for k, v in legs.items()}, skipped))
    for leg, v in legs.items():
        if v["status"] == "skipped":
            ctx.assumptions.append("transport leg %s could not be exercised offline in this run: SKIPPED (%s)"
                                   % (leg, "; ".join(s for s in skipped if s.startswith(leg) or s.startswith("all")) or "no answers"))
    return bool(extended and scripts and legs["dot"]["status"] == "exercised" and not res.get("violations"))


def fresh_overlay(ctx, tag):
    ctx.overlay_tags.add(tag)
    ov = os.path.join(ctx.scratch, "overlay.json")
    if os.path.exists(ov):
        os.remove(ov)


def run(ctx, replay):
    ctx.cov["rule"] = ("states/transitions = TLC exhaustive runs of UdpJob.tla (portable, batch+inline, mixed readers, EDNS "
                       "shapes over the job-owned writer slot) and TcpConn.tla (size classes, writer slot); evaluations = "
                       "packets/connections whose every received byte was checked for provenance by its client (id, question, "
                       "rdata = f(question), OPT options only from the own query); distinct = packet kind x transport x ending "
                       "classes + size-class orders replayed per stream transport; traces = engine runs whose recorded "
                       "ownership walk (verif trace hook) was validated by Trace_UdpJob.tla + stream connections validated by "
                       "Trace_TcpConn.tla")
    ctx.assumptions += [
        "the kernel's recvmmsg/sendmmsg ordering and loopback delivery are trusted",
        "DoT/DoH/DoH3/DoQ legs run on loopback under a self-generated certificate; a leg whose listener does not come "
        "up offline is recorded as SKIPPED under coverage.replay.secure_transports (never faked); the DoQ leg does not "
        "send the panic-ahead-of-recovery kind (the DoQ stream goroutine has no panic guard of its own)",
        "the mixed (recvmmsg fallback) shape is reached by starting the portable reader next to the batch reader "
        "through the overlay shim, as udpBatchReader.permanentRerr would after a permanent errno",
        "release() and serveInline's transition+count are single steps in UdpJob.tla; the edns handler's use of the "
        "job-owned writer slot (fill, build the OPT, zero) is one step inside the serve that owns the slab",
        "a scripted stream chunk is one write() of a few hundred bytes on loopback: the engine's read is taken to return "
        "it whole (the frames of a chunk are in the fill buffer together)",
        "a reply OPT with no option and the server's own size in answer to a query without OPT holds nobody else's bytes: "
        "counted as drift (opt_in_reply_to_optless_query), not judged",
    ]
    require_hook()
    scripts = stream_scripts(ctx)
    stalls = stall_scripts(ctx)
    # the model runs do not depend on the tree under test: they go on beside the engine drivers
    box = {}

    def models():
        try:
            model_runs(ctx)
        except BaseException as ex:     # re-raised on the main thread
            box["err"] = ex

    th = threading.Thread(target=models, name="c10-models")
    th.start()
    try:
        engines(ctx, scripts=scripts, stalls=stalls)
    finally:
        th.join()
    if "err" in box:
        raise box["err"]
    if os.environ.get("VERIF_C10_ONLY", "") == "engine":      # trials: the engine drivers and the UdpJob / TcpConn models only
        return
    # exclusive ownership on the DoH / DoH3 / DoQ listeners (FrontEnd.tla): one reply per exchange, the reply of an
    # exchange is its own whatever else is parked on the connection; classes c06/* and fe/* are drift here
    import x06fe
    x06fe.ONLY = ("c10/",)
    x06fe.run_tier(ctx)
    # shared upstream lookups (Flight.tla): what a caller gets out of a coalesced lookup is its own id and question
    # and a private copy; the tier's deadline / cancellation / slot classes belong to C11 and are drift here
    import x11fl
    x11fl.ONLY = "C10"
    fresh_overlay(ctx, "x11fl")
    x11fl.run_tier(ctx)
    # pooled upstream TCP connections (TcpPool.tla): a connection handed out is nobody else's, what an exchange accepts
    # from it carries its own id and question, nothing is pooled after an error; the pool's internal accounting and the
    # server ranking (families c11 / pool / rank) are logged OFF-PROPERTY here
    import x10tp
    x10tp.run_tier(ctx, families=("c10",))
