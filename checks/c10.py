"""C10 -- replies reach only their own client and carry only their own bytes.

UdpJob.tla  : the owned UDP engine, one action per ownership step; TLC exhaustive (portable, batch
              with the inline pass, mixed batch+portable readers) + regression configs in which the
              scrub / rawSA reset / staged-is-terminal rules are switched off (each must break a
              property invariant on the model alone -- the invariants are not vacuous).
TcpConn.tla : one stream connection, pipelined frames, job class swap, staged frames and flush.
Engine      : the real server.Server on loopback UDP+TCP sockets with tiny ingress limits, real chain
              up to the cache + scripted tail whose answers encode the question; concurrent clients
              check byte provenance of everything they receive; the verif trace hook (hooks/
              c10_engine_trace.patch) is recorded and validated by Trace_UdpJob.tla (ReplyIsOwn,
              SilentStaysSilent, AtMostOneSend, ownership walk, LeaseBound at every event; all slabs
              home at the end).  TCP observations are validated by Trace_TcpConn.tla.
"""
import json
import os
import re

import vf

PANIC_MARKS = (
    # (what must appear in the dead test binary's output, second required mark, meaning)
    ("server: udp job ownership violated", "",
     "udpJob.transition's ownership assertion fired: a job was released twice or had two owners"),
    ("server: tcp job released twice", "", "tcpEngine.put's double-release guard fired"),
    ("nil pointer dereference", "server.(*udpTXBurst).add",
     "burst.add on the nil burst of an overflow serve: the job reached a burst-less serve already carrying a "
     "staged length (a reply left over from the slab's previous lease, or from an inline pass that also handed off)"),
)


def require_hook():
    """The engine trace hook must be in the tree under test (hooks/c10_engine_trace.patch)."""
    try:
        with open(os.path.join(vf.REPO, "server", "udp_engine.go")) as f:
            ok = "verifTraceUDP(" in f.read()
        ok = ok and os.path.exists(os.path.join(vf.REPO, "server", "verif_trace_on.go"))
    except OSError:
        ok = False
    if not ok:
        raise vf.MachineryError("the UDP engine trace hook is not in %s: apply /verif/hooks/c10_engine_trace.patch "
                                "(git -C <repo> apply /verif/hooks/c10_engine_trace.patch)" % vf.REPO)


def engine_configs(tier, seed):
    thorough = tier == "thorough"
    r = 14 if not thorough else 60
    cfgs = [
        dict(name="batch-w1", mode="batch", workers=1, queue=1, sockets=1, spare=0),
        dict(name="mixed-w1", mode="mixed", workers=1, queue=1, sockets=1, spare=0, fallbackRound=r // 3),
        dict(name="portable-w2", mode="portable", workers=2, queue=1, sockets=1, spare=2),
    ]
    if thorough:
        cfgs += [
            dict(name="batch-w2-s2", mode="batch", workers=2, queue=1, sockets=2, spare=0),
            dict(name="mixed-w2-s2", mode="mixed", workers=2, queue=1, sockets=2, spare=0, fallbackRound=r // 4),
            dict(name="retiretx-w1", mode="retiretx", workers=1, queue=1, sockets=1, spare=0),
            dict(name="portable-w1", mode="portable", workers=1, queue=1, sockets=1, spare=0),
            dict(name="batch-w1-load", mode="batch", workers=1, queue=1, sockets=1, spare=0, load=8),
        ]
    for i, c in enumerate(cfgs):
        c.setdefault("load", 0)
        c.setdefault("fallbackRound", 0)
        c.update(tcpSmall=2, tcpLarge=1, udpClients=10 if not thorough else 16, tcpClients=4 if not thorough else 8,
                 rounds=r, burst=6, tcpConnsEach=6 if not thorough else 30, tcpFrames=8,
                 perturb=True, traceLimit=400000)
    return cfgs


def run_driver(ctx, pkg, test, inp, name, timeout):
    """go_driver, but an engine assertion that kills the test binary is a verdict, not machinery."""
    fin = os.path.join(ctx.scratch, "%s.in.json" % name)
    fout = os.path.join(ctx.scratch, "%s.out.json" % name)
    with open(fin, "w") as f:
        json.dump(inp, f)
    if os.path.exists(fout):
        os.remove(fout)
    rc, out = ctx.go_test(pkg, "^%s$" % test, env={"VERIF_IN": fin, "VERIF_OUT": fout, "VERIF_SCRATCH": ctx.scratch},
                          timeout=timeout)
    if os.path.exists(fout):
        with open(fout) as f:
            res = json.load(f)
        if rc != 0 and not res.get("violations"):
            raise vf.MachineryError("driver %s failed rc=%d without a violation\n%s" % (test, rc, "\n".join(out.splitlines()[-60:])))
        res["_output"] = out
        return res
    for mark, mark2, what in PANIC_MARKS:
        if mark in out and mark2 in out:
            m = re.search(r"(panic: [^\n]*\n(?:.*\n){0,40})", out[out.find(mark) - 200 if out.find(mark) > 200 else 0:])
            ctx.violation("engine-assert/" + mark,
                          "[%s] %s -- on a real execution; the panic took the server process down"
                          % (inp.get("name"), what),
                          {"driver": test, "config": inp, "seed": ctx.seed,
                           "panic": (m.group(1) if m else mark)[:4000]})
            return None
    if "undefined: verifTraceUDP" in out or "undefined: server.SetVerifUDPTrace" in out or "VerifUDPEvent" in out and "undefined" in out:
        raise vf.MachineryError("the engine trace hook is not in the tree under test "
                                "(apply /verif/hooks/c10_engine_trace.patch)\n" + "\n".join(out.splitlines()[-15:]))
    raise vf.MachineryError("driver %s produced no result (rc=%d)\n%s" % (test, rc, "\n".join(out.splitlines()[-80:])))


UDP_INVARIANTS = ("ReplyIsOwn", "SilentStaysSilent", "AtMostOneSend", "OwnershipWalk", "LeaseBound", "AllHome")
WHAT = {
    "ReplyIsOwn": "a datagram left a slab carrying bytes that were not produced for the packet in that slab's RX, "
                  "or addressed to somebody else than the packet's sender",
    "SilentStaysSilent": "a datagram was sent for a packet that was decided in silence (nothing was written for it in this lease)",
    "AtMostOneSend": "a second datagram was sent for one packet",
    "OwnershipWalk": "udpJob.transition found the job in another state than the owner asserted (two owners / double release)",
    "LeaseBound": "more slabs were out than the admission cap allows",
    "AllHome": "after the load stopped a slab was still queued/serving/staged, or the lease count does not match the readers' armed slabs",
}


def model_runs(ctx):
    thorough = ctx.tier == "thorough"
    # ---- UdpJob: exhaustive, faithful configurations --------------------------
    for cfg in ("MC_portable.cfg", "MC_batch.cfg", "MC_mixed.cfg"):
        ctx.tlc("UdpJob", "MC_UdpJob.tla", cfg, workers=4, timeout=900, heap="6g")
    if thorough:
        for cfg in ("MC_portable_panic.cfg", "MC_batch_cap4.cfg", "MC_batch_noinline.cfg", "MC_mixed3.cfg", "MC_portable_w2.cfg", "MC_batch_all.cfg"):
            ctx.tlc("UdpJob", "MC_UdpJob.tla", cfg, workers=4, timeout=3000, heap="12g")
    # ---- regression configs: the invariants are not vacuous -------------------
    # (a stale staged length also reaches the nil burst of an overflow serve: ReleaseOnce is the same defect's
    # second symptom, and which invariant TLC's parallel BFS reports first at equal depth is not deterministic)
    regress = [("MC_regress_noscrub.cfg", ("ReplyIsOwn", "SilentStaysSilent", "ReleaseOnce")),
               ("MC_regress_norawsa.cfg", ("ReplyIsOwn",)),
               ("MC_regress_both.cfg", ("SingleOwner", "AtMostOneSend", "ReleaseOnce"))]
    if thorough:
        regress.append(("MC_regress_noscrub_batch.cfg", ("ReplyIsOwn", "SilentStaysSilent", "ReleaseOnce")))
    for cfg, want in regress:
        r = ctx.tlc("UdpJob", "MC_UdpJob.tla", cfg, workers=4, timeout=900, heap="6g", must_pass=False,
                    tag="regression", count=False)
        if r.violated not in want:
            raise vf.MachineryError("regression config %s: expected one of %s to fail on the mutant model, got %r"
                                    % (cfg, want, r.violated))
        ctx._distinct.add("udpjob-regress:%s:%s" % (cfg, r.violated))
    # ---- TcpConn ---------------------------------------------------------------
    ctx.tlc("TcpConn", "MC_TcpConn.tla", "MC_quick.cfg", workers=4, timeout=900, heap="6g")
    if thorough:
        ctx.tlc("TcpConn", "MC_TcpConn.tla", "MC_thorough.cfg", workers=4, timeout=3000, heap="12g")
    r = ctx.tlc("TcpConn", "MC_TcpConn.tla", "MC_regress_noflushwait.cfg", workers=4, timeout=900, heap="6g",
                must_pass=False, tag="regression", count=False)
    if r.violated != "NothingHeldWhileBlocked":
        raise vf.MachineryError("TcpConn regression config: expected NothingHeldWhileBlocked, got %r" % r.violated)
    ctx._distinct.add("tcpconn-regress:noflushwait")


def validate_udp_trace(ctx, trace, prefix=""):
    if not os.path.exists(trace):
        return
    lines = open(trace).read().splitlines()
    ok, r = ctx.tlc_trace("UdpJob", "Trace_UdpJob.tla", "Trace_UdpJob.cfg", trace, timeout=1800)
    matched = max(0, r.depth - 1)
    drift = 0
    for m in re.finditer(r'<<"drift", (\d+), "slabs", (\d+)>>', r.out):
        drift = max(drift, int(m.group(1)))
    info = {"lines": len(lines), "matched": matched, "drift": drift, "wall_s": round(r.wall, 1)}
    ctx.cov["replay"]["trace_udpjob"] = info
    ctx.log("Trace_UdpJob: %d of %d lines explained, drift=%d, violated=%s" % (matched, len(lines), drift, r.violated))
    if r.violated in UDP_INVARIANTS:
        # the state after line `matched` breaks the invariant: the line is lines[matched-1]
        k = matched
        ctxl = lines[max(0, k - 25):k]
        run = "?"
        for ln in reversed(lines[:k]):
            if '"ev":"reset"' in ln:
                run = json.loads(ln).get("cfg_name", "?")
                break
        bad = json.loads(lines[k - 1]) if 0 < k <= len(lines) else {}
        slab = bad.get("j")
        hist = [ln for ln in lines[max(0, k - 400):k] if '"j":%s,' % slab in ln][-12:]
        if r.violated == "AllHome":
            # which slabs never came home: last event per slab of this run
            lastev = {}
            for ln in lines[:k]:
                if '"ev":"reset"' in ln:
                    lastev = {}
                elif '"j":' in ln:
                    e = json.loads(ln)
                    lastev[e["j"]] = e
            stuck = [e for e in lastev.values()
                     if not (e["ev"] == "release" or (e["ev"] in ("trans", "take") and e.get("to") == "reading"))]
            hist = [json.dumps(e) for e in stuck[:12]]
            slab = [e["j"] for e in stuck]
        ctx.violation("trace/" + r.violated,
                      "%s[%s] %s is false on a recorded walk of the real UDP engine (trace line %d, slab %s, event %s): %s"
                      % (prefix, run, r.violated, k, slab, bad.get("ev"), WHAT[r.violated]),
                      {"driver": "Trace_UdpJob", "run": run, "invariant": r.violated, "line": bad,
                       "slab_history": hist, "trace_tail": ctxl, "seed": ctx.seed})
        return
    if not ok:
        if r.violated and r.violated != "TraceAccepted":
            raise vf.MachineryError("trace spec failed on %s\n%s" % (r.violated, "\n".join(r.out.splitlines()[-30:])))
        raise vf.MachineryError("Trace_UdpJob did not consume the trace (%d of %d lines)\n%s"
                                % (matched, len(lines), "\n".join(r.out.splitlines()[-30:])))
    runs = sum(1 for ln in lines if '"ev":"reset"' in ln)
    ctx.cov["traces_validated_against_impl"] += runs
    if drift:
        ctx.cov["drift"] += drift
        ctx.log("DRIFT: %d recorded steps differ from what UdpSlab.tla predicts (no property predicate failed)" % drift)


def validate_tcp_trace(ctx, trace, prefix=""):
    if not os.path.exists(trace):
        return
    lines = open(trace).read().splitlines()
    if not lines:
        return
    ok, r = ctx.tlc_trace("TcpConn", "Trace_TcpConn.tla", "Trace_TcpConn.cfg", trace, timeout=900)
    matched = max(0, r.depth - 1)
    ctx.cov["replay"]["trace_tcpconn"] = {"connections": len(lines), "matched": matched, "wall_s": round(r.wall, 1)}
    ctx.log("Trace_TcpConn: %d of %d connections, violated=%s" % (matched, len(lines), r.violated))
    if r.violated in ("WholeInOrderOnePerQuery", "NothingAfterFatal"):
        bad = json.loads(lines[matched - 1]) if 0 < matched <= len(lines) else {}
        ctx.violation("trace/tcp/" + r.violated,
                      "%s%s is false on what a client of the real TCP engine received (connection %s): replies are not "
                      "whole, one per answerable query, in query order" % (prefix, r.violated, bad.get("conn")),
                      {"driver": "Trace_TcpConn", "connection": bad, "seed": ctx.seed})
        return
    if not ok:
        raise vf.MachineryError("Trace_TcpConn did not consume the trace (%d of %d)\n%s"
                                % (matched, len(lines), "\n".join(r.out.splitlines()[-30:])))
    ctx.cov["traces_validated_against_impl"] += len(lines)


def engines(ctx, prefix="", only=None, secure=True):
    trace = os.path.join(ctx.scratch, "udpjob_trace.ndjson")
    tcptrace = os.path.join(ctx.scratch, "tcpconn_trace.ndjson")
    for p in (trace, tcptrace):
        if os.path.exists(p):
            os.remove(p)
    runs = []
    for cfg in engine_configs(ctx.tier, ctx.seed):
        if only is not None and cfg["name"] not in only:
            continue
        cfg = dict(cfg, traceOut=trace, tcpTraceOut=tcptrace)
        res = run_driver(ctx, "./c10", "TestEngineLoad", cfg, "eng_" + cfg["name"], timeout=900)
        if res is None:
            continue
        ctx.take_driver_result(res, prefix)
        c = res.get("counters", {})
        info = {k: c[k] for k in sorted(c)}
        info["skipped"] = res.get("skipped", [])
        ctx.cov["replay"]["engine_" + cfg["name"]] = info
        runs.append((cfg, res))
        ctx.log("engine %s: udp recv=%d tcp frames=%d/%d trace=%d lines slabs=%d violations=%d" % (
            cfg["name"], c.get("udp_datagrams_received", 0), c.get("tcp_answered", 0), c.get("tcp_expected", 0),
            c.get("trace_lines", 0), c.get("trace_slabs", 0), len(res.get("violations", []))))
        if res.get("skipped"):
            raise vf.MachineryError("engine run %s skipped: %s" % (cfg["name"], res["skipped"][:3]))
        if not res.get("violations") and (c.get("udp_datagrams_received", 0) < 50 or c.get("tcp_answered", 0) < 10):
            raise vf.MachineryError("engine run %s is vacuous: %s" % (cfg["name"], info))
    if secure:
        secure_legs(ctx, tcptrace, prefix)
    validate_udp_trace(ctx, trace, prefix)
    validate_tcp_trace(ctx, tcptrace, prefix)
    return runs


def secure_legs(ctx, tcptrace, prefix=""):
    """DoT / DoH / DoH3 / DoQ on loopback under a self-generated certificate; a leg that cannot be
    brought up offline is recorded as skipped in the evidence (never faked)."""
    thorough = ctx.tier == "thorough"
    inp = {"name": "secure", "clients": 3 if not thorough else 8, "each": 24 if not thorough else 120,
           "tcpTraceOut": tcptrace}
    res = run_driver(ctx, "./c10", "TestSecureTransports", inp, "secure", timeout=900)
    if res is None:
        return
    ctx.take_driver_result(res, prefix)
    c = res.get("counters", {})
    skipped = res.get("skipped", [])
    legs = {}
    for leg in ("dot", "doh", "doh3", "doq"):
        n = c.get(leg + "_answered", 0)
        legs[leg] = {"answered": n, "sent": c.get(leg + "_expected", 0) or c.get(leg + "_sent", 0),
                     "silent_ok": c.get(leg + "_silent_ok", 0), "errors": c.get(leg + "_errors", 0),
                     "status": "exercised" if n > 0 else "skipped"}
    ctx.cov["replay"]["secure_transports"] = {"legs": legs, "skipped": skipped,
                                              "drift_notes": res.get("drift_notes", [])}
    ctx.log("secure transports: %s skipped=%s" % (
        {k: "%d/%d" % (v["answered"], v["sent"]) for k, v in legs.items()}, skipped))
    for leg, v in legs.items():
        if v["status"] == "skipped":
            ctx.assumptions.append("transport leg %s could not be exercised offline in this run: SKIPPED (%s)"
                                   % (leg, "; ".join(s for s in skipped if s.startswith(leg) or s.startswith("all")) or "no answers"))


def run(ctx, replay):
    ctx.cov["rule"] = ("states/transitions = TLC exhaustive runs of UdpJob.tla (portable, batch+inline, mixed readers) and "
                       "TcpConn.tla; evaluations = packets/connections whose every received byte was checked for provenance "
                       "by its client; distinct = packet kind x transport x ending classes; traces = engine runs whose "
                       "recorded ownership walk (verif trace hook) was validated by Trace_UdpJob.tla + TCP connections "
                       "validated by Trace_TcpConn.tla")
    ctx.assumptions += [
        "the kernel's recvmmsg/sendmmsg ordering and loopback delivery are trusted",
        "DoT/DoH/DoH3/DoQ legs run on loopback under a self-generated certificate; a leg whose listener does not come "
        "up offline is recorded as SKIPPED under coverage.replay.secure_transports (never faked); the DoQ leg does not "
        "send the panic-ahead-of-recovery kind (the DoQ stream goroutine has no panic guard of its own)",
        "the mixed (recvmmsg fallback) shape is reached by starting the portable reader next to the batch reader "
        "through the overlay shim, as udpBatchReader.permanentRerr would after a permanent errno",
        "release() and serveInline's transition+count are single steps in UdpJob.tla",
    ]
    require_hook()
    model_runs(ctx)
    engines(ctx)
