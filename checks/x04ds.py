"""X04DS -- DNS64 over the answer cache: the composed reply inherits the shortest lifetime (serves C04 and C20).

Lease64.tla  EXTENDS Lease (answer half) with the DNS64 dimension: V6Key = the AAAA question of a name (NODATA +
             SOA, a negative entry), V4Key = its A question (a positive entry), Hit64 = one AAAA query of a
             DNS64-eligible client, answered by middleware/dns64 in front of middleware/cache from the two entries
             (synthesised AAAA with TTL = min(negative TTL of the cached NODATA as served, A TTLs as served)); every
             other action of the answer half runs unchanged on the two keys, so the entries have differing ages,
             leases, refreshes.
  - TLC exhaustive: MC_Lease64_quick.cfg (+ MC_Lease64_full.cfg, thorough): ServedLive, TTLShown, TTLMonotone, ComposedMin,
    LateWriteLoses hold;
    negative twin MC_Lease64_negminimum.cfg (negative TTL read from SOA MINIMUM alone -- it never decays) must
    violate TTLShown.
  - spec->code: -simulate behaviours of Sim_Lease64.cfg replayed 1:1 by harness/c04 TestLeaseReplay on
    [real dns64, real cache, scripted downstream] with the timestamp shifter as the clock (harness/c04/d64_test.go).
Failure dimension (gap C20-r3-2; Lease64.tla variable fail, actions Fail64 / HitFail, constant FailTTL): the cache's RFC 9520
record of the AAAA question.  Fail64 = the downstream answers an eligible client's AAAA query with SERVFAIL (recorded;
dns64 sees a FRESH failure), a later Hit64 inside the back-off is answered from the record and must be passed through on
every route -- the wire-born one included, where dns64 materialises the request onto a detached context with a copied
ResponseMeta before the cache marks its reply.
  - TLC exhaustive: MC_Lease64_fail.cfg: the C04 properties + NeverOverCachedFailure, NoLookupOverCachedFailure,
    CachedFailureAnswers hold; negative twin MC_Lease64_negfail.cfg (FailRule = "ignored": dns64 does not recognise the
    cached failure) must violate NeverOverCachedFailure.  (C20 runs these two itself: run_fail_model.)
Verdicts (predicates on the real replies against the driver's own lifetime oracle):
  FOCUS "" (C04, X04DS):  ServedLive / TTLShown / TTLMonotone on both pieces of every synthesised reply, and all of
                          the answer-half predicates on the other ops;
  FOCUS "c20" (C20):      TtlMin -- synthesised TTL <= every A TTL the internal lookup returned and <= the AAAA
                          negative TTL (min of the admitted SOA MINIMUM and what the cached NODATA has left);
                          NeverOverFailure -- no AAAA synthesised over a cached failure (the driver's downstream
                          failed the AAAA question less than FailTTL ago, nothing dropped the record, the question
                          did not reach the downstream in this call, no NODATA entry is live).
Model/code differences are drift.
"""
import json
import os

import vf
import c04_api

MOD = "Lease"
CHAIN = ["d4"]
KEYS = {"v6Key": "d6", "v4Key": "d4"}
SIM_D = ("SubQueryWriteD", "CacheWriteD", "PrefetchCompleteD", "NoAnswerD", "PurgeD",
         "HitMsgD", "HitWireD", "GetEntryD", "LeaseD", "PrefetchStartD", "TickAD")   # (the last six: plain action /\ FailStep)
FAIL_TTL = 5          # Sim_Lease64.cfg / MC_Lease64_fail.cfg FailTTL: the cache's failure back-off in the replay


def ensure_overlay(ctx):
    """harness/c04 needs the C04 shim (timestamp shifter) whatever check runs the tier."""
    ctx.overlay_tags.add("c04")
    ov = os.path.join(ctx.scratch, "overlay.json")
    if os.path.exists(ov):
        with open(ov) as f:
            if "verif_c04_shim.go" not in f.read():
                os.remove(ov)


def behaviours(ctx, num):
    behs = c04_api.sim_behaviours(ctx, "MC_Lease64.tla", "Sim_Lease64.cfg", num, 40, {"now", "reply", "req", "nextId"}, timeout=600)
    # the D-variants are the rarely-enabled simulation forms of the plain actions
    for b in behs:
        for i, (lab, st) in enumerate(b):
            for d in SIM_D:
                if lab.startswith(d + "("):
                    b[i] = (d[:-1] + lab[len(d):], st)
    bl = c04_api.answer_behaviours(behs, CHAIN, "d")
    # Reply64 carries the outcome class of a DNS64 client query (drift accounting in the driver)
    by_id = {"d%d" % bi: b for bi, b in enumerate(behs)}
    for one in bl:
        src = by_id[one["id"]]
        for i, stp in enumerate(one["steps"]):
            rep = src[i + 1][1]["reply"]
            if rep.get("kind") == "reply" and rep.get("q") == "d64":
                stp["exp"]["reply"].update({"over": rep["over"], "alook": rep["alook"], "synth": rep["synth"]})
    if len(bl) < num // 2:
        raise vf.MachineryError("only %d DNS64 behaviours generated" % len(bl))
    return bl


def driver_input(bl, focus):
    return dict({"chain": CHAIN, "negKey": KEYS["v6Key"], "scopedKey": "sc", "ecsCap": 3, "cutMax": 0,
                 "behaviours": bl, "focus": focus, "failTTL": FAIL_TTL}, **KEYS)


def run_fail_model(ctx):
    """The failure dimension on the model alone + its negative twin (run by C04 / X04DS and by C20, whose clause it is)."""
    ctx.tlc(MOD, "MC_Lease64.tla", "MC_Lease64_fail.cfg", workers=4, timeout=600, heap="4g", tag="d64-fail")
    if ctx.tier == "thorough":
        ctx.tlc(MOD, "MC_Lease64.tla", "MC_Lease64_failfull.cfg", workers=6, timeout=1200, heap="8g", tag="d64-fail-full")
    neg = ctx.tlc(MOD, "MC_Lease64.tla", "MC_Lease64_negfail.cfg", workers=4, timeout=600, heap="4g",
                  must_pass=False, count=False, tag="d64 negative twin: cached failure not recognised (must violate NeverOverCachedFailure)")
    if neg.violated != "NeverOverCachedFailure":
        raise vf.MachineryError("negative twin MC_Lease64_negfail.cfg did not violate NeverOverCachedFailure (violated=%s rc=%s): "
                                "the invariant is vacuous on the failure dimension" % (neg.violated, neg.rc))


def model_check(ctx):
    run_fail_model(ctx)
    ctx.tlc(MOD, "MC_Lease64.tla", "MC_Lease64_quick.cfg", workers=4, timeout=600, heap="4g", tag="d64-quick")
    if ctx.tier == "thorough":
        # SOA MINIMUM below the SOA TTL / below the floor, two leases per request, three routes
        ctx.tlc(MOD, "MC_Lease64.tla", "MC_Lease64_full.cfg", workers=6, timeout=1200, heap="8g", tag="d64-full")
    neg = ctx.tlc(MOD, "MC_Lease64.tla", "MC_Lease64_negminimum.cfg", workers=4, timeout=600, heap="4g",
                  must_pass=False, count=False, tag="d64 negative twin: SOA MINIMUM alone (must violate TTLShown)")
    if neg.violated != "TTLShown":
        raise vf.MachineryError("negative twin MC_Lease64_negminimum.cfg did not violate TTLShown (violated=%s rc=%s): "
                                "the invariant is vacuous on the DNS64 dimension" % (neg.violated, neg.rc))


def replay(ctx, focus, num):
    bl = behaviours(ctx, num)
    res = ctx.go_driver("./c04", "TestLeaseReplay", driver_input(bl, focus), name="x04ds_" + (focus or "c04"), timeout=900)
    ctx.take_driver_result(res, "[DNS64 over cache] ")
    if res.get("skipped"):
        raise vf.MachineryError("DNS64 replay skipped: %s" % res["skipped"][:3])
    cnt = res.get("counters", {})
    # non-vacuity: synthesised replies from a NODATA that had aged / was lease-shortened, on every route, the relay
    # and the no-answer shapes, and the plain routes on the same entries
    need = {"steps": 8 * len(bl), "d64_synth": 40, "d64_synth_aged_nodata": 15, "d64_relayed": 5, "d64_unanswered": 5,
            "op_Hit64_msg": 5, "op_Hit64_msgw": 5, "op_Hit64_wire": 5, "op_TickA": 50, "op_CacheWrite": 20,
            "served_via_msg": 5, "served_via_wire": 5,
            # failure dimension: records made, cached failures passed through on every route (the wire-born one is
            # where the request context is detached), synthesis over a FRESH failure, the ordinary client's hits
            "op_Fail64": 20, "d64_synth_over_fresh": 5, "d64_cachedfail_pass_msg": 3, "d64_cachedfail_pass_msgw": 3,
            "d64_cachedfail_pass_wire": 3, "op_HitFail": 5}
    for k, n in need.items():
        if cnt.get(k, 0) < n:
            raise vf.MachineryError("vacuous DNS64 replay: %s = %s (< %d); counters %s" % (k, cnt.get(k, 0), n, cnt))
    ctx.cov["replay"]["x04ds_" + (focus or "c04")] = {
        "behaviours": len(bl), "steps": cnt.get("steps", 0), "drift": res["drift"], "drift_notes": res.get("drift_notes", [])[:20],
        "counters": cnt}
    return res


def run_replay(ctx, path):
    """bin/check --replay of a recorded DNS64 violation.  Returns False when the file is not of this tier."""
    with open(path) as f:
        rec = json.load(f)
    rp = rec.get("replay", rec)
    if not (isinstance(rp, dict) and rp.get("driver") == "c04-d64" and "input" in rp):
        return False
    ensure_overlay(ctx)
    ctx.tlc(MOD, "MC_Lease64.tla", "MC_Lease64_quick.cfg", workers=4, timeout=600, heap="4g", tag="replay-sanity")
    res = ctx.go_driver("./c04", "TestLeaseReplay", rp["input"], name="x04ds_replay", timeout=600)
    ctx.take_driver_result(res, "[DNS64 over cache, replay] ")
    if res.get("skipped"):
        raise vf.MachineryError("DNS64 replay file could not run: %s" % res["skipped"][:3])
    ctx.cov["replay"]["replayed_file"] = path
    ctx._distinct.update(["replay:" + path, "replay-steps:%d" % res.get("counters", {}).get("steps", 0)])
    return True


def run_tier(ctx, focus="", model=True):
    thorough = ctx.tier == "thorough"
    ensure_overlay(ctx)
    ctx.cov["rule"] = (ctx.cov.get("rule", "") + " | X04DS: behaviours = TLC simulated histories of Lease64.tla (admissions, "
                       "leases, refreshes, purges, clock steps, plain hits and DNS64 client queries on the AAAA-NODATA and A "
                       "entries of one name) replayed on [dns64, cache, scripted downstream]; distinct = distinct action "
                       "sequences").strip(" |")
    ctx.assumptions += [
        "X04DS: the scripted downstream does not answer while a DNS64 client query is in flight (entries are admitted by "
        "the other actions), so a synthesised reply is built from the entries stored when the call started",
        "X04DS: the AAAA negative TTL of a cached NODATA is min(SOA MINIMUM as admitted, time the entry has left)",
        "X04DS: the cache's failure back-off is pinned (failure_cache_min_ttl = failure_cache_max_ttl = %d s); a reply counts "
        "as a cached failure only when the driver itself failed the AAAA question inside that window, nothing dropped the "
        "record, no NODATA entry is live and the question did not reach the downstream again" % FAIL_TTL,
    ]
    if model:
        model_check(ctx)
    elif focus == "c20":
        run_fail_model(ctx)           # C20's own clause: never over a cached failure
    return replay(ctx, focus, 4000 if thorough else 700)


def run(ctx, replay_path):
    if replay_path:
        if not run_replay(ctx, replay_path):
            raise vf.MachineryError("replay file %s is not an X04DS (driver c04-d64) replay" % replay_path)
        return
    run_tier(ctx)
