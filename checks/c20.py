"""C20 -- DNS64 synthesises only RFC 6052 addresses, only when allowed, never with AD.

Dns64Layout.tla : RFC 6052 position map as a function on octet sequences; TLC checks
                  Extract(Embed(p,a)) = a, reserved octet / suffix zero, injectivity, the
                  ip6.arpa round trip and rejection of illegal lengths; every terminal state
                  of the model is replayed on the real middleware/dns64 (AAAA synthesis and
                  the PTR round trip), plus position-distinguishing patterns and seeded
                  random pairs.
Dns64Decide.tla : the decision table (config x client query x downstream AAAA reply x A
                  lookup answer -> outcome; the request-local rows "shedGlobal"/"shedZone" are
                  answered by the REAL resolver handler's load-shed branch, not a scripted mark).  TLC checks the C20 invariants on the
                  property-conformant table and dumps the as-built table; every row is
                  replayed through dns64 + scripted downstream/queryer and the predicates of
                  the property statement are evaluated on the real reply.

TLC's plain state dump (-dump) is read by the Go drivers directly (they parse the TLA+
values), so the cases are exactly the states TLC enumerated.
"""
import json
import os

import vf
import x04ds

WORKERS = 6          # TLC workers (the machine is shared)
GO_WORKERS = 6


def tlc_dump(ctx, spec, cfg, name, timeout, heap="6g", must_pass=True, tag=None):
    """Exhaustive run that also writes the plain state dump; returns (result, path)."""
    path = os.path.join(ctx.scratch, name)
    r = ctx.tlc("Dns64", spec, cfg, workers=WORKERS, timeout=timeout, heap=heap,
                args=["-dump", path], must_pass=must_pass, tag=tag)
    dump = path + ".dump"
    if not os.path.exists(dump):
        raise vf.MachineryError("TLC wrote no state dump for %s" % cfg)
    return r, dump


def fold(ctx, res, name, prefix, extra=None):
    # vf writes replay files under /verif/evidence/replays whatever VERIF_EVIDENCE_DIR says;
    # concurrent runs may have cleaned it away
    os.makedirs(os.path.join(vf.VERIF, "evidence", "replays"), exist_ok=True)
    ctx.take_driver_result(res, prefix)
    info = {"cases": res["cases"], "drift": res["drift"], "drift_notes": res.get("drift_notes", []),
            "counters": res.get("counters", {}), "skipped": res.get("skipped", [])}
    if extra:
        info.update(extra)
    ctx.cov["replay"][name] = info
    if res.get("skipped"):
        raise vf.MachineryError("%s: driver skipped cases: %s" % (name, res["skipped"][:3]))
    return info


def need(cond, msg):
    if not cond:
        raise vf.MachineryError("vacuous run: " + msg)


def layout(ctx, thorough):
    # model alone: all invariants; the dump is the case list
    cfg = "MC_LayoutThorough.cfg" if thorough else "MC_LayoutQuick.cfg"
    spec = cfg.replace(".cfg", ".tla")
    r, dump = tlc_dump(ctx, spec, cfg, "layout", timeout=1500 if thorough else 300)
    res = ctx.go_driver("./c20", "TestLayoutReplay",
                        {"dump": dump, "random": 100000 if thorough else 20000, "workers": GO_WORKERS},
                        name="layout", timeout=1200)
    info = fold(ctx, res, "layout_" + cfg, "[Dns64Layout %s] " % cfg, {"states": r.distinct})
    c = info["counters"]
    need(c.get("legal_cases", 0) > 1000 and c.get("rejected_cases", 0) > 10,
         "layout replay ran %s legal / %s rejected cases" % (c.get("legal_cases"), c.get("rejected_cases")))
    os.remove(dump)
    # names that are not embeddings (u / suffix / address octet overwritten)
    r, dump = tlc_dump(ctx, "MC_LayoutCorrupt.tla", "MC_LayoutCorrupt.cfg", "layout_corrupt", timeout=600)
    res = ctx.go_driver("./c20", "TestLayoutReplay", {"dump": dump, "random": 0, "workers": GO_WORKERS},
                        name="layout_corrupt", timeout=900)
    info = fold(ctx, res, "layout_MC_LayoutCorrupt.cfg", "[Dns64Layout corrupt] ", {"states": r.distinct})
    need(info["counters"].get("corrupted_cases", 0) > 500, "no corrupted-name cases were replayed")
    os.remove(dump)
    if thorough:
        # the 5-value alphabet configs carry every invariant except Injective (625 embeddings per
        # state); injectivity is checked directly over the 3-value alphabet, and over the 5-value
        # one it follows from RoundTrip (Extract is a left inverse)
        ctx.tlc("Dns64", "MC_LayoutQuick.tla", "MC_LayoutQuick.cfg", workers=WORKERS, timeout=600, heap="6g")
        # the full 5-value alphabet for prefix (period 3) and address: model proof only
        ctx.tlc("Dns64", "MC_LayoutFull.tla", "MC_LayoutFull.cfg", workers=8, timeout=2400, heap="12g")


def decide(ctx, thorough):
    tier = "Thorough" if thorough else "Quick"
    spec = "MC_Decide%s.tla" % tier
    # 1. the table the property asks for: every C20 invariant must hold on the model
    ctx.tlc("Dns64", spec, "MC_Decide%s.cfg" % tier, workers=WORKERS, timeout=2400 if thorough else 400, heap="8g")
    # 1b. (gap C20-r3-1) the request-local rows made by the REAL resolver handler's load-shed branch (marks shedGlobal /
    #     shedZone, part of every table above and below): a small table around them, and its negative twin -- the mark
    #     never reaches dns64 -- which must break NeverOverFailure, so the invariant is not vacuous on those rows
    ctx.tlc("Dns64", "MC_DecideShed.tla", "MC_DecideShed.cfg", workers=4, timeout=300, heap="4g", tag="shed rows")
    neg = ctx.tlc("Dns64", "MC_DecideShed.tla", "MC_DecideShed_neg.cfg", workers=4, timeout=300, heap="4g", must_pass=False,
                  count=False, tag="negative twin: shed mark lost (must violate NeverOverFailure)")
    if neg.violated != "NeverOverFailure":
        raise vf.MachineryError("negative twin MC_DecideShed_neg.cfg did not violate NeverOverFailure (violated=%s rc=%s)"
                                % (neg.violated, neg.rc))
    # 1c. eligibility by a list of unusable entries (elig = 2): the as-built-before-repair reading "no usable entry = no
    #     restriction" must break SynthOnlyWhenAllowed on the model, so the rows are not vacuous
    neg = ctx.tlc("Dns64", "MC_DecideQuick.tla", "MC_DecideQuick_neg_allbad.cfg", workers=WORKERS, timeout=400, heap="8g",
                  must_pass=False, count=False,
                  tag="negative twin: unusable client_networks admit everyone (must violate SynthOnlyWhenAllowed)")
    if neg.violated not in ("SynthOnlyWhenAllowed", "PtrOnlyWhenAllowed"):
        raise vf.MachineryError("negative twin MC_DecideQuick_neg_allbad.cfg did not violate SynthOnlyWhenAllowed "
                                "(violated=%s rc=%s)" % (neg.violated, neg.rc))
    # 2. the table as the code is built (two named deviations switched on); its dump is
    #    replayed.  The structural invariants must hold; NeverAD / TtlMin are then checked on
    #    it separately and are *expected* to fail on the model (not a verdict: the verdict is
    #    the predicates evaluated on the real replies by the Go driver).
    r, dump = tlc_dump(ctx, spec, "MC_Decide%s_asbuilt.cfg" % tier, "decide", timeout=2400 if thorough else 400,
                       heap="8g", tag="as-built table")
    res = ctx.go_driver("./c20", "TestDecideReplay", {"dump": dump, "workers": GO_WORKERS},
                        name="decide", timeout=1500)
    info = fold(ctx, res, "decide_" + tier, "[Dns64Decide %s] " % tier, {"states": r.distinct})
    c = info["counters"]
    for k in ("obs_synth", "obs_pass", "obs_filtered", "obs_fallback", "obs_workfail", "obs_ptr", "obs_rewritten"):
        need(c.get(k, 0) > 0, "decision replay never observed outcome %s (%s)" % (k, c))
    need(c.get("dump_done", 0) > 10000, "decision table has only %s rows" % c.get("dump_done"))
    for k in ("real_shedGlobal", "real_shedZone", "real_shedGlobal_text_seen", "real_shedZone_text_seen"):
        need(c.get(k, 0) >= 8, "the real resolver handler's load-shed branch answered only %s rows (%s)" % (c.get(k, 0), k))
    os.remove(dump)
    if thorough:
        rp = ctx.tlc("Dns64", spec, "MC_Decide%s_asbuilt_props.cfg" % tier, workers=WORKERS, timeout=1200, heap="8g",
                     must_pass=False, tag="as-built table vs NeverAD/TtlMin (expected to fail on the model)", count=False)
        ctx.cov["replay"]["decide_asbuilt_model_invariant"] = {"violated_on_model": rp.violated}
        ctx.log("as-built model vs property invariants: %s" % (rp.violated or "all hold"))
        code_preds = {v.get("key", "").split("/")[1] for v in res.get("violations", []) if v.get("key", "").count("/") >= 2}
        if rp.violated and rp.violated not in code_preds:
            # the as-built switches predict a violation the real code does not show:
            # the code has changed (fixed) relative to the transcription -> drift, not a fault
            ctx.cov["drift"] += 1
            ctx.log("DRIFT: the as-built model violates %s but the real code does not; "
                    "the KeepADOnStrippedFallback / ZeroNegTtlIgnored switches are out of date" % rp.violated)


def run_replay(ctx, path):
    with open(path) as f:
        rp = json.load(f)
    obj = rp.get("replay", rp)
    ctx.seed = rp.get("seed", ctx.seed)
    drv = obj.get("driver")
    if drv == "layout":
        res = ctx.go_driver("./c20", "TestLayoutReplay", {"cases": [obj["case"]], "random": 0}, name="replay_layout")
        fold(ctx, res, "replay", "[replay layout] ")
    elif drv == "decide":
        if "seed" in obj:
            ctx.seed = obj["seed"]
        res = ctx.go_driver("./c20", "TestDecideReplay", {"cases": [obj["case"]]}, name="replay_decide")
        fold(ctx, res, "replay", "[replay decide] ")
    elif drv == "c04-d64":
        x04ds.run_replay(ctx, path)      # DNS64 over the real cache (TtlMin on a cached, aged AAAA NODATA)
    else:
        raise vf.MachineryError("replay file %s has no C20 driver tag" % path)
    ctx.cov["states"] = max(ctx.cov["states"], 1)
    ctx.cov["transitions"] = max(ctx.cov["transitions"], 1)


def run(ctx, replay):
    thorough = ctx.tier == "thorough"
    ctx.cov["rule"] = ("layout cases = terminal states of Dns64Layout (prefix length x prefix octets x IPv4 octets over "
                       "the alphabet, legal and illegal lengths, overwritten octets) + position-distinguishing patterns "
                       "+ seeded random pairs; decision cases = done-states of Dns64Decide (config x query flags/class/"
                       "type/eligibility x downstream reply class x A-lookup answer), each DNSSEC-EDE row expanded to "
                       "all 11 RFC 8914 DNSSEC codes; distinct = distinct (non-random) cases")
    ctx.assumptions += [
        "the rest of the chain and the internal queryer are scripted doubles; provenance marks are set the way cache/"
        "resolver set them (ResponseMeta.MarkCachedFailureResponse, MarkRequestLocalFailureResponse, a ledger in ctx) -- "
        "except the load-shed rows (marks shedGlobal / shedZone): there the rest of the chain is the real resolver "
        "DNSHandler with its resolution slots held / the root zone's in-flight quota used up through an overlay shim, and "
        "the cached-failure rows of the DNS64-over-cache tier (x04ds), where the real cache makes and marks the reply",
        "a DNSSEC validation failure is observable to dns64 only as SERVFAIL + DNSSEC EDE on an EDNS reply",
        "AAAA negative TTL = min(SOA TTL, SOA MINIMUM) of the SOA in the AAAA reply (RFC 2308); no SOA = no bound",
        "excluded IPv4 under 64:ff9b::/96 is judged on RFC 1918 + 198.18/15 addresses (explicit list and built-in default)",
    ]
    if replay:
        run_replay(ctx, replay)
        return
    layout(ctx, thorough)
    decide(ctx, thorough)
    # the multi-step form of "TTL no larger than ... the AAAA negative TTL": the NODATA dns64 is handed comes from the
    # real cache after it has aged (SOA TTL counted down, MINIMUM not), the A RRset from another entry of another age
    # (Lease64.tla behaviours on [dns64, cache, scripted downstream]; the lifetime model is checked by C04 / X04DS).
    # Same histories, gap C20-r3-2: "never over a cached failure" with the REAL cache making, keeping, dropping and
    # marking the RFC 9520 record (Fail64 / Hit64 / HitFail on message-born, byte-path and wire-born requests); the
    # failure model MC_Lease64_fail.cfg and its negative twin are run here too (x04ds.run_fail_model)
    x04ds.run_tier(ctx, focus="c20", model=False)
