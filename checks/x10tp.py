"""X10TP -- the resolver's upstream TCP connection pool and its server selection (serves C10: a pooled upstream
connection has one owner, a reply read from a reused connection is accepted only with this exchange's ID and
question, a connection that errored / timed out / lost its peer is never pooled; the C11-shaped statements about
the pool -- bound, idle expiry, Close, no socket left behind -- and the ranking statements are evaluated too and
logged, judged only when a merging check asks for their family).

tla/TcpPool/TcpPool.tla   middleware/resolver/tcp_pool.go (Get / Put / cleanup / Close), Resolver.exchange (Get, dial,
                          deadline, exchange, Put on success, close on ANY error, retry) and dnsclient.Conn.Exchange
                          on a stream (one read, ID check, question check); the upstreams answer, write frames nobody
                          asked for, close, close in mid-frame
  - TLC exhaustive (MC_q_*.cfg quick, MC_t_*.cfg thorough), liveness under fairness (MC_live), seven negative
    configs (one guard of the code off each; the named invariant must fail), two observation configs (the
    quiescence statements the code as written does NOT satisfy: Close neither ends the cleanup goroutine nor
    refuses later Puts).
  - spec -> code: behaviours of the SCHEDULED relation (Sched = TRUE) -- simulated, plus an edge cover of a small
    state graph -- are forced on the real Resolver.exchange + TCPConnPool with scripted TCP upstreams on loopback
    (harness/x10tp/replay_test.go); after every move the observable projection must reach the model's stable
    state (else drift) and the predicates are evaluated on what the code did.
  - code -> spec: a free-running concurrent load (seeded upstream scripts, one harness-side sequence number per
    event) is validated by TLC against Trace_TcpPool.tla; a direct concurrent hammer of Get / Put / cleanup with an
    ownership word per connection.
tla/TcpPool/Rank.tla      internal/authority (Observe / ObserveNoAnswer CAS loop, score, Sort = rank + hedge) and
                          Resolver.lookup's use of it.

run_tier(ctx, families) is the entry for a merging check (families = which predicate families are judged as
violations there: "c10", "c11", "rank", "pool" = a connection handed to an exchange with another server); `bin/check X10TP` judges "c10" (the property this module serves) and logs
the others (X10TP_FAMILIES=c10,c11,rank in the environment judges them all).
"""
import json
import os
import random
from concurrent.futures import ThreadPoolExecutor

import vf

PID = "X10TP"
FAMILIES = tuple(f for f in os.environ.get("X10TP_FAMILIES", "c10").split(",") if f)   # standalone: the property it serves
CONTROLLABLE = {"Start", "GiveUp", "Deadline", "IdleTick", "Cleanup", "Stop", "SrvReply", "SrvInject", "SrvClose", "SrvCloseMid"}
INTERNAL = {"Get", "Dial", "Send", "Recv", "Fail", "Put"}

QUICK_MC = ["MC_q_own3.cfg", "MC_q_life3.cfg"]
THOROUGH_MC = ["MC_q_own2.cfg", "MC_q_life2.cfg", "MC_q_own.cfg", "MC_q_life.cfg", "MC_t_retry.cfg", "MC_t_retry1.cfg", "MC_t_ka0.cfg"]
NEG = {  # guard switched off -> invariants one of which must fail
    "GetRemoves": {"SingleOwner", "NoCloseUnderOwner"},
    "CheckId": {"AcceptedIsOwn"},
    "CheckQ": {"AcceptedIsOwn"},
    "CloseOnError": {"NoDirtyPooled"},
    "KeepExisting": {"ActiveIsCount", "NoLeak"},
    "BoundCheck": {"PoolBound"},
    "ExpiryCheck": {"ExpiredNeverHandedOut"},
}
QUICK_NEG = ["GetRemoves", "CheckId"]
OBS = {"MC_obs_cleaner.cfg": "CleanerEnds", "MC_obs_quiet.cfg": "QuietAfterStop"}
RANK_QUICK = ["MC_rank_q.cfg", "MC_rank_cas.cfg"]
RANK_THOROUGH = ["MC_rank_sort.cfg", "MC_rank_sort4.cfg", "MC_rank_cas2.cfg"]
RANK_NEG = {"UseCAS": {"RecordsFold"}, "MoveProbe": {"TailSorted", "ProbeIsOld"}, "SeedPrice": {"UnknownNeverPreferred"}}
SEED_TICKS = 2400000


# ---------------------------------------------------------------------------
def label_parts(lab):
    lab = lab.strip().replace('\\"', '"')       # edge labels of a dot dump keep their escaped quotes
    if "(" not in lab:
        return lab, []
    name, rest = lab.split("(", 1)
    args = vf.unset(vf.parse_tla_value("<<" + rest[:rest.rindex(")")] + ">>"))
    return name.strip(), args


def seq(v, n=None):
    """A TLA+ function over 1..N as TLC prints it (a sequence) -> python list."""
    if isinstance(v, list):
        return v
    if isinstance(v, dict):
        ks = sorted(v.keys(), key=lambda x: int(x))
        return [v[k] for k in ks]
    raise vf.MachineryError("unexpected TLA+ value %r" % (v,))


def projection(st):
    return {"pool": seq(st["pool"]), "active": st["active"], "expired": seq(st["expired"]), "stopped": st["stopped"],
            "cst": seq(st["cst"]), "peer": seq(st["peer"]), "pc": seq(st["pc"]), "conn": seq(st["conn"]),
            "tries": seq(st["tries"]), "res": seq(st["res"]), "id": seq(st["id"])}


def hot(st):
    pc, tm, tr = seq(st["pc"]), seq(st["tmoAt"]), seq(st["tries"])
    return any(pc[i] == "wait" and tm[i] == tr[i] + 1 for i in range(len(pc)))


def stable(st):
    """No internal step is enabled (TcpPool.tla: ~InternalEnabled)."""
    pc, conn, cst, peer, wire = seq(st["pc"]), seq(st["conn"]), seq(st["cst"]), seq(st["peer"]), seq(st["wire"])
    for i, p in enumerate(pc):
        if p not in ("idle", "done", "wait"):
            return False
        if p == "wait":
            c = conn[i] - 1
            if cst[c] == "closed" or peer[c] == "closed" or len(wire[c]) > 0:
                return False
    return True


def to_steps(beh):
    """[(label, state)] of a Sched behaviour -> the driver's moves with the stable state each one leads to."""
    steps, cur = [], None
    for i in range(1, len(beh)):
        lab, st = beh[i]
        name, a = label_parts(lab)
        if name in CONTROLLABLE:
            if cur is not None:
                steps.append(cur)
            cur = {"label": lab, "op": name, "p": 0, "s": 0, "q": "", "r0": 0, "c": 0, "z": False, "i": 0}
            if name == "Start":
                cur.update(p=a[0], s=a[1], q=a[2], r0=a[3])
            elif name in ("GiveUp", "Deadline"):
                cur.update(p=a[0])
            elif name == "IdleTick":
                cur.update(s=a[0])
            elif name == "SrvReply":
                cur.update(c=a[0], z=bool(a[1]))
            elif name == "SrvInject":
                cur.update(c=a[0], i=a[1], q=a[2])
            elif name in ("SrvClose", "SrvCloseMid"):
                cur.update(c=a[0])
        elif name not in INTERNAL:
            raise vf.MachineryError("unknown action label %r" % lab)
        if cur is None:
            raise vf.MachineryError("behaviour starts with an internal step %r" % lab)
        cur["_state"] = st
    if cur is not None:
        steps.append(cur)
    # only the prefix that ends in stable states can be forced
    out = []
    for s in steps:
        st = s.pop("_state")
        if not stable(st):
            break
        s["post"] = projection(st)
        s["short"] = hot(st)
        out.append(s)
    return out


def classes(cfg_text):
    import re
    m = re.search(r"Class <- (\w+)", cfg_text)
    return {"ClassR": ["root"], "ClassRT": ["root", "tld"], "ClassRR": ["root", "root"],
            "ClassRRR": ["root", "root", "root"]}[m.group(1)]


def cfg_info(ctx, cfg):
    import re
    with open(os.path.join(ctx.spec_dir("TcpPool"), cfg)) as f:
        t = f.read()
    procs = len(re.search(r"Procs = \{([^}]*)\}", t).group(1).split(","))
    return {"class": classes(t), "poolMax": int(re.search(r"PoolMax = (\d+)", t).group(1)), "procs": procs}


# ---------------------------------------------------------------------------
def tlc_jobs(ctx, thorough):
    """Every TLC run that does not depend on the code (exhaustive, negative, observation, liveness, simulation, graph)
    on a small thread pool: <= 4 TLC workers in total."""
    T, R = "MC_TcpPool.tla", "MC_Rank.tla"
    jobs = [("mc", T, c, 1) for c in QUICK_MC] + [("mc", R, c, 1) for c in RANK_QUICK]
    jobs += [("neg", T, g, NEG[g]) for g in (sorted(NEG) if thorough else QUICK_NEG)]
    jobs += [("neg", R, g, RANK_NEG[g]) for g in (sorted(RANK_NEG) if thorough else ["UseCAS"])]
    jobs += [("sim", T, "Sim_all.cfg", 70 if not thorough else 500, 60), ("sim", T, "Sim_life.cfg", 40 if not thorough else 200, 45),
             ("sim", R, "Sim_rank.cfg", 80 if not thorough else 600, 40)]
    if thorough:
        jobs += [("sim", T, "Sim_bound.cfg", 150, 50), ("sim", R, "Sim_rank3.cfg", 300, 40)]
        jobs += [("mc", T, c, 2) for c in THOROUGH_MC] + [("mc", R, c, 2) for c in RANK_THOROUGH]
        jobs += [("obs", T, c, OBS[c]) for c in OBS] + [("fix", T, "MC_fix_cleaner.cfg", 1)]
        jobs += [("live", T, "MC_live.cfg", 2), ("live", R, "MC_rank_live.cfg", 2), ("neglive", R, "MC_rank_neg_Explore.cfg", 1),
                 ("graph", T, "MC_graph.cfg", 1)]
    out = {}
    jobs.insert(2, ("gobuild", "", ""))

    def run(job):
        kind, spec, x = job[0], job[1], job[2]
        if kind == "gobuild":
            # compile and link the driver while TLC runs (no test is selected): the real run finds it in the build cache
            rc, o = ctx.go_test("./x10tp", "^NoSuchTest$", timeout=900)
            if rc != 0:
                raise vf.MachineryError("the X10TP harness / overlay does not build against %s\n%s" % (vf.REPO, "\n".join(o.splitlines()[-40:])))
        elif kind == "mc":
            ctx.tlc("TcpPool", spec, x, workers=job[3], timeout=900, heap="4g", tag="exhaustive")
        elif kind == "live":
            ctx.tlc("TcpPool", spec, x, workers=job[3], timeout=900, heap="4g", tag="liveness")
        elif kind == "fix":
            ctx.tlc("TcpPool", spec, x, workers=1, timeout=300, heap="2g", tag="exhaustive", count=False)
        elif kind == "neg":
            cfg = ("MC_neg_%s.cfg" if spec == T else "MC_rank_neg_%s.cfg") % x
            r = ctx.tlc("TcpPool", spec, cfg, workers=1, timeout=300, heap="2g", must_pass=False, tag="negative", count=False)
            if r.violated not in job[3]:
                raise vf.MachineryError("negative config %s: expected one of %s to fail, TLC says %r\n%s" % (
                    cfg, sorted(job[3]), r.violated, "\n".join(r.out.splitlines()[-25:])))
        elif kind == "neglive":
            r = ctx.tlc("TcpPool", spec, x, workers=1, timeout=300, heap="2g", must_pass=False, tag="negative", count=False)
            if "KeepsBeingTried" not in r.out or r.ok:
                raise vf.MachineryError("negative config %s: KeepsBeingTried must fail without the exploration probe" % x)
        elif kind == "obs":
            r = ctx.tlc("TcpPool", spec, x, workers=1, timeout=300, heap="2g", must_pass=False, tag="observation", count=False)
            if r.violated != job[3]:
                raise vf.MachineryError("observation config %s: expected %s to fail on the model of the code as written, "
                                        "TLC says %r" % (x, job[3], r.violated))
        elif kind == "sim":
            out[x] = ctx.tlc_behaviours("TcpPool", spec, x, num=job[3], depth=job[4], timeout=900)
        elif kind == "graph":
            out[x] = ctx.tlc_graph("TcpPool", spec, x, timeout=600, workers=1, heap="4g", tag="graph", count=False)

    ctx.spec_dir("TcpPool")
    with ThreadPoolExecutor(max_workers=4 if not thorough else 2) as ex:
        list(ex.map(run, jobs))
    ctx.cov["replay"]["model_observations"] = [
        "TcpPool.tla MC_obs_cleaner: CleanerEnds fails -- TCPConnPool.Close does not end cleanupLoop (the goroutine and "
        "its ticker outlive the pool)",
        "TcpPool.tla MC_obs_quiet: QuietAfterStop fails -- Close leaves the pool usable: an exchange that completes "
        "after Close pools its connection again (closed only by a later cleanup pass / expiry)"]
    return out


# ---------------------------------------------------------------------------
def fold(ctx, res, families, prefix):
    """Violations of a family outside `families` are reported, not judged (the merging check decides)."""
    keep, other = [], []
    for v in res.get("violations", []):
        fam = v.get("key", "").split("/", 1)[0]
        (keep if fam in families else other).append(v)
    res = dict(res, violations=keep)
    ctx.take_driver_result(res, prefix)
    for v in other:
        ctx.log("OFF-PROPERTY predicate false (not judged here): %s" % v.get("what"))
    ctx.cov["replay"].setdefault("off_property_failures", []).extend(v.get("what") for v in other)
    return res, other


def pool_behaviours(ctx, tl, thorough):
    out, infos = [], {}
    for cfg in ("Sim_all.cfg", "Sim_life.cfg", "Sim_bound.cfg"):
        if cfg not in tl:
            continue
        info = cfg_info(ctx, cfg)
        uniq = {}
        for b in tl[cfg]:
            steps = to_steps(b)
            if len(steps) < 3:
                continue
            key = ";".join(s["label"] for s in steps)
            if key not in uniq:
                uniq[key] = {"id": "%s-%d" % (cfg.replace(".cfg", ""), len(uniq)), "class": info["class"],
                             "poolMax": info["poolMax"], "procs": info["procs"], "steps": steps}
        infos[cfg] = {"tlc_behaviours": len(tl[cfg]), "distinct": len(uniq)}
        out += list(uniq.values())
    if "MC_graph.cfg" in tl:
        r, nodes, edges, inits = tl["MC_graph.cfg"]
        info = cfg_info(ctx, "MC_graph.cfg")
        paths = vf.cover_paths(nodes, edges, inits, max_len=70)
        ctl_edges = set()
        uniq = {}
        for path in paths:
            beh = [("Init", nodes[path[0][0]])] + [(lab, nodes[dst]) for (_, dst, lab) in path]
            steps = to_steps(beh)
            if not steps:
                continue
            key = ";".join(s["label"] for s in steps)
            uniq.setdefault(key, {"id": "graph-%d" % len(uniq), "class": info["class"], "poolMax": info["poolMax"],
                                  "procs": info["procs"], "steps": steps})
        infos["MC_graph.cfg"] = {"states": len(nodes), "edges": len(edges), "paths": len(paths), "distinct": len(uniq)}
        out += list(uniq.values())
    return out, infos


def features(behs):
    """What the behaviours exercise on the model side (vacuity guard)."""
    f = {"reuse": 0, "deadline": 0, "giveup": 0, "expired_get": 0, "cleanup": 0, "stop": 0, "ka0": 0, "closemid": 0,
         "put_after_stop": 0, "inject": 0, "close": 0}
    for b in behs:
        prev = None
        for s in b["steps"]:
            post = s["post"]
            if prev is not None:
                for p, pc in enumerate(post["pc"]):
                    c = post["conn"][p]
                    if pc == "wait" and c and c in prev["pool"]:
                        f["reuse"] += 1
                if s["op"] == "Start" and prev["expired"][s["s"] - 1] and prev["pool"][s["s"] - 1]:
                    f["expired_get"] += 1
                if post["stopped"] and any(post["pool"]) and not any(prev["pool"]):
                    f["put_after_stop"] += 1
            for k, op in (("deadline", "Deadline"), ("giveup", "GiveUp"), ("cleanup", "Cleanup"), ("stop", "Stop"),
                          ("closemid", "SrvCloseMid"), ("inject", "SrvInject"), ("close", "SrvClose")):
                f[k] += s["op"] == op
            f["ka0"] += s["op"] == "SrvReply" and s["z"]
            prev = post
    return f


def rank_behaviours(tl):
    out = []
    seen = set()
    for cfg in ("Sim_rank.cfg", "Sim_rank3.cfg"):
        for b in tl.get(cfg, []):
            steps = []
            n = len(seq(b[0][1]["st"]))
            for i in range(1, len(b)):
                lab, st = b[i]
                name, a = label_parts(lab)
                if name == "RecStart":
                    w = seq(st["st"])[a[1] - 1]
                    steps.append({"op": "Rec", "s": a[1], "d": a[2], "ans": bool(a[3]), "est": w["est"], "m": w["m"], "a": w["a"]})
                elif name == "Age":
                    steps.append({"op": "Age", "s": a[0]})
                elif name == "Sort":
                    steps.append({"op": "Sort", "r": a, "used": seq(st["used"]), "order": seq(st["order"]), "probe": st["probe"]})
                else:
                    raise vf.MachineryError("unexpected Rank action %r in a simulated behaviour" % lab)
            key = json.dumps(steps, sort_keys=True)
            if len(steps) >= 3 and key not in seen:
                seen.add(key)
                out.append({"id": "%s-%d" % (cfg.replace(".cfg", ""), len(out)), "n": n, "steps": steps})
    return out


def tamper_files(ctx, trace, thorough):
    """Binding of the trace direction: corrupted copies of a recorded history (they must be rejected)."""
    lines = [json.loads(x) for x in open(trace)]
    # (a) what a caller was handed is not its own reply -> ObservedOwn must fail
    bad = [dict(x) for x in lines]
    for ln in bad:
        if ln.get("ev") == "done" and ln.get("res") == "ok":
            ln["accid"] = ln["accid"] + 1
            break
    else:
        raise vf.MachineryError("tamper test: the recorded history holds no successful exchange")
    pa = os.path.join(ctx.scratch, "trace_tamper_a.ndjson")
    with open(pa, "w") as f:
        f.write("".join(json.dumps(x) + "\n" for x in bad))
    if not thorough:
        return pa, None
    # (b) a reply line dropped -> nobody wrote the frame the exchange accepted: no path consumes the log
    k = next((i for i, x in enumerate(lines) if x.get("ev") == "reply"), None)
    pb = os.path.join(ctx.scratch, "trace_tamper_b.ndjson")
    with open(pb, "w") as f:
        f.write("".join(json.dumps(x) + "\n" for x in lines[:k] + lines[k + 1:]))
    return pa, pb


def drive(ctx, tl, thorough, families):
    behs, infos = pool_behaviours(ctx, tl, thorough)
    feats = features(behs)
    miss = [k for k in ("reuse", "deadline", "giveup", "cleanup", "stop", "expired_get", "inject", "ka0", "put_after_stop") if not feats[k]]
    if miss:
        raise vf.MachineryError("the simulated pool behaviours never exercise %s (vacuous)" % miss)
    rbehs = rank_behaviours(tl)
    nprobe = sum(1 for b in rbehs for s in b["steps"] if s["op"] == "Sort" and s["probe"])
    if len(rbehs) < 10 or not nprobe:
        raise vf.MachineryError("rank replay: %d behaviours, %d sorts with a probe (vacuous)" % (len(rbehs), nprobe))
    nt = 2 if not thorough else 4
    traces = [os.path.join(ctx.scratch, "pool_trace_%d.ndjson" % i) for i in range(nt)]
    base = {"class": ["root", "tld"], "poolMax": 2, "questions": ["a.", "b.c."], "timeoutMs": 250}
    inp = {"judged": list(families),
           "replay": {"behaviours": behs, "parallel": 24, "settleMs": 6000},
           "hammer": {"goroutines": 8, "ops": 4000 if not thorough else 60000, "servers": 3, "poolMax": 2},
           "stress": [dict(base, rounds=2 if not thorough else 4, procs=3, exchanges=5, traceOut=t, maxConn=40) for t in traces],
           "stress2": dict(base, **{"class": ["root", "root", "tld"]}, rounds=2 if not thorough else 25, procs=12, exchanges=8, traceOut="",
                           maxConn=0),
           "rank": {"behaviours": rbehs, "seedTicks": SEED_TICKS},
           "rankStress": {"rounds": 30 if not thorough else 600},
           "fanout": {"rounds": 1 if not thorough else 5}}
    res = ctx.go_driver("./x10tp", "TestX10TP", inp, name="x10tp", timeout=1500)
    res, other = fold(ctx, res, families, "[X10TP] ")
    c = res.get("counters", {})
    info = {"behaviours": len(behs), "completed": c.get("behaviours_completed", 0), "abandoned": c.get("behaviours_abandoned", 0),
            "moves": c.get("moves", 0), "replies_checked": c.get("replies_checked", 0), "model_features": feats,
            "by_move": {k[5:]: v for k, v in c.items() if k.startswith("move_")}, "sim": infos}
    ctx.cov["replay"]["pool_replay"] = info
    ctx.cov["replay"]["driver"] = {"drift": res["drift"], "drift_notes": res.get("drift_notes", []), "skipped": res.get("skipped", [])}
    ctx.cov["replay"]["pool_hammer"] = {"handed_out": c.get("hammer_handed_out", 0), "fresh": c.get("hammer_fresh", 0)}
    ctx.cov["replay"]["pool_stress"] = {k: v for k, v in c.items() if k.startswith("stress_")}
    ctx.cov["replay"]["rank"] = {"behaviours": len(rbehs), "completed": c.get("rank_completed", 0), "sorts": c.get("rank_sorts", 0),
                                 "probes": c.get("rank_probes", 0), "concurrent_records": c.get("rank_concurrent_records", 0),
                                 "concurrent_sorts": c.get("rank_concurrent_sorts", 0), "fanout_lookups": c.get("fanout_lookups", 0)}
    ctx.log("pool replay: %d behaviours, %d completed, %d abandoned (drift), %d moves, %d replies checked; rank replay: %d/%d, "
            "%d sorts (%d probes)" % (info["behaviours"], info["completed"], info["abandoned"], info["moves"], info["replies_checked"],
                                      c.get("rank_completed", 0), len(rbehs), c.get("rank_sorts", 0), c.get("rank_probes", 0)))
    alive = c.get("cleanup_goroutines_alive_after_close", 0)
    if alive:
        ctx.log("OBSERVATION (no C10 / C11 predicate): %d of %d pools' cleanup goroutines are still alive after Close "
                "(TCPConnPool has no way to stop cleanupLoop)" % (alive, c.get("pools_built", 0)))
    ctx.cov["replay"]["observations"] = {"cleanup_goroutines_alive_after_close": alive, "pools_built": c.get("pools_built", 0)}
    if res.get("skipped"):
        raise vf.MachineryError("X10TP driver skipped: %s" % res["skipped"][:3])
    if res.get("violations") or ctx.violations:
        return
    if other:
        # a predicate of a family that is not judged here is false on the code: the behaviours that met it were
        # abandoned, so the drift / vacuity thresholds below say nothing about the machinery
        ctx.log("%d predicate failure(s) outside the judged families (%s): drift thresholds not applied" % (len(other), ", ".join(families)))
    elif info["completed"] < 0.8 * info["behaviours"]:
        raise vf.MachineryError("pool replay: only %d of %d behaviours could be forced on the code (drift): %s" % (
            info["completed"], info["behaviours"], res.get("drift_notes", [])[:4]))
    if not other and c.get("rank_completed", 0) < 0.8 * len(rbehs):
        raise vf.MachineryError("rank replay: only %d of %d behaviours agree with the model (drift): %s" % (
            c.get("rank_completed", 0), len(rbehs), res.get("drift_notes", [])[:4]))
    if not c.get("stress_replies_checked_traced") or not c.get("stress_replies_checked_wide") or not c.get("hammer_handed_out"):
        raise vf.MachineryError("the free-running load did not run (%s)" % {k: v for k, v in c.items() if k.startswith(("stress", "hammer"))})
    # code -> spec (the corrupted copies of the first history are validated alongside: they must be rejected)
    accepted, tinfo = 0, {"traces": nt}
    pa, pb = tamper_files(ctx, traces[0], thorough)
    todo = traces + [p for p in (pa, pb) if p]

    def validate(t):
        try:
            return t, ctx.tlc_trace("TcpPool", "Trace_TcpPool.tla", "Trace_stress.cfg", t, timeout=180 if not thorough else 420, deque=False)
        except vf.MachineryError as ex:
            if "timeout" not in str(ex):
                raise
            # too many interleavings of the silent steps explain this history: not validated, not a verdict
            return t, (False, vf.TLCResult(-1, "TLC timeout: %s" % ex, 0))

    with ThreadPoolExecutor(max_workers=3) as ex:
        results = dict(ex.map(validate, todo))
    for t in traces:
        ok, r = results[t]
        nl = sum(1 for _ in open(t))
        if ok:
            accepted += 1
            tinfo.setdefault("lines", []).append(nl)
            tinfo.setdefault("states", []).append(r.distinct)
        elif r.violated and r.violated != "TraceAccepted":
            fam = "c10" if r.violated in ("ObservedOwn", "SingleOwner", "AcceptedIsOwn", "NoDirtyPooled", "NoCloseUnderOwner") else "c11"
            what = ("invariant %s is false on a recorded concurrent history of Resolver.exchange + TCPConnPool" % r.violated)
            if fam in families:
                ctx.violation("%s/trace/%s" % (fam, r.violated), "[pool stress] " + what, {"trace": open(t).read().splitlines()[:600]})
            else:
                ctx.log("OFF-PROPERTY predicate false (not judged here): " + what)
        else:
            ctx.cov["drift"] += 1
            ctx.log("DRIFT: a recorded pool history (%d lines) is not explained by TcpPool.tla; no property predicate failed" % nl)
            tinfo.setdefault("rejected_tail", []).append(r.out.splitlines()[-8:])
    ctx.cov["traces_validated_against_impl"] += accepted
    if results[traces[0]][0] and not ctx.violations:
        ok, r = results[pa]
        if ok or r.violated != "ObservedOwn":
            raise vf.MachineryError("tamper test: a history in which a caller was handed another exchange's reply was not "
                                    "rejected by ObservedOwn (accepted=%s violated=%s): binding lost" % (ok, r.violated))
        if pb and results[pb][0]:
            raise vf.MachineryError("tamper test: Trace_TcpPool accepted a history with an upstream reply removed (binding lost)")
        tinfo["tamper_rejected"] = True
    ctx.cov["replay"]["pool_trace"] = tinfo
    if accepted == 0 and not ctx.violations and not other:
        raise vf.MachineryError("no recorded pool history was accepted by Trace_TcpPool (binding lost): %s" % tinfo.get("rejected_tail"))


def run_tier(ctx, families=FAMILIES):
    thorough = ctx.tier == "thorough"
    ctx.cov["rule"] = (ctx.cov.get("rule", "") + " | X10TP: behaviours = TLC simulated / edge-covering runs of the scheduled "
                       "relation of TcpPool.tla forced on the real Resolver.exchange + TCPConnPool with scripted TCP upstreams, "
                       "and simulated runs of Rank.tla on the real authority ranking (distinct = distinct move sequences); "
                       "free-running load validated against Trace_TcpPool.tla").strip(" |")
    ctx.assumptions += [
        "X10TP: the steps inside Resolver.exchange cannot be scheduled from outside; the driver forces the order of "
        "everything around them (starts, every upstream frame, cancels, idle expiry, cleanup, Close); their interleavings "
        "with each other are exhausted by TLC and matched against recorded concurrent histories",
        "X10TP: idle expiry is emulated by moving lastUsed back under the pool lock (the 30 s cleanup ticker has no seam); "
        "the socket deadline is a real 800 ms timeout on the one attempt the model lets die by it",
        "X10TP: the ranking's randomness is pinned to TLC's choices (randN is a package variable); staleness is emulated by "
        "moving lastNs back; the lookup fan-out scenarios use real sub-second delays and only report drift, except a probe "
        "that leaves no measurement",
        "X10TP: families judged as violations: %s" % ", ".join(families),
    ]
    # a merging check (ctx.pid != X10TP) gets this module's overlay shims through the tag
    if "x10tp" not in ctx.overlay_tags and ctx.pid != PID:
        ctx.overlay_tags.add("x10tp")
        ov = os.path.join(ctx.scratch, "overlay.json")
        if os.path.exists(ov):
            os.remove(ov)
    tl = tlc_jobs(ctx, thorough)
    drive(ctx, tl, thorough, families)


def replay_file(ctx, path, families):
    """bin/check X10TP --replay <file>: re-run exactly the recorded failing case (vf.main restored seed and tier)."""
    with open(path) as f:
        rec = json.load(f)
    rp = rec.get("replay", rec)
    drv = rp.get("driver")
    base = {"class": ["root", "tld"], "poolMax": 2, "questions": ["a.", "b.c."], "timeoutMs": 250}
    if drv == "pool-replay":
        inp = {"replay": {"behaviours": [rp["behaviour"]], "parallel": 1, "settleMs": 6000}}
    elif drv == "rank-replay":
        inp = {"rank": {"behaviours": [rp["behaviour"]], "seedTicks": SEED_TICKS}}
    elif drv == "pool-stress":
        inp = {("stress2" if rp.get("name") == "wide" else "stress"): rp["input"] if rp.get("name") == "wide" else [dict(rp["input"], traceOut="")]}
    elif drv == "pool-hammer":
        inp = {"hammer": rp["input"]}
    elif drv == "rank-stress":
        inp = {"rankStress": {"rounds": int(rp.get("round", 0)) + 5}}
    elif drv == "fanout":
        inp = {"fanout": {"rounds": 3}}
    else:
        raise vf.MachineryError("replay file %s: unknown driver %r" % (path, drv))
    inp["judged"] = list(families)
    res = ctx.go_driver("./x10tp", "TestX10TP", inp, name="x10tp_replay", timeout=900)
    fold(ctx, res, families, "[replay] ")
    ctx.cov["states"] = max(1, ctx.cov["states"])
    ctx.cov["transitions"] = max(1, ctx.cov["transitions"])
    ctx.cov["replay"]["replayed_file"] = path
    _ = base


def run(ctx, replay_path):
    if replay_path:
        return replay_file(ctx, replay_path, FAMILIES)
    run_tier(ctx)
