"""C13R -- the overlapping Record / Reset tier of C13 (ResetRace.tla) on its own (`bin/check C13R`); checks/c13.py runs it
as part of C13."""
import json

import c13


def run(ctx, replay):
    ctx.cov["rule"] = ("states/transitions = TLC exhaustive runs of ResetRace.tla (2 and 3 overlapping callers); evaluations = "
                       "free-running rounds on the real FailureCache; distinct = distinct (slot, callers, outcome) triples")
    ctx.overlay_tags.add("c13")      # harness/c13 is one package: its other drivers use the C13 shims
    ctx.spec_dir(c13.MOD)
    ctx.harness_prepare()
    inp = None
    if replay:
        with open(replay) as f:
            inp = (json.load(f).get("replay") or {}).get("input")
    c13.reset_race(ctx, c13.reset_race_model(ctx), inp)
