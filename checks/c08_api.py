"""C08, API tier -- a delegation never outlives the lease its parent granted.

Lease.tla, delegation half (SpecDeleg):
  * TLC exhaustive on MC_LeaseDeleg_*.cfg (LeaseWithinGrant, NoSelfExtension, FollowsParent)
  * -simulate behaviours of the full tree (Sim_LeaseDeleg.cfg, incl. TTLs above the 12 h
    ceiling and a 43 000 s clock step) replayed 1:1 on the real authority.Cache
    (SetUntil / Set / Get) composed with the resolver's own minCut / minNonZero /
    minRRSetTTL / extractDelegationInfo / validReferral, under both virtual-clock
    mechanisms (the `now` seam and the ExpiresAt shifter); answers learned through a
    cut go through the real Store.SetFromResponseWithCut / GetWithContext
  * the recorded runs are validated by Trace_Lease.tla (TraceDeleg) with the property
    invariants evaluated on the observed deadlines at every step.

The full-pipeline tier (scripted parent/child authorities) is built separately and
merged by checks/c08.py.
"""
import json
import os
import re

import vf
import c04_api

NOCUT = 1000000


parse_label = c04_api.parse_label


def fn_items(f):
    """TLC function value -> list of (key, value); a sequence has keys 1..n."""
    if isinstance(f, list):
        return [(i + 1, v) for i, v in enumerate(f)]
    return list(f.items())


def deleg_exp(st):
    now = st["now"]
    vis = {}
    for z, d in fn_items(st["deleg"]):
        vis[z] = d["expires"] - now if (d["ver"] != 0 and d["expires"] > now) else 0
    return {"now": now, "vis": vis, "dreply": st["dreply"]}


def deleg_behaviours(behs, prefix):
    out = []
    for bi, b in enumerate(behs):
        if len(b) < 2:
            continue
        init = b[0][1]
        steps = []
        for lab, st in b[1:]:
            op, args = parse_label(lab)
            steps.append({"op": op, "args": args, "exp": deleg_exp(st)})
        out.append({"id": "%s%d" % (prefix, bi), "pub": dict(fn_items(init["pub"])), "steps": steps})
    return out


PARENT_D = {"p": "root", "c": "p", "g": "c", "s": "p"}


def validate_trace(ctx, cfg, trace, nb, what, driver_violations, base_inp=None, driver=None):
    nlines = sum(1 for _ in open(trace))
    ok, r = ctx.tlc_trace("Lease", "Trace_Lease.tla", cfg, trace, timeout=900)
    info = {"trace_lines": nlines, "trace_matched": max(0, r.depth - 1), "trace_behaviours": nb}
    if r.violated and r.violated != "TraceAccepted":
        lines = open(trace).read().splitlines()[: r.depth + 1]
        replay = {"trace_prefix": lines[-40:]}
        if base_inp is not None:
            # the behaviour the failing line belongs to, so --replay re-executes it on the code
            idx = sum(1 for ln in lines[: r.depth] if '"ev":"Reset"' in ln) - 1
            if 0 <= idx < len(base_inp["behaviours"]):
                one = dict(base_inp, behaviours=[base_inp["behaviours"][idx]])
                one.pop("traceOut", None)
                replay.update({"driver": driver, "input": one})
        ctx.violation("%s/trace/%s" % (what, r.violated),
                      "[%s] %s is false on a recorded execution of the real code (trace line %d)"
                      % (what, r.violated, r.depth), replay)
    elif not ok:
        if driver_violations:
            ctx.log("trace rejected after %d of %d lines (driver already reported a violation)" % (r.depth - 1, nlines))
        else:
            ctx.cov["drift"] += 1
            ctx.log("DRIFT: recorded execution not explained by Trace_Lease (%s) after %d of %d lines; "
                    "no property predicate failed" % (cfg, r.depth - 1, nlines))
            info["trace_rejected_tail"] = r.out.splitlines()[-15:]
    else:
        ctx.cov["traces_validated_against_impl"] += nb
    return info


def run_api(ctx):
    thorough = ctx.tier == "thorough"
    ctx.overlay_tags.add("c04")
    ctx.assumptions += [
        "C08 API tier: the driver plays the parent side and composes the resolver's exported-by-shim lease helpers "
        "in the order processDelegation does; the order itself (observation instant captured before validation) is "
        "bound only by the pipeline tier",
        "virtual time: authority.Cache.now seam and, independently, an ExpiresAt shifter; the answer cache uses the C04 shifter",
    ]
    # ---- the model alone ----------------------------------------------------
    cov = ["-coverage", "1"] if thorough else []
    runs = [ctx.tlc("Lease", "MC_LeaseDeleg.tla", "MC_LeaseDeleg_quick.cfg", workers=6, timeout=900, heap="6g",
                    tag="deleg-quick", args=cov),
            # a small ceiling so the 12 h clamp and its insertion anchoring are explored
            ctx.tlc("Lease", "MC_LeaseDeleg.tla", "MC_LeaseDeleg_ceil.cfg", workers=6, timeout=900, heap="6g",
                    tag="deleg-ceil", args=cov)]
    if thorough:
        # two resolutions in flight; the three-level tree root->p->c->g
        ctx.tlc("Lease", "MC_LeaseDeleg.tla", "MC_LeaseDeleg_two.cfg", workers=8, timeout=2400, heap="12g", tag="deleg-two")
        ctx.tlc("Lease", "MC_LeaseDeleg.tla", "MC_LeaseDeleg_full.cfg", workers=8, timeout=2400, heap="12g", tag="deleg-full")
        # ... and the tree with a sibling under p
        ctx.tlc("Lease", "MC_LeaseDeleg.tla", "MC_LeaseDeleg_sib.cfg", workers=8, timeout=2400, heap="12g", tag="deleg-sibling")
        never = {"ParentWithdraw", "ParentRepoint", "ParentRetime", "SeedFromDelegCache", "AskZone", "SelfReferral",
                 "DescendCached", "ProvisionalInsert", "InsertDeleg", "AnswerFromLeaf", "ServeAnswer", "TickD"}
        for r in runs:
            never &= set(r.zero_coverage())
        if never:
            raise vf.MachineryError("vacuous model check: actions never taken in any configuration: %s" % sorted(never))
    # ---- shifter self-test ----------------------------------------------------
    res = ctx.go_driver("./c08", "TestShifterSelfTest", {}, name="c08_selftest", timeout=600)
    if res.get("skipped"):
        raise vf.MachineryError("C08 clock self-test failed: %s" % res["skipped"][:3])
    # ---- spec -> code ---------------------------------------------------------
    num = 6000 if thorough else 1200
    behs = c04_api.sim_behaviours(ctx, "MC_LeaseDeleg.tla", "Sim_LeaseDeleg.cfg", num, 45,
                                  {"now", "deleg", "dreply", "pub"})
    bl = deleg_behaviours(behs, "d")
    if len(bl) < num // 2:
        raise vf.MachineryError("only %d behaviours generated" % len(bl))
    trace = os.path.join(ctx.scratch, "c08_api.ndjson")
    inp = {"parent": PARENT_D, "behaviours": bl, "traceOut": trace}
    res = ctx.go_driver("./c08", "TestDelegReplay", inp, name="c08_api", timeout=1500)
    ctx.take_driver_result(res, "[C08 API] ")
    if res.get("skipped"):
        raise vf.MachineryError("C08 replay skipped: %s" % res["skipped"][:3])
    steps = res.get("counters", {}).get("steps", 0)
    if steps < 10 * len(bl):
        raise vf.MachineryError("C08 replay executed only %d steps of %d behaviours" % (steps, len(bl)))
    info = {"behaviours": len(bl), "clock_modes": 2, "steps": steps, "drift": res["drift"],
            "drift_notes": res.get("drift_notes", [])}
    # ---- code -> spec ---------------------------------------------------------
    info.update(validate_trace(ctx, "Trace_LeaseDeleg.cfg", trace, len(bl), "C08 API", res.get("violations"), inp, "c08-deleg"))
    ctx.cov["replay"]["c08_api"] = info
    return info


def run_replay(ctx, path):
    """bin/check --replay: re-execute exactly the recorded behaviour on the code under test (driver
    predicates + trace monitor).  Returns False if the file is not an API-tier replay."""
    import json
    with open(path) as f:
        rep = json.load(f)
    body = rep.get("replay", {})
    if not (isinstance(body, dict) and body.get("driver") == "c08-deleg" and "input" in body):
        return False
    ctx.tlc("Lease", "MC_LeaseDeleg.tla", "MC_LeaseDeleg_ceil.cfg", workers=4, timeout=600, heap="4g", tag="replay-sanity")
    trace = os.path.join(ctx.scratch, "replay.ndjson")
    inp = dict(body["input"], traceOut=trace)
    res = ctx.go_driver("./c08", "TestDelegReplay", inp, name="replay", timeout=900)
    ctx.take_driver_result(res, "[C08 API replay] ")
    info = {"behaviour": body.get("behaviour"), "steps": res.get("counters", {}).get("steps", 0)}
    info.update(validate_trace(ctx, "Trace_LeaseDeleg.cfg", trace, 1, "C08 API replay", res.get("violations"), inp, "c08-deleg"))
    ctx.cov["replay"]["replayed"] = info
    ctx._distinct.update(["replay:" + path, "replay-steps:%d" % info["steps"]])
    return True
