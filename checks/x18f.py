"""X18F -- what the surroundings do to a persist in flight (serves C18, second sentence).

tla/Blocklist/BlPersist.tla   fault steps TempVanish / FailWrite(p) / RenameFail(p) and the action property
             PreviousFileKept ("an interruption during persistence leaves the previous complete file": the only step
             that changes `local` is a Rename installing the writer's complete snapshot).
tla/Blocklist/BlRefresh.tla   the environment layer enables them (constants Faults, Cleanup) and lets New()'s
             background refresh run at EVERY point of a persist, also between CreateTemp and Rename (constant
             RefreshTemp: what the directory walk of the running instance does with `local.tmp.*`).
  - TLC exhaustive: as written (RefreshTemp = "leave", Cleanup = "temp") Converged holds with the refresh anywhere, and
    with faults PreviousFileKept / DiskIsASnapshot / FaultConverged hold.  Negative twins: RefreshTemp = "delete" must
    violate Converged (the walk deletes the temp file of the persist in flight, the rename fails, the write is dropped);
    Cleanup = "local" must violate PreviousFileKept (the failure path removes the good file), once through a failed
    write and once through a failed rename.
  - spec -> code (harness/c18 TestPersistSchedules + fault_test.go): TLC's counter-examples of the three mutants and
    simulated behaviours are forced on the real BlockList: the label Refresh waits for the REAL one-second timer of
    New() while a writer is parked at a gate between CreateTemp and Rename; Vanish removes the temp file from the
    directory under the parked writer; FailWrite(p) makes the writer's next tmp.WriteString fail with EFBIG
    (RLIMIT_FSIZE three bytes above the temp file's size; no hook in the code).  Judged on the real directory after
    every step: DiskIsASnapshot, PreviousFileKept; at the end Converged (no fault) or FaultConverged (after a fault).
"""
import json
import os
import re
from concurrent.futures import ThreadPoolExecutor

import vf

MODEL = "R"          # checks/c18.py PERSIST_MODELS["R"] = tla/Blocklist/MC_Refresh.tla MCProgR / MCInitR
IN_FLIGHT = ("tmp", "hdr", "synced", "closed")

# model mutants: (cfg, the named property each must violate)
NEGATIVE = [
    ("Neg_Refresh_deleteTemp.cfg", "Converged"),
    ("Neg_Fault_write_cleanupLocal.cfg", "PreviousFileKept"),
    ("Neg_Fault_vanish_cleanupLocal.cfg", "PreviousFileKept"),
]


def c18mod():
    import c18          # lazily: c18 imports this module
    return c18


def ensure_overlay(ctx):
    """The driver uses the C18 accessors (VerifLists, VerifVersions, VerifSaveMuFree)."""
    ctx.overlay_tags.update({"c18"})
    ov = os.path.join(ctx.scratch, "overlay.json")
    if os.path.exists(ov):
        with open(ov) as f:
            if "verif_c18_shim.go" not in f.read():
                os.remove(ov)


def seq_list(v):
    if isinstance(v, list):
        return v
    return [v[k] for k in sorted(v, key=lambda x: int(x))]


def counterexample(r):
    parts = re.split(r"\nState (\d+): <(.*?)>\n", r.out)
    return [(parts[i + 1], vf.parse_tla_state(parts[i + 2].split("\n\n")[0])) for i in range(1, len(parts) - 2, 3)]


def env_labels(b):
    """Behaviour of BlRefresh.tla -> driver labels.  Returns (labels, pcs of the holder at each Refresh)."""
    out, at = [], []
    for i in range(1, len(b)):
        prev, cur = b[i - 1][1], b[i][1]
        ppc, cpc = seq_list(prev["pc"]), seq_list(cur["pc"])
        if cur.get("refreshed") != prev.get("refreshed"):
            out.append("Refresh")
            at.append(([x for x in ppc if x in IN_FLIGHT] or ["-"])[0] if prev["tmp"]["ex"] else "-")
            continue
        if ppc == cpc and prev["tmp"]["ex"] and not cur["tmp"]["ex"] and prev["local"] == cur["local"]:
            out.append("Vanish")
            continue
        failed = [p for p in range(len(ppc)) if ppc[p] in ("tmp", "hdr") and cpc[p] in ("idle", "done")]
        if failed:
            out.append("FailWrite(%d)" % (failed[0] + 1))
            continue
        out.append(c18mod().step_label(prev, cur, "Step"))
    return out, at


def run_tier(ctx):
    thorough = ctx.tier == "thorough"
    c18 = c18mod()
    gate = os.path.join(vf.REPO, "middleware", "blocklist", "verif_gate_on.go")
    if not os.path.exists(gate):
        raise vf.MachineryError("the persist gate hook is not in %s" % vf.REPO)
    ensure_overlay(ctx)
    ctx.assumptions += [
        "X18F: I/O faults are injected from outside the process under test's code: the temp file's name removed under a "
        "parked writer (rename fails), RLIMIT_FSIZE (a write fails with EFBIG, leaving a partial header / line); "
        "tmp.Sync / tmp.Close failures run the same failure closure and are not injected",
        "X18F: with an injected fault convergence is owed only when the newest snapshot reached the disk (persist is best "
        "effort: the error is logged); owed always: `local` stays the previous complete file",
    ]
    ctx.spec_dir("Blocklist")
    # ---- TLC: the model as written, its three mutants, walks
    nsim = 150 if not thorough else 800
    jobs = [lambda: ctx.tlc("Blocklist", "MC_Refresh.tla", "MC_Refresh_skipLocal.cfg", workers=2, timeout=600, heap="3g"),
            lambda: ctx.tlc("Blocklist", "MC_Refresh.tla", "MC_Fault_asbuilt.cfg", workers=2, timeout=600, heap="3g")]
    jobs += [lambda c=c: ctx.tlc("Blocklist", "MC_Refresh.tla", c, workers=2, timeout=600, heap="3g", must_pass=False,
                                 count=False, tag="mutant-must-fail") for c, _ in NEGATIVE]
    jobs += [lambda: ctx.tlc_behaviours("Blocklist", "MC_Refresh.tla", "Sim_Refresh.cfg", num=nsim, depth=60, timeout=600),
             lambda: ctx.tlc_behaviours("Blocklist", "MC_Refresh.tla", "Sim_Fault.cfg", num=nsim, depth=70, timeout=600)]
    with ThreadPoolExecutor(max_workers=4) as ex:
        out = [f.result() for f in [ex.submit(j) for j in jobs]]
    cexs = []
    for (cfg, inv), r in zip(NEGATIVE, out[2:2 + len(NEGATIVE)]):
        if r.violated != inv:
            raise vf.MachineryError("%s: the model mutant must violate %s, TLC says %r" % (cfg, inv, r.violated))
        cex = counterexample(r)
        if len(cex) < 3:
            raise vf.MachineryError("could not read the counter-example of %s" % cfg)
        cexs.append(env_labels(cex))
    sim_refresh, sim_fault = out[-2], out[-1]

    # ---- (1) the refresh of the running instance inside the CreateTemp..Rename window
    scheds, seen = [], set()

    def add(sc):
        k = ";".join(sc)
        if k in seen or not sc:
            return False
        seen.add(k)
        scheds.append(sc)
        return True
    lab, at = cexs[0]
    if "Refresh" not in lab or at[0] == "-":
        raise vf.MachineryError("the counter-example of %s has no Refresh inside a persist: %s" % (NEGATIVE[0][0], lab))
    add(lab)
    # walks: one Refresh per distinct point of the window first (tmp, hdr, synced, closed), then more
    per_point, extra = {}, []
    for b in sim_refresh:
        lab, at = env_labels(b)
        if not at or at[0] == "-":
            continue
        (per_point.setdefault(at[0], []) if at[0] not in per_point else extra).append(lab)
    nwin = 0
    for lab in [v[0] for _, v in sorted(per_point.items())] + extra:
        if nwin >= (3 if not thorough else 40):          # each one waits out the real one-second timer
            break
        nwin += add(lab)
    n_refresh = len(scheds)
    if nwin == 0:
        raise vf.MachineryError("no simulated behaviour has the refresh inside a persist")
    # ---- (2) I/O faults after CreateTemp
    for lab, _ in cexs[1:]:
        # (as written the refresh changes nothing the writers see: it is left out of the fault schedules, which then
        #  do not have to wait for the timer)
        add([x for x in lab if x != "Refresh"])
    kinds = {"Vanish": 0, "FailWrite": 0}
    for b in sim_fault:
        lab = [x for x in env_labels(b)[0] if x != "Refresh"]
        ks = {x.split("(")[0] for x in lab} & set(kinds)
        if not ks or len(scheds) - n_refresh >= (40 if not thorough else 400):
            continue
        if add(lab):
            for k in ks:
                kinds[k] += 1
    if not all(kinds.values()):
        raise vf.MachineryError("the simulated behaviours do not cover both fault kinds: %s" % kinds)
    for sc in scheds:
        ctx._distinct.add("persist-env:" + ";".join(sc))
    ctx.log("BlRefresh environment: %d schedules with the refresh inside a persist, %d with I/O faults (%s), "
            "3 counter-examples of the model mutants" % (n_refresh, len(scheds) - n_refresh, kinds))
    # ---- the real BlockList
    info = c18.persist_schedules(ctx, MODEL, scheds, "env", validate=False)
    info["refresh_inside_persist_schedules"] = n_refresh
    if not ctx.violations and (info.get("refresh_steps", 0) < n_refresh or not info.get("fault_vanish")
                               or not info.get("fault_write")):
        raise vf.MachineryError("environment schedules were vacuous (refresh / vanish / failed write did not all run): %s" % info)


def run(ctx, replay):
    if replay:
        ensure_overlay(ctx)
        return c18mod().do_replay(ctx, replay)
    ctx.cov["rule"] = ("counter-examples of the three model mutants (refresh deletes the temp file in flight; the failure "
                       "path removes `local`, via a failed write and via a failed rename) and simulated BlRefresh "
                       "behaviours with the refresh inside a persist / with I/O faults, forced on the real BlockList; "
                       "distinct = distinct schedules")
    run_tier(ctx)
