"""Shared orchestration for the Serve.tla family (C05, C06, C19)."""
import vf

FAMILIES = ["admission", "shaping", "cookies", "ecs"]


def label_args(label):
    """Query([...record...],"pos") -> (pkt dict, content)"""
    inner = label[label.index("(") + 1: label.rindex(")")]
    v = vf.parse_tla_value("<<" + inner + ">>")
    return vf.unset(v[0]), v[1]


def behaviours_for(ctx, family, num, depth=4):
    behs = ctx.tlc_behaviours("Serve", "MC_Serve.tla", "Sim_Serve_%s.cfg" % family, num=num, depth=depth)
    out = []
    seen = set()
    for b in behs:
        if len(b) < 2:
            continue
        cfg = b[0][1]["cfg"]
        steps = []
        for lab, st in b[1:]:
            o = st["out"]
            if not o.get("valid"):
                continue
            wo = o["wire"]["o"]
            exp = {"kind": wo["kind"], "rcode": wo.get("rcode", ""), "opt": bool(wo.get("opt", False)),
                   "tc": bool(wo.get("tc", False)), "ad": bool(wo.get("ad", False))}
            steps.append({"pkt": o["pkt"], "content": o["content"], "exp": exp, "expTail": bool(o["wire"]["tail"])})
        if not steps:
            continue
        key = repr((cfg, steps))
        if key in seen:
            continue
        seen.add(key)
        out.append({"cfg": cfg, "steps": steps})
    return out


def run_family_models(ctx, families, thorough):
    for fam in families:
        ctx.tlc("Serve", "MC_Serve.tla", "MC_Serve_%s.cfg" % fam, workers=8, timeout=1500, heap="8g")


def regression_model(ctx):
    """The pre-fix CancelWithRcode (Reflects = TRUE) must violate ReplyContract in the
    model: guards against the contract becoming vacuous."""
    r = ctx.tlc("Serve", "MC_Serve.tla", "MC_Serve_regress.cfg", workers=4, timeout=600, heap="4g",
                must_pass=False, count=False, tag="regression-must-fail")
    if r.violated not in ("ReplyContract", "NeverEcsToClient"):
        raise vf.MachineryError("regression config no longer violates the reply contract (vacuous model?)")


def replay(ctx, focus, families, num, variants, upstream="", guard=None):
    """upstream: "" = the scripted tail in the resolver's place; "forwarder" = the whole chain with the real forwarder
    toward a scripted socket upstream (harness/serve/relay_test.go).  guard(behs): vacuity check on the drawn sample."""
    total = {"behaviours": 0, "drift": 0}
    for fam in families:
        behs = behaviours_for(ctx, fam, num)
        if guard:
            guard(fam, behs)
        for b in behs:
            ctx._distinct.add("serve:%s:%s:%r" % (fam, upstream, b))
        inp = {"behaviours": behs, "variants": variants, "focus": focus, "upstream": upstream}
        tag = fam + ("_" + upstream if upstream else "")
        res = ctx.go_driver("./serve", "TestServeReplay", inp, name="serve_%s_%s" % (focus, tag), timeout=1200)
        ctx.take_driver_result(res, "[Serve %s] " % tag)
        fam = tag
        ctx.cov["replay"]["serve_" + fam] = {
            "behaviours": len(behs), "cases": res["cases"], "drift": res["drift"],
            "drift_notes": res.get("drift_notes", [])[:5], "counters": res.get("counters", {})}
        total["behaviours"] += len(behs)
        if res.get("skipped"):
            raise vf.MachineryError("serve replay skipped: %s" % res["skipped"][:3])
        if res["cases"] == 0:
            raise vf.MachineryError("serve replay ran no cases for family " + fam)
    return total


# ---- relay: what an upstream's message may carry against what the client negotiated ------------------------------
TWO_OPT = ("up2optF", "up2optL", "up2optB")


def _relay_guard(fam, behs):
    """every seed must draw the cells the family exists for: a miss on each two-OPT content by a client that
    negotiated EDNS (one OPT and two), by one that did not, and a two-OPT request that carries client options"""
    need = {(c, o) for c in TWO_OPT for o in ("ok", "dup", "none")} | {("dupreq", "opts")}
    for b in behs:
        st = b["steps"][0]
        p = st["pkt"]
        if st["content"] in TWO_OPT and st["expTail"]:
            need.discard((st["content"], p["opt"]))
        for st in b["steps"]:
            p = st["pkt"]
            if p["opt"] == "dup" and st["expTail"] and (p["ecs"] != "none" or p["cookie"] != "none" or p["pad"]):
                need.discard(("dupreq", "opts"))
    if need:
        raise vf.MachineryError("relay sample misses the cells %s (seed-dependent vacuity)" % sorted(need))


def relay_family(ctx, focus, thorough):
    """Serve.tla family "relay": upstream messages with TWO OPT records (options of the upstream's own exchange in
    the first, the last, both) and requests with two OPT records, against clients with one OPT, two, none.
    Model: repaired writer / normaliser passes; the two as-built twins must refute the named property.
    Code: the same behaviours through the scripted tail AND through the real forwarder + socket upstream."""
    ctx.tlc("Serve", "MC_Serve.tla", "MC_Serve_relay.cfg", workers=4, timeout=900, heap="4g")
    for cfg, want in (("MC_Serve_twoopt_asbuilt.cfg", "ReplyContract"), ("MC_Serve_dupreq_asbuilt.cfg", "NoClientOptionUpstream")):
        r = ctx.tlc("Serve", "MC_Serve.tla", cfg, workers=4, timeout=600, heap="4g", must_pass=False, count=False, tag="as-built-must-fail")
        if r.violated != want:
            raise vf.MachineryError("%s: expected %s to fail, got %r (vacuous model element?)" % (cfg, want, r.violated))
    num, variants = (400, 2) if not thorough else (3000, 3)
    replay(ctx, focus, ["relay"], num=num, variants=variants, guard=_relay_guard)
    replay(ctx, focus, ["relay"], num=num, variants=variants, upstream="forwarder", guard=_relay_guard)


def replay_record(ctx, rec, focus):
    """bin/check C06|C19 --replay <file> for a violation recorded by the Serve driver: the recorded history alone."""
    rp = rec.get("replay", rec)
    if not isinstance(rp, dict) or rp.get("driver") != "serve" or not rp.get("steps"):
        return False
    beh = {"cfg": rp["cfg"], "steps": rp["steps"]}
    inp = {"behaviours": [beh], "variants": 3, "focus": focus, "upstream": rp.get("upstream", "")}
    res = ctx.go_driver("./serve", "TestServeReplay", inp, name="serve_replay_file", timeout=600)
    ctx.take_driver_result(res, "[replay] ")
    ctx.cov["states"] = max(1, ctx.cov["states"])
    ctx.cov["transitions"] = max(1, ctx.cov["transitions"])
    ctx.cov["replay"]["replayed_file"] = {"cases": res["cases"], "upstream": rp.get("upstream", "")}
    return True
