"""Shared orchestration for the Serve.tla family (C05, C06, C19)."""
import json
import random
import threading
from collections import deque

import vf

FAMILIES = ["admission", "shaping", "cookies", "ecs"]


def label_args(label):
    """Query([...record...],"pos") -> (pkt dict, content)"""
    inner = label[label.index("(") + 1: label.rindex(")")]
    v = vf.parse_tla_value("<<" + inner + ">>")
    return vf.unset(v[0]), v[1]


def behaviours_for(ctx, family, num, depth=4):
    behs = ctx.tlc_behaviours("Serve", "MC_Serve.tla", "Sim_Serve_%s.cfg" % family, num=num, depth=depth)
    out = []
    seen = set()
    for b in behs:
        if len(b) < 2:
            continue
        cfg = b[0][1]["cfg"]
        steps = []
        for lab, st in b[1:]:
            o = st["out"]
            if not o.get("valid"):
                continue
            wo = o["wire"]["o"]
            exp = {"kind": wo["kind"], "rcode": wo.get("rcode", ""), "opt": bool(wo.get("opt", False)),
                   "tc": bool(wo.get("tc", False)), "ad": bool(wo.get("ad", False))}
            steps.append({"pkt": o["pkt"], "content": o["content"], "exp": exp, "expTail": bool(o["wire"]["tail"])})
        if not steps:
            continue
        key = repr((cfg, steps))
        if key in seen:
            continue
        seen.add(key)
        out.append({"cfg": cfg, "steps": steps})
    return out


def run_family_models(ctx, families, thorough):
    for fam in families:
        ctx.tlc("Serve", "MC_Serve.tla", "MC_Serve_%s.cfg" % fam, workers=8, timeout=1500, heap="8g")


def regression_model(ctx):
    """The pre-fix CancelWithRcode (Reflects = TRUE) must violate ReplyContract in the
    model: guards against the contract becoming vacuous."""
    r = ctx.tlc("Serve", "MC_Serve.tla", "MC_Serve_regress.cfg", workers=4, timeout=600, heap="4g",
                must_pass=False, count=False, tag="regression-must-fail")
    if r.violated not in ("ReplyContract", "NeverEcsToClient"):
        raise vf.MachineryError("regression config no longer violates the reply contract (vacuous model?)")


def replay(ctx, focus, families, num, variants, upstream="", guard=None):
    """upstream: "" = the scripted tail in the resolver's place; "forwarder" = the whole chain with the real forwarder
    toward a scripted socket upstream (harness/serve/relay_test.go).  guard(behs): vacuity check on the drawn sample."""
    total = {"behaviours": 0, "drift": 0}
    for fam in families:
        behs = behaviours_for(ctx, fam, num)
        if guard:
            guard(fam, behs)
        for b in behs:
            ctx._distinct.add("serve:%s:%s:%r" % (fam, upstream, b))
        inp = {"behaviours": behs, "variants": variants, "focus": focus, "upstream": upstream}
        tag = fam + ("_" + upstream if upstream else "")
        res = ctx.go_driver("./serve", "TestServeReplay", inp, name="serve_%s_%s" % (focus, tag), timeout=1200)
        ctx.take_driver_result(res, "[Serve %s] " % tag)
        fam = tag
        ctx.cov["replay"]["serve_" + fam] = {
            "behaviours": len(behs), "cases": res["cases"], "drift": res["drift"],
            "drift_notes": res.get("drift_notes", [])[:5], "counters": res.get("counters", {})}
        total["behaviours"] += len(behs)
        if res.get("skipped"):
            raise vf.MachineryError("serve replay skipped: %s" % res["skipped"][:3])
        if res["cases"] == 0:
            raise vf.MachineryError("serve replay ran no cases for family " + fam)
    return total


# ---- relay: what an upstream's message may carry against what the client negotiated ------------------------------
TWO_OPT = ("up2optF", "up2optL", "up2optB")


def _relay_guard(fam, behs):
    """every seed must draw the cells the family exists for: a miss on each two-OPT content by a client that
    negotiated EDNS (one OPT and two), by one that did not, and a two-OPT request that carries client options"""
    need = {(c, o) for c in TWO_OPT for o in ("ok", "dup", "none")} | {("dupreq", "opts")}
    for b in behs:
        st = b["steps"][0]
        p = st["pkt"]
        if st["content"] in TWO_OPT and st["expTail"]:
            need.discard((st["content"], p["opt"]))
        for st in b["steps"]:
            p = st["pkt"]
            if p["opt"] == "dup" and st["expTail"] and (p["ecs"] != "none" or p["cookie"] != "none" or p["pad"]):
                need.discard(("dupreq", "opts"))
    if need:
        raise vf.MachineryError("relay sample misses the cells %s (seed-dependent vacuity)" % sorted(need))


def relay_family(ctx, focus, thorough):
    """Serve.tla family "relay": upstream messages with TWO OPT records (options of the upstream's own exchange in
    the first, the last, both) and requests with two OPT records, against clients with one OPT, two, none.
    Model: repaired writer / normaliser passes; the two as-built twins must refute the named property.
    Code: the same behaviours through the scripted tail AND through the real forwarder + socket upstream."""
    ctx.tlc("Serve", "MC_Serve.tla", "MC_Serve_relay.cfg", workers=4, timeout=900, heap="4g")
    for cfg, want in (("MC_Serve_twoopt_asbuilt.cfg", "ReplyContract"), ("MC_Serve_dupreq_asbuilt.cfg", "NoClientOptionUpstream")):
        r = ctx.tlc("Serve", "MC_Serve.tla", cfg, workers=4, timeout=600, heap="4g", must_pass=False, count=False, tag="as-built-must-fail")
        if r.violated != want:
            raise vf.MachineryError("%s: expected %s to fail, got %r (vacuous model element?)" % (cfg, want, r.violated))
    num, variants = (400, 2) if not thorough else (3000, 3)
    replay(ctx, focus, ["relay"], num=num, variants=variants, guard=_relay_guard)
    replay(ctx, focus, ["relay"], num=num, variants=variants, upstream="forwarder", guard=_relay_guard)


def replay_record(ctx, rec, focus):
    """bin/check C06|C19 --replay <file> for a violation recorded by the Serve driver: the recorded history alone."""
    rp = rec.get("replay", rec)
    if not isinstance(rp, dict) or rp.get("driver") != "serve" or not rp.get("steps"):
        return False
    beh = {"cfg": rp["cfg"], "steps": rp["steps"]}
    inp = {"behaviours": [beh], "variants": 3, "focus": focus, "upstream": rp.get("upstream", "")}
    res = ctx.go_driver("./serve", "TestServeReplay", inp, name="serve_replay_file", timeout=600)
    ctx.take_driver_result(res, "[replay] ")
    ctx.cov["states"] = max(1, ctx.cov["states"])
    ctx.cov["transitions"] = max(1, ctx.cov["transitions"])
    ctx.cov["replay"]["replayed_file"] = {"cases": res["cases"], "upstream": rp.get("upstream", "")}
    return True


# ---------------------------------------------------------------------------------------------------
# the cache ladder (family "ladder"): more than one name, time passing
# ---------------------------------------------------------------------------------------------------
LADDER_NEG = ["MC_Serve_ladder_neg_nobackoff.cfg", "MC_Serve_ladder_neg_fallthrough.cfg", "MC_Serve_ladder_neg_failfirst.cfg"]
# situations the replayed histories must contain AND the real decoded entry must confirm (else the run is vacuous)
LADDER_NEED = ["hit-truncated-under-cut", "lapsed-failure-asked", "cut-over-live-failure", "cut-served", "failure-served"]


def ladder_situation(pre, pkt):
    """The part of the state a ladder-family packet can meet: what is cached for ITS name and partition, is a cut
    recorded (and consulted: not for CD), the RFC 9520 state of its partition."""
    cd = pkt["cd"]
    if pkt["name"] == "sib":
        return ("sib", bool(pre["sc" if cd else "sa"]), bool(pre["cut"]) and not cd, "none")
    return ("own", pre["cc" if cd else "ca"], bool(pre["cut"]) and not cd, pre["fc" if cd else "fa"])


def ladder_classes(pre, step):
    """What the model says a query for the own name meets, from the state BEFORE it and its outcome."""
    p = step["pkt"]
    if p["name"] != "own":
        return []
    _, cached, cut, fail = ladder_situation(pre, p)
    cls = []
    if cut and cached and step["o"].get("tc"):
        cls.append("hit-truncated-under-cut")
    if not cached and not cut and fail == "lapsed":
        cls.append("lapsed-failure-asked")
    if not cached and cut and fail == "live":
        cls.append("cut-over-live-failure")
    if not cached and cut and fail != "live":
        cls.append("cut-served")
    if not cached and not cut and fail == "live":
        cls.append("failure-served")
    return cls


def ladder_behaviours(ctx, edges, per_key):
    """The printed state graph of MC_Serve_ladder -> histories.  Every distinct (situation, packet, model outcome) of the
    graph is replayed: `per_key` representative edges each (a seeded choice), reached over a shortest path from Init."""
    rnd = random.Random(ctx.seed)
    key = lambda st: json.dumps(st, sort_keys=True)  # noqa: E731
    out, inits = {}, set()
    for e in edges:
        k = key(e["pre"])
        out.setdefault(k, []).append(e)
        if e["pre"]["n"] == 0 and e["pre"]["nenv"] == 0:
            inits.add(k)
    for k in out:
        rnd.shuffle(out[k])
    parent = {k: None for k in inits}
    dq = deque(sorted(inits))
    while dq:
        u = dq.popleft()
        for e in out.get(u, []):
            v = key(e["post"])
            if v not in parent:
                parent[v] = e
                dq.append(v)
    groups = {}
    for e in edges:
        st = e["step"]
        if "env" in st:
            gk = ("env", st["env"], e["pre"]["content"], e["pre"]["fa"], e["pre"]["fc"], e["pre"]["cut"])
        else:
            p = st["pkt"]
            gk = (e["pre"]["content"], ladder_situation(e["pre"], p), p["opt"], p["proto"], p["do"], p["cd"],
                  st["o"]["kind"], st["o"].get("rcode"), st["o"].get("tc"), st["o"].get("ad"), st["tail"])
        groups.setdefault(gk, []).append(e)
    behs, have = [], {}
    for gk in sorted(groups, key=repr):
        for e in rnd.sample(groups[gk], min(per_key, len(groups[gk]))):
            path, k = [e], key(e["pre"])
            while parent.get(k) is not None:
                path.append(parent[k])
                k = key(parent[k]["pre"])
            path.reverse()
            content0 = path[0]["pre"]["content"]
            steps = []
            for x in path:
                st = x["step"]
                if "env" in st:
                    # `content` keeps naming the behaviour's question after what the upstream answered at the START
                    steps.append({"env": st["env"], "content": content0})
                    continue
                o = st["o"]
                s = {"pkt": st["pkt"], "content": st["content"] if steps else content0, "expTail": bool(st["tail"]),
                     "exp": {"kind": o["kind"], "rcode": o.get("rcode", ""), "opt": bool(o.get("opt", False)),
                             "tc": bool(o.get("tc", False)), "ad": bool(o.get("ad", False))}}
                cls = ladder_classes(x["pre"], st)
                if cls:
                    s["cls"] = cls
                    for c in cls:
                        have[c] = have.get(c, 0) + 1
                steps.append(s)
            behs.append({"cfg": {"nsid": False, "ratelimit": False, "ecs": "off"}, "steps": steps})
    return behs, have, len(groups)


def ladder(ctx, focus, thorough):
    """Serve.tla family "ladder": the exhaustive config (which prints its state graph), three mutant configs that must
    violate PathsAgree, and histories covering the graph (queries for the own name and its sibling, Elapse, Recover)
    replayed through the three entries."""
    errs, box = [], {}

    def guard(f):
        def g():
            try:
                f()
            except BaseException as ex:  # noqa: BLE001
                errs.append(ex)
        return g

    def pos():
        # one worker: the printed edges must not interleave
        box["r"] = ctx.tlc("Serve", "MC_Serve.tla", "MC_Serve_ladder.cfg", workers=1, timeout=900, heap="4g")

    def neg(cfg):
        r = ctx.tlc("Serve", "MC_Serve.tla", cfg, workers=2, timeout=600, heap="2g", must_pass=False, count=False,
                    tag="negative-must-fail")
        if r.violated != "PathsAgree":
            raise vf.MachineryError("mutant config %s does not violate PathsAgree (got %s): the ladder invariant is vacuous"
                                    % (cfg, r.violated))

    ts = [threading.Thread(target=guard(pos))] + [threading.Thread(target=guard(lambda c=c: neg(c))) for c in LADDER_NEG]
    for t in ts:
        t.start()
    for t in ts:
        t.join()
    if errs:
        raise errs[0]
    edges = [v for v in box["r"].printed() if isinstance(v, dict) and v.get("edge") == "ladder"]
    if len(edges) < 1000:
        raise vf.MachineryError("MC_Serve_ladder printed %d edges of its state graph" % len(edges))
    behs, have, ngroups = ladder_behaviours(ctx, edges, 1 if not thorough else 4)
    miss = [c for c in LADDER_NEED if not have.get(c)]
    if miss:
        raise vf.MachineryError("ladder family: no history with %s in the state graph (vacuous)" % miss)
    for b in behs:
        ctx._distinct.add("serve:ladder:%r" % (b,))
    inp = {"behaviours": behs, "variants": 2 if not thorough else 4, "focus": focus, "family": "ladder"}
    res = ctx.go_driver("./serve", "TestServeReplay", inp, name="serve_%s_ladder" % focus, timeout=1200)
    ctx.take_driver_result(res, "[Serve ladder] ")
    cnt = res.get("counters", {})
    ctx.cov["replay"]["serve_ladder"] = {
        "graph_edges": len(edges), "situations": ngroups, "behaviours": len(behs), "model_classes": have, "cases": res["cases"],
        "drift": res["drift"], "drift_notes": res.get("drift_notes", [])[:5], "counters": cnt}
    if res.get("violations"):
        return
    if res.get("skipped"):
        raise vf.MachineryError("serve ladder replay skipped: %s" % res["skipped"][:3])
    if res["cases"] == 0:
        raise vf.MachineryError("serve ladder replay ran no cases")
    dead = [c for c in LADDER_NEED if not cnt.get("confirmed_" + c)]
    if dead:
        raise vf.MachineryError("ladder family: the real decoded entry never produced %s (the histories do not build the "
                                "state on this tree: vacuous)" % dead)
