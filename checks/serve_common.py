"""Shared orchestration for the Serve.tla family (C05, C06, C19)."""
import vf

FAMILIES = ["admission", "shaping", "cookies", "ecs"]


def label_args(label):
    """Query([...record...],"pos") -> (pkt dict, content)"""
    inner = label[label.index("(") + 1: label.rindex(")")]
    v = vf.parse_tla_value("<<" + inner + ">>")
    return vf.unset(v[0]), v[1]


def behaviours_for(ctx, family, num, depth=4):
    behs = ctx.tlc_behaviours("Serve", "MC_Serve.tla", "Sim_Serve_%s.cfg" % family, num=num, depth=depth)
    out = []
    seen = set()
    for b in behs:
        if len(b) < 2:
            continue
        cfg = b[0][1]["cfg"]
        steps = []
        for lab, st in b[1:]:
            o = st["out"]
            if not o.get("valid"):
                continue
            wo = o["wire"]["o"]
            exp = {"kind": wo["kind"], "rcode": wo.get("rcode", ""), "opt": bool(wo.get("opt", False)),
                   "tc": bool(wo.get("tc", False)), "ad": bool(wo.get("ad", False))}
            steps.append({"pkt": o["pkt"], "content": o["content"], "exp": exp, "expTail": bool(o["wire"]["tail"])})
        if not steps:
            continue
        key = repr((cfg, steps))
        if key in seen:
            continue
        seen.add(key)
        out.append({"cfg": cfg, "steps": steps})
    return out


def run_family_models(ctx, families, thorough):
    for fam in families:
        ctx.tlc("Serve", "MC_Serve.tla", "MC_Serve_%s.cfg" % fam, workers=8, timeout=1500, heap="8g")


def regression_model(ctx):
    """The pre-fix CancelWithRcode (Reflects = TRUE) must violate ReplyContract in the
    model: guards against the contract becoming vacuous."""
    r = ctx.tlc("Serve", "MC_Serve.tla", "MC_Serve_regress.cfg", workers=4, timeout=600, heap="4g",
                must_pass=False, count=False, tag="regression-must-fail")
    if r.violated not in ("ReplyContract", "NeverEcsToClient"):
        raise vf.MachineryError("regression config no longer violates the reply contract (vacuous model?)")


def replay(ctx, focus, families, num, variants):
    total = {"behaviours": 0, "drift": 0}
    for fam in families:
        behs = behaviours_for(ctx, fam, num)
        for b in behs:
            ctx._distinct.add("serve:%s:%r" % (fam, b))
        inp = {"behaviours": behs, "variants": variants, "focus": focus}
        res = ctx.go_driver("./serve", "TestServeReplay", inp, name="serve_%s_%s" % (focus, fam), timeout=1200)
        ctx.take_driver_result(res, "[Serve %s] " % fam)
        ctx.cov["replay"]["serve_" + fam] = {
            "behaviours": len(behs), "cases": res["cases"], "drift": res["drift"],
            "drift_notes": res.get("drift_notes", [])[:5], "counters": res.get("counters", {})}
        total["behaviours"] += len(behs)
        if res.get("skipped"):
            raise vf.MachineryError("serve replay skipped: %s" % res["skipped"][:3])
        if res["cases"] == 0:
            raise vf.MachineryError("serve replay ran no cases for family " + fam)
    return total
