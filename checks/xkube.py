"""XKUBE -- the kubernetes middleware's registry as a state machine (system coverage beyond C01..C20).

tla/KubeRegistry/KubeRegistry.tla   the informer callbacks of Client (Service / EndpointSlice / Pod add, update, delete),
        the rebuild worker (inline and queued), the sharded Registry with its pre-built answers, the incremental
        per-slice state of headless services, and Query(name, type) = ServeDNS + cachedAnswer.  Ghost: the informer's
        view (last object delivered per key); Truth(view) = the documented answer of every name.
  - TLC exhaustive.  The REPAIRED model (five as-built findings switched off) satisfies Agree* / QueryAgree: the
    pre-built answers are a function of the latest version of every object, delete removes every record kind,
    accessors name a current holder.  The AS-BUILT model must refute each of them in the configuration of its finding
    (AB_*), satisfies NoMixture for services and pods, refutes NoGap (transient "no entry" inside an update) and, with
    slices, NoMixture; every disagreement of the as-built model is classified (Explained).  Four seeded model defects
    (Neg_*) must refute their invariant.
  - spec -> code (harness/xkube TestReplay).  Histories = TLC's counter-examples of the AB_* configurations (directed,
    always replayed), simulated behaviours of the as-built model (inline and queued worker) and an edge cover of a
    small state graph.  Every history is run through the model as a Script (Script_Full*.cfg, -dumpTrace json) and
    through the real Client + Registry + handler inside the real default chain; after every callback every name of the
    universe is asked (ServeMsg and ServeRaw) and compared with the as-built model (drift) and with Truth (verdict).
  - free-running (TestFree): one applier per informer kind and concurrent queriers; every reply must be an answer of a
    state the query overlapped, an intermediate value the model's per-name history predicts, or the documented gap.

Verdict classes (kube/*).  `kube/finding/<class>`: the code's answer (or accessor) differs from the documented one exactly as the
as-built model predicts AND classifies it (six known findings, see known_findings.json; their directed histories = TLC's
counter-examples of AB_*.cfg are replayed in every run, so the KNOWN-FINDING lines are the same for every seed).
`kube/unexplained/*` (the as-built model agrees with the code but has no classification), `kube/unmodelled/*` (the code differs
from the as-built model too): any other difference from the documented answer.  `kube/mixed/*`, `kube/converge/*`: a concurrent
reader saw a value that is neither old, new, gap nor a modelled intermediate / the concurrent run ended elsewhere than the
sequential history.  `kube/mutated-in-place`: slices handed out by Registry.ResolveQuery before a callback read differently after
it.  `kube/accessor/*`: GetServiceByIP / GetPodByIP name an object that does not hold the address (or nobody, outside the known
shape).  `kube/zone/*`, `kube/passthrough-modified`, `kube/not-authoritative`: zone matching, pass-through untouched, AA.
`kube/worker-stuck`: the real rebuild worker (3 ms debounce, nobody flushing) does not publish / retract a slice within 5 s.
Before the first sync nothing is judged (README: pass-through; code comment: SERVFAIL) -- OBSERVATION lines report this, the
as112 shadowing of 10.in-addr.arpa in the default chain, NXDOMAIN for empty non-terminals and the transient gap seen by readers.
"""
import ipaddress
import json
import os
import random
import re
from concurrent.futures import ThreadPoolExecutor

import vf

MOD = "KubeRegistry"
SPEC = "MC_Kube.tla"
TAG = "x00kube"
PAR = 8

PASS_QUICK = ["MC_Svc", "MC_Pod", "MC_Hl", "MC_HlQ", "MC_MixSvc", "MC_MixPod", "MC_Explained", "MC_ExplainedPod1"]
PASS_THOROUGH = ["MC_Pod2", "MC_Hl2", "MC_Hl2Q", "MC_Relabel", "MC_MixSvc4", "MC_Mix", "MC_ExplainedSvc", "MC_Explained2", "MC_ExplainedPod"]
BIG = ("MC_Mix", "MC_Hl2Q", "MC_ExplainedPod", "MC_Explained2", "MC_ExplainedSvc")
# simulations of the as-built model: (cfg, mode, behaviours quick, behaviours thorough)
SIMS = [("Sim_Full", "inline", 5, 40), ("Sim_FullQ", "queued", 5, 40), ("Sim_Svc", "inline", 4, 30), ("Sim_Pod", "inline", 4, 30),
        ("Sim_Hl", "inline", 6, 40), ("Sim_HlQ", "queued", 6, 40)]
# as-built findings: (cfg, what it must refute, finding class); their counter-examples are the directed histories
AS_BUILT = [("AB_podshare", "AgreePod", "pod-ip-shared"), ("AB_ipshare", "AgreePtr", "clusterip-shared"),
            ("AB_resurrect", "AgreeSvc", "stale-synthetic"), ("AB_ownerless", "AgreeSvc", "ownerless-slice-forgotten"),
            ("AB_replaced", "AgreeSvc", "stale-slice-of-replaced-service"), ("AB_future", "AgreeSvc", "early-slice-dropped"),
            ("AB_gap", "NoGap", None), ("AB_mixture", "NoMixture", None)]
NEGATIVE = [("Neg_stale_on_update", "AgreePtr"), ("Neg_ptr_kept", "AgreePtr"), ("Neg_srv_prev_ports", "AgreeSrv"),
            ("Neg_srv_prev_ports_hl", "AgreeSrv"), ("Neg_headless_merge", "AgreeSvc"), ("Neg_headless_merge_ept", "AgreeEpt")]

# ---- the universe of the replay (mirrors MC_Kube.tla / Script_Full.cfg; checked against every state TLC returns) -------
DOMAIN_CFG = "Cluster.Local."          # as an operator might write it; New() normalises
ZONE = "cluster.local"
TTL = {"service": 31, "pod": 32, "srv": 33, "ptr": 34}
NSS, SNS = ["n1", "n2"], ["a", "b"]
PORTNAMES, PROTOS = ["http", "dns"], ["TCP", "UDP"]
HOSTS = ["w0", "w1"]
C_ADDRS = ["10.96.0.1", "10.96.0.2", "fd00::6"]
P_ADDRS = ["10.244.0.1", "10.244.0.2", "fd00:1::6"]
TYPES = ["A", "AAAA", "CNAME", "SRV", "PTR", "TXT", "ANY"]
OUTSIDE = [("example.com.", "A", "PASS"), ("cluster.local.", "A", "PASS"), ("xcluster.local.", "A", "PASS"),
           ("CLUSTER.local.", "AAAA", "PASS"), ("a.n1.svc.cluster.local.example.com.", "A", "PASS"),
           ("local.", "A", "PASS"), ("9.9.9.9.in-addr.arpa.", "PTR", "PASS"), ("4.3.2.1.in-addr.arpa.", "A", "PASS"),
           ("nosuch.n1.svc.cluster.local.", "A", "NX"), ("a.n3.svc.cluster.local.", "SRV", "NX"),
           ("Foo.Cluster.LOCAL.", "TXT", "NX"), ("10-9-9-9.n1.pod.cluster.local.", "A", "NX"),
           ("n1.svc.cluster.local.", "A", ""), ("svc.cluster.local.", "A", "")]

ACTIONS = {"SvcAdd": ("svcAdd", ["ns", "sn", "i", "uid"]), "SvcUpdate": ("svcUpdate", ["ns", "sn", "i", "uid"]),
           "SvcDelete": ("svcDelete", ["ns", "sn"]),
           "SliceAdd": ("sliceAdd", ["ns", "sl", "label", "owner", "j"]), "SliceUpdate": ("sliceUpdate", ["ns", "sl", "label", "owner", "j"]),
           "SliceDelete": ("sliceDelete", ["ns", "sl"]),
           "PodAdd": ("podAdd", ["ns", "pn", "i"]), "PodUpdate": ("podUpdate", ["ns", "pn", "i"]), "PodDelete": ("podDelete", ["ns", "pn"]),
           "Sync": ("sync", []), "FlushStep": ("flush", []), "Reset": ("reset", [])}


def dashed(ip):
    a = ipaddress.ip_address(ip)
    return str(a).replace(".", "-").replace(":", "-").lower()


def expanded(ip):
    a = ipaddress.ip_address(ip)
    return a.exploded.replace(":", "-").lower() if a.version == 6 else None


def altcase(q):
    return "".join(c.upper() if i % 3 == 0 else c for i, c in enumerate(q))


def nid(n):
    """A model name (parsed TLA tuple) -> id string."""
    t = n[0]
    if t == "svc":
        return "svc/%s/%s" % (n[1][0], n[1][1])
    if t == "srv":
        return "srv/%s/%s/%s/%s" % (n[1], n[2], n[3][0], n[3][1])
    if t == "ept":
        return "ept/%s/%s/%s" % (n[1], n[2][0], n[2][1])
    if t == "pod":
        return "pod/%s/%s" % (n[1], n[2])
    if t == "rev":
        return "rev/%s" % n[1]
    raise vf.MachineryError("unknown model name %r" % (n,))


def name_entry(i):
    p = i.split("/")
    k, alias, owner = p[0], "", ""
    if k == "svc":
        q, owner = "%s.%s.svc.%s." % (p[2], p[1], ZONE), "%s/%s" % (p[1], p[2])
    elif k == "srv":
        q, owner = "_%s._%s.%s.%s.svc.%s." % (p[1], p[2].lower(), p[4], p[3], ZONE), "%s/%s" % (p[3], p[4])
    elif k == "ept":
        lab = p[1] if p[1] in HOSTS else dashed(p[1])
        q, owner = "%s.%s.%s.svc.%s." % (lab, p[3], p[2], ZONE), "%s/%s" % (p[2], p[3])
    elif k == "pod":
        q = "%s.%s.pod.%s." % (dashed(p[1]), p[2], ZONE)
        if expanded(p[1]):
            alias = "%s.%s.pod.%s." % (expanded(p[1]), p[2], ZONE)
    else:
        q = ipaddress.ip_address(p[1]).reverse_pointer + "."
    return {"id": i, "kind": k, "q": q, "alt": altcase(q), "alias": alias, "owner": owner}


def universe():
    ids = []
    keys = [(ns, sn) for ns in NSS for sn in SNS]
    ids += ["svc/%s/%s" % k for k in keys]
    ids += ["srv/%s/%s/%s/%s" % (pn, pr, k[0], k[1]) for pn in PORTNAMES for pr in PROTOS for k in keys]
    ids += ["ept/%s/%s/%s" % (l, k[0], k[1]) for l in HOSTS + P_ADDRS for k in keys]
    ids += ["pod/%s/%s" % (ip, ns) for ip in P_ADDRS for ns in NSS]
    ids += ["rev/%s" % ip for ip in C_ADDRS + P_ADDRS]
    return [name_entry(i) for i in ids]


# ---------------------------------------------------------------------------------------------------
# TLC values -> driver JSON
# ---------------------------------------------------------------------------------------------------
def pkey(k):
    """A function key of -dumpTrace json ('<<"svc", <<"n1", "a">>>>') -> python value."""
    return vf.parse_tla_value(k) if k.startswith("<<") else k


def fn_items(f):
    """Functions arrive as dicts (string keys), empty ones as []."""
    if isinstance(f, dict):
        return list(f.items())
    if isinstance(f, list) and not f:
        return []
    if isinstance(f, list):      # a function with domain 1..n
        return [(str(i + 1), v) for i, v in enumerate(f)]
    raise vf.MachineryError("not a function: %r" % (f,))


def set_json(s):
    out = {}
    if s.get("x") is False:
        return {"gone": True}
    for f in ("a", "aaaa", "cname"):
        if s.get(f):
            out[f] = sorted(s[f])
    if s.get("srv"):
        out["srv"] = sorted(({"port": x[0], "target": nid(x[1])} for x in s["srv"]), key=lambda x: (x["port"], x["target"]))
    if s.get("ptr"):
        out["ptr"] = sorted(nid(x) for x in s["ptr"])
    if s.get("fb"):
        out["fb"] = True
    if s.get("extra") and s.get("srv"):
        out["extra"] = sorted(({"name": nid(x[0]), "ip": x[1]} for x in s["extra"]), key=lambda x: (x["name"], x["ip"]))
    return out


def obj_json(o):
    if o is None:
        return None
    out = {}
    for k in ("kind", "ext", "uid", "label", "owner"):
        if k in o:
            out[k] = o[k]
    if "ports" in o:
        out["ports"] = [list(p) for p in o["ports"]]
    if "ips" in o:
        out["ips"] = list(o["ips"])
    if "eps" in o:
        out["eps"] = [{"host": e["host"], "ready": bool(e["ready"]), "addrs": list(e["addrs"])} for e in o["eps"]]
    return out


def step_json(label, st, known):
    ev = st["ev"]
    model = {nid(pkey(k)): set_json(v) for k, v in fn_items(st["r"]["ans"])}
    truth = {nid(pkey(k)): [set_json(t) for t in v] for k, v in fn_items(st["tr"])}
    why = {nid(pkey(k)): sorted(v) for k, v in fn_items(st["why"])}
    hist = {nid(pkey(k)): [set_json(x) for x in v] for k, v in fn_items(st["r"]["hist"])}
    for i in list(model) + list(truth):
        if i not in known:
            raise vf.MachineryError("the model names %s, which is outside the replay universe" % i)
    pend = ["%s/%s" % tuple(k) for k in st["c"]["pending"]]
    out = {"label": label, "op": ev["op"], "ns": ev.get("ns", ""), "name": ev.get("name", ""), "synced": bool(st["synced"]),
           "model": model, "truth": truth, "why": why, "pending": pend, "hist": hist}
    # the registry's accessors (GetServiceByIP / GetPodByIP): the model's index and the current holders in the view
    out["byip"] = {ip: "%s/%s" % tuple(k) for ip, k in fn_items(st["r"]["byip"])}
    out["podip"] = {ip: "%s/%s" % tuple(k) for ip, k in fn_items(st["r"]["podip"])}
    sh, ph = {}, {}
    for k, o in fn_items(st["vsvc"]):
        if o["kind"] == "cip":
            for ip in o["ips"]:
                sh.setdefault(ip, []).append("%s/%s" % tuple(pkey(k)))
    for k, o in fn_items(st["vpod"]):
        for ip in o["ips"]:
            ph.setdefault(ip, []).append("%s/%s" % tuple(pkey(k)))
    out["svcHolders"], out["podHolders"] = sh, ph
    if "obj" in ev:
        out["obj"] = obj_json(ev["obj"])
    if "old" in ev:
        out["old"] = obj_json(ev["old"])
    return out


def tla(v):
    if isinstance(v, str):
        return '"%s"' % v
    if isinstance(v, bool):
        return "TRUE" if v else "FALSE"
    if isinstance(v, int):
        return str(v)
    return "<<" + ", ".join(tla(x) for x in v) + ">>"


def label_of(act):
    name = act["name"]
    if name not in ACTIONS:
        raise vf.MachineryError("unknown action %r in a TLC trace" % name)
    op, params = ACTIONS[name]
    ctxv = act.get("context", {})
    return [op] + [ctxv[p] for p in params]


def trace_actions(path):
    """-dumpTrace json -> [(script entry, state after it)]."""
    with open(path) as f:
        tr = json.load(f)["counterexample"]["action"]
    return [(label_of(act), post[1]) for pre, act, post in tr]


SIM_LABEL = re.compile(r"^\\\* <(\w+)(?:\((.*)\))? line \d+", re.M)


def sim_scripts(ctx, cfg, num, depth):
    """Simulated behaviours of the as-built model, as scripts (only the action labels of the trace files are read)."""
    d = ctx.spec_dir(MOD)
    pref = os.path.join(d, "sim_%s" % cfg)
    r = ctx.tlc(MOD, SPEC, cfg + ".cfg", workers=1, timeout=300, heap="2g", deadlock=False,
                args=["-simulate", "file=%s,num=%d" % (pref, num), "-depth", str(depth), "-seed", str(ctx.seed)],
                must_pass=False, tag="simulate", count=False)
    if r.rc != 0:
        raise vf.MachineryError("TLC simulate failed on %s rc=%d\n%s" % (cfg, r.rc, "\n".join(r.out.splitlines()[-30:])))
    import glob
    scripts = []
    for path in sorted(glob.glob(pref + "_*")):
        with open(path) as f:
            text = f.read()
        os.remove(path)
        s = []
        for m in SIM_LABEL.finditer(text):
            if m.group(1) == "Init":
                continue
            op, _ = ACTIONS[m.group(1)]
            args = vf.parse_tla_value("<<" + m.group(2) + ">>") if m.group(2) else []
            s.append([op] + args)
        if s:
            scripts.append(s)
    return scripts


def run_scripts(ctx, tag, mode, scripts, known):
    """Run histories through the as-built model (one scripted behaviour, Reset between histories): behaviours for the driver."""
    d = ctx.spec_dir(MOD)
    flat = []
    for s in scripts:
        if flat:
            flat.append(["reset"])
        flat += s
    base = "Script_Full" if mode == "inline" else "Script_FullQ"
    root = "XS_%s" % tag
    with open(os.path.join(d, root + ".tla"), "w") as f:
        f.write("---- MODULE %s ----\nEXTENDS MC_Kube\nXScript == <<\n  %s >>\n====\n" % (root, ",\n  ".join(tla(e) for e in flat)))
    with open(os.path.join(d, base + ".cfg")) as f:
        cfg = f.read().replace("Script <- ScriptDef", "Script <- XScript")
    with open(os.path.join(d, root + ".cfg"), "w") as f:
        f.write(cfg)
    dump = os.path.join(d, root + ".trace.json")
    r = ctx.tlc(MOD, root + ".tla", root + ".cfg", workers=1, timeout=600, heap="3g", deadlock=False, must_pass=False,
                args=["-dumpTrace", "json", dump], tag="script", count=False)
    if r.violated != "ScriptDone" or not os.path.exists(dump):
        raise vf.MachineryError("the scripted run %s did not reach the end of its script (%s)\n%s"
                                % (root, r.violated, "\n".join(r.out.splitlines()[-25:])))
    acts = trace_actions(dump)
    if len(acts) != len(flat):
        raise vf.MachineryError("scripted run %s: %d actions for %d script entries" % (root, len(acts), len(flat)))
    behs, cur = [], []
    for (lab, st), want in zip(acts, flat):
        if lab != want:
            raise vf.MachineryError("scripted run %s: action %r where the script says %r" % (root, lab, want))
        if lab == ["reset"]:
            behs.append(cur)
            cur = []
            continue
        cur.append(step_json(tla(lab), st, known))
    behs.append(cur)
    return behs


def parse_printed(out, marker):
    i = out.find('<< "%s"' % marker)
    if i < 0:
        i = out.find('<<"%s"' % marker)
    if i < 0:
        raise vf.MachineryError("TLC did not print %s" % marker)
    return vf.unset(vf.parse_tla_value(out[i:]))


def selfcheck_table(out):
    v = parse_printed(out, "XKUBE-OUTCOMES")
    sets, table = v[1], v[2]
    res = []
    for i, s in enumerate(sets):
        row = table[i] if isinstance(table, list) else table[str(i + 1)]
        for qt, o in row.items():
            res.append({"set": set_json(s), "type": qt, "f": o[0], "n": o[1], "nx": o[2]})
    return res


def parallel(jobs):
    with ThreadPoolExecutor(max_workers=PAR) as ex:
        futs = [ex.submit(j) for j in jobs]
        return [f.result() for f in futs]


def ensure_overlay(ctx):
    ctx.overlay_tags.add(TAG)
    ov = os.path.join(ctx.scratch, "overlay.json")
    if os.path.exists(ov):
        with open(ov) as f:
            if "verif_%s_shim.go" % TAG not in f.read():
                os.remove(ov)


# ---------------------------------------------------------------------------------------------------
# the model alone
# ---------------------------------------------------------------------------------------------------
def model_jobs(ctx, thorough):
    passing = PASS_QUICK + (PASS_THOROUGH if thorough else [])
    jobs = []
    for c in passing:
        big = c in BIG
        jobs.append(lambda c=c, big=big: ctx.tlc(MOD, SPEC, c + ".cfg", workers=6 if big else 2, timeout=1500 if big else 400,
                                                 heap="6g" if big else "2g", deadlock=False))
    d = ctx.spec_dir(MOD)
    for c, _, _ in AS_BUILT:
        jobs.append(lambda c=c: ctx.tlc(MOD, SPEC, c + ".cfg", workers=1, timeout=300, heap="2g", deadlock=False, must_pass=False,
                                        count=False, tag="as-built-must-refute", args=["-dumpTrace", "json", os.path.join(d, c + ".trace.json")]))
    for c, _ in NEGATIVE:
        jobs.append(lambda c=c: ctx.tlc(MOD, SPEC, c + ".cfg", workers=1, timeout=300, heap="2g", deadlock=False, must_pass=False,
                                        count=False, tag="mutant-must-refute"))

    def post(out):
        info = {"repaired_and_as_built_pass": {c: {"distinct": r.distinct, "generated": r.generated} for c, r in zip(passing, out)}}
        rest = out[len(passing):]
        directed = []
        for (c, want, cls), r in zip(AS_BUILT, rest):
            if r.violated != want:
                raise vf.MachineryError("%s: the as-built model must refute %s, TLC says %r" % (c, want, r.violated))
            acts = trace_actions(os.path.join(d, c + ".trace.json"))
            directed.append((c, cls, [lab for lab, _ in acts]))
        for (c, want), r in zip(NEGATIVE, rest[len(AS_BUILT):]):
            if r.violated != want:
                raise vf.MachineryError("%s: the seeded model defect must refute %s, TLC says %r (vacuous invariant?)" % (c, want, r.violated))
        info["as_built_refutes"] = {c: w for c, w, _ in AS_BUILT}
        info["mutants_refute"] = {c: w for c, w in NEGATIVE}
        ctx.cov["replay"]["model"] = info
        return directed, out[0].out
    return jobs, post


def graph_scripts(ctx, max_len):
    """Every labelled edge of the small as-built graph, as covering scripts."""
    r, nodes, edges, inits = ctx.tlc_graph(MOD, SPEC, "Graph_Small.cfg", timeout=400, workers=2, heap="2g", deadlock=False)
    rank = {n: "n%05d" % i for i, n in enumerate(sorted(nodes, key=lambda n: json.dumps(nodes[n], sort_keys=True, default=str)))}
    uniq = sorted(set((rank[s], rank[d], lab) for (s, d, lab) in edges))
    nn = {rank[n]: st for n, st in nodes.items()}
    paths = vf.cover_paths(nn, uniq, sorted(rank[n] for n in inits), max_len=max_len)
    scripts = []
    for p in paths:
        s = []
        for e in p:
            lab = e[2].replace('\\"', '"')
            m = re.match(r"(\w+)(?:\((.*)\))?$", lab.strip())
            op, _ = ACTIONS[m.group(1)]
            s.append([op] + (vf.parse_tla_value("<<" + m.group(2) + ">>") if m.group(2) else []))
        scripts.append(s)
    return scripts, len(nodes), len(uniq)


# ---------------------------------------------------------------------------------------------------
def driver_input(behaviours, selfcheck, budget, names, strict=True):
    return {"domain": DOMAIN_CFG, "ttl": TTL, "names": names, "types": TYPES, "behaviours": behaviours, "budgetS": budget,
            "outside": [{"q": q, "type": t, "expect": e} for q, t, e in OUTSIDE], "selfcheck": selfcheck, "queriers": 4,
            "strict": strict}


def fold(ctx, res, prefix):
    ctx.take_driver_result(res, prefix)
    if res.get("skipped"):
        raise vf.MachineryError("driver skipped behaviours: %s" % res["skipped"][:3])


def run_tier(ctx):
    thorough = ctx.tier == "thorough"
    ensure_overlay(ctx)
    ctx.assumptions += [
        "XKUBE: no cluster: the informer callbacks (safeServiceAdd ... safePodDelete) are called directly with synthetic "
        "objects, in the order the model chose; per-key delivery order is the informer's (add only when absent, update and "
        "delete only when present), cross-key and cross-kind order is free; UIDs are never re-used; an ownerReference changes "
        "only with the service-name label",
        "XKUBE: the documented answer (Truth) of a name is derived from the last object delivered per key: README of "
        "middleware/kubernetes (service / headless / ExternalName / pod / SRV / PTR records, NXDOMAIN for cluster-domain "
        "misses, fall-through for reverse misses and foreign names) + the doc comments (UID guard of slices, SRV per named "
        "port, PTR -> canonical pod name); an address held by several objects may point at any of them",
        "XKUBE: queued mode = the real rebuild worker with a debounce that never elapses + explicit flushRebuilds where the "
        "model flushes; names whose rebuild is queued are compared with the model only",
        "XKUBE: the replay's chain narrows as112's empty zones (10.in-addr.arpa is answered by as112 BEFORE kubernetes in the "
        "default chain; observation)",
    ]
    names = universe()
    known = {n["id"] for n in names}
    mjobs, mpost = model_jobs(ctx, thorough)
    depth = 16 if not thorough else 26
    jobs = mjobs + [lambda c=c, n=(nt if thorough else nq): sim_scripts(ctx, c, n, depth) for c, _, nq, nt in SIMS]
    jobs.append(lambda: graph_scripts(ctx, 12 if not thorough else 16))
    # compile the drivers while TLC works (the later go test invocations find the packages in the build cache)
    jobs.append(lambda: ctx.go_test("./xkube", "^TestNoSuchTest$", timeout=600))
    out = parallel(jobs)
    if out[-1][0] != 0:
        raise vf.MachineryError("the xkube drivers do not build:\n%s" % "\n".join(out[-1][1].splitlines()[-40:]))
    out = out[:-1]
    directed, first_out = mpost(out[:len(mjobs)])
    sims = out[len(mjobs):len(mjobs) + len(SIMS)]
    gscripts, gnodes, gedges = out[-1]
    selfcheck = selfcheck_table(first_out)
    rng = random.Random(ctx.seed)
    if not thorough:
        rng.shuffle(gscripts)
        gscripts = gscripts[:30]

    def synced_first(s, always):
        """Nothing is judged before the sync: most histories sync first (a legal behaviour: Sync is enabled from the start)."""
        rest = [e for e in s if e != ["sync"]]
        if always or rng.random() < 0.8:
            return [["sync"]] + rest
        return s if ["sync"] in s else s + [["sync"]]

    dscripts = [synced_first(s, True) for _, _, s in directed]
    # the directed histories also with the worker queue: the worker drains after every callback
    dq = []
    for s in dscripts:
        q = []
        for e in s:
            q += [e] if e == ["sync"] else [e, ["flush"]]
        dq.append(q)
    plan = [("dir", "inline", dscripts), ("dirq", "queued", dq)]
    gs = [synced_first(s, True) for s in gscripts]
    chunk = max(1, (len(gs) + 2) // 3)
    for i in range(0, len(gs), chunk):
        plan.append(("graph%d" % (i // chunk), "inline", gs[i:i + chunk]))
    for (c, m, _, _), scripts in zip(SIMS, sims):
        plan.append((c.lower(), m, [synced_first(s, False) for s in scripts]))
    # a scripted TLC run costs more than linearly in its length (trace reconstruction): chunks of ~150 callbacks
    chunks = []
    for t, m, scripts in plan:
        cur, n, k = [], 0, 0
        for s in scripts:
            if cur and n + len(s) > 150:
                chunks.append((t, k, m, cur))
                cur, n, k = [], 0, k + 1
            cur.append(s)
            n += len(s)
        chunks.append((t, k, m, cur))
    outs = parallel([lambda t=t, k=k, m=m, c=c: run_scripts(ctx, "%s_%d" % (t, k), m, c, known) if c else [] for t, k, m, c in chunks])
    behs = []
    for t, m, scripts in plan:
        bl = []
        for (t2, _, _, _), o in zip(chunks, outs):
            if t2 == t:
                bl += o
        behs.append(bl)
    behaviours = []
    for (t, m, scripts), bl in zip(plan, behs):
        for i, steps in enumerate(bl):
            nm = "%s-%d" % (t, i)
            if t in ("dir", "dirq"):
                nm = "%s-%s" % (t, directed[i][0])
            if not steps:
                continue
            behaviours.append({"name": nm, "mode": m, "steps": steps})
            ctx._distinct.add("history:%s:%s" % (m, ";".join(s["label"] for s in steps)))
    ctx.log("histories: %d directed (x2 modes), %d simulated (%s), %d of the %d-edge graph (%d states)"
            % (len(dscripts), sum(len(x) for x in sims), " ".join("%s=%d" % (c, len(x)) for (c, _, _, _), x in zip(SIMS, sims)),
               len(gscripts), gedges, gnodes))
    res = ctx.go_driver("./xkube", "TestReplay", driver_input(behaviours, selfcheck, 0 if thorough else 25, names), name="replay", timeout=1500)
    fold(ctx, res, "[KubeRegistry replay] ")
    c = res.get("counters", {})
    info = {"behaviours": c.get("behaviours", 0), "inline": c.get("behaviours_inline", 0), "queued": c.get("behaviours_queued", 0),
            "steps": c.get("steps", 0), "judged_queries": c.get("judged", 0), "unjudged_queries": c.get("unjudged", 0),
            "ops": {k[3:]: v for k, v in c.items() if k.startswith("op_")},
            "findings_hit": {k[8:]: v for k, v in c.items() if k.startswith("finding_")},
            "cut_by_budget": c.get("behaviours_cut_by_budget", 0), "drift": res["drift"], "drift_notes": res.get("drift_notes", []),
            "graph": {"states": gnodes, "edges": gedges, "scripts": len(gscripts)}}
    ctx.cov["replay"]["replay"] = info
    ctx.cov["traces_validated_against_impl"] += c.get("behaviours", 0)
    if not res.get("violations") and (c.get("steps", 0) == 0 or c.get("judged", 0) == 0):
        raise vf.MachineryError("the replay was vacuous: %s" % c)
    missing = [cls for _, _, cls in AS_BUILT if cls and ("finding_" + cls) not in c]
    if missing:
        ctx.log("NOTE: the directed histories of %s did not show the finding on this tree (repaired?)" % missing)
        info["findings_not_reproduced"] = missing
    free_stage(ctx, behaviours, selfcheck, names, thorough, strict=res["drift"] == 0)
    observe_stage(ctx, selfcheck, names)


def observe_stage(ctx, selfcheck, names):
    res = ctx.go_driver("./xkube", "TestObserve", driver_input([], selfcheck, 0, names), name="observe", timeout=300)
    fold(ctx, res, "[KubeRegistry worker] ")
    obs = (res.get("samples") or [{}])[0]
    ctx.cov["replay"]["observations"] = obs
    notes = []
    if str(obs.get("default_chain_ptr_of_clusterip_10.96.0.1", "")).startswith("NX"):
        notes.append("in the DEFAULT chain as112 (empty zone 10.in-addr.arpa, registered before kubernetes) answers the PTR of a ClusterIP / pod "
                     "address NXDOMAIN: the README's `dig -x 10.96.0.1` only works once [emptyzones] is narrowed (%s)"
                     % obs.get("default_chain_ptr_of_clusterip_10.96.0.1"))
    if obs.get("unsynced_cluster_name") == "SERVFAIL":
        notes.append("before the first sync a cluster-domain name is answered SERVFAIL (kubernetes.go: deliberate), while the README's "
                     "troubleshooting section says the middleware passes through to the next handler until an informer has populated the registry")
    if str(obs.get("empty_non_terminal_n1.svc", "")).startswith("NX"):
        notes.append("empty non-terminals below the cluster domain (n1.svc.cluster.local., _tcp.b.n1.svc.cluster.local.) are NXDOMAIN, not NODATA")
    for n in notes:
        print("OBSERVATION property=XKUBE: " + n, flush=True)
    ctx.cov["replay"]["observation_notes"] = notes


def free_stage(ctx, behaviours, selfcheck, names, thorough, strict=True):
    pick = [b for b in behaviours if b["mode"] == "inline" and len(b["steps"]) >= 6]
    rng = random.Random(ctx.seed + 7)
    rng.shuffle(pick)
    pick = pick[:(10 if not thorough else 80)]
    res = ctx.go_driver("./xkube", "TestFree", driver_input(pick, selfcheck, 8 if not thorough else 0, names, strict), name="free",
                        timeout=900, race=thorough)
    fold(ctx, res, "[KubeRegistry free-running] ")
    c = res.get("counters", {})
    ctx.cov["replay"]["free_running"] = {"behaviours": c.get("behaviours", 0), "queries": c.get("queries", 0),
                                         "overlapping_a_callback": c.get("overlapped", 0), "gap_seen": c.get("gap", 0),
                                         "modelled_intermediate_seen": c.get("intermediate", 0), "old_or_new": c.get("old_or_new", 0),
                                         "race_detector": thorough, "drift": res["drift"]}
    if not res.get("violations") and c.get("queries", 0) == 0:
        raise vf.MachineryError("the free-running stage asked nothing: %s" % c)
    if c.get("gap", 0):
        print("OBSERVATION property=XKUBE: %d replies of the free-running stage were the transient 'no entry' of an update in progress "
              "(NXDOMAIN / fall-through for a name that exists before and after the callback: AddService and onPodUpdate clear "
              "the old answers before they publish the new ones; model: AB_gap refutes NoGap)" % c["gap"], flush=True)


def run(ctx, replay):
    if replay:
        return replay_file(ctx, replay)
    ctx.cov["rule"] = ("histories of informer callbacks (TLC: directed counter-examples of the as-built findings, simulation, edge cover of a "
                       "small graph) replayed on the real Client + Registry + handler; distinct = distinct histories and reply shapes")
    run_tier(ctx)


def replay_file(ctx, path):
    """bin/check XKUBE --replay <file>: run the recorded script through the model and the code again."""
    with open(path) as f:
        rec = json.load(f)
    rp = rec.get("replay", rec)
    if rp.get("driver") not in ("replay", "free") or not rp.get("script"):
        raise vf.MachineryError("replay file %s: nothing to replay (%r)" % (path, rp.get("driver")))
    ensure_overlay(ctx)
    names = universe()
    known = {n["id"] for n in names}
    script = [vf.parse_tla_value(s) for s in rp["script"]]
    r = ctx.tlc(MOD, SPEC, "MC_Hl.cfg", workers=2, timeout=400, heap="2g", deadlock=False)
    selfcheck = selfcheck_table(r.out)
    mode = rp.get("mode", "inline")
    behs = run_scripts(ctx, "replay", mode, [script], known)
    behaviours = [{"name": "replay", "mode": mode, "steps": behs[0]}]
    test = "TestFree" if rp.get("driver") == "free" else "TestReplay"
    res = ctx.go_driver("./xkube", test, driver_input(behaviours, selfcheck, 0, names), name="replay_file", timeout=600)
    fold(ctx, res, "[replay KubeRegistry] ")
    ctx.cov["rule"] = "replay of %s" % path
    ctx.sample({"replayed": path, "script": rp["script"]})
    ctx._distinct.update(["replay", path])
