"""X18Q -- the wait queue of b.saveMu in BlockList.persist (serves C18, second sentence).

tla/Blocklist/BlQueue.tla   BlPersist.tla with waiting on saveMu made explicit: Queue(p) (the writer has left the
             PersistEnter gate and sits in saveMu.Lock()), AcquireSkip / AcquireCreateTemp (Lock() returns to one of the
             waiters -- which one is open), SkipReturn; CheckOrder selects the as-built order (version check AFTER the
             lock is acquired) or the hoisted order (check before queueing, decision carried in the pc) as a mutant.
  - TLC exhaustive, 2 and 3 writers: the as-built order satisfies Converged, NewestWins, DiskIsASnapshot,
    CrashLeavesSnapshot and the queue invariants (QueueDiscipline, WriterIsNewer, SkipJustified, NewestPending), never
    goes backwards, and every call returns / every waiter is served under weak fairness.  The hoisted order must VIOLATE
    Converged, NewestWins, NewestPending, WriterIsNewer and NeverBackwards (negative configs = non-vacuity).
  - spec -> code: GSpec = the behaviours of the model a gated driver can force.  Every labelled edge of the 2-writer
    graph, simulated 3-writer behaviours, and the counter-examples TLC finds for the hoisted mutant are forced on real
    goroutines that really block inside saveMu.Lock() (harness/c18q); where the code picks among several waiters the
    driver follows the code.  Predicates are judged on the real directory and memory.
  - code -> spec: every step is recorded with the projected state (pc per writer incl. "queued", holder, version,
    lastPersisted, local, temp file, memory) and validated by Trace_BlQueue.tla; its property invariants on observed
    states are verdict bearing, steps outside the model are drift.
"""
import itertools
import json
import os
import random
import re
from concurrent.futures import ThreadPoolExecutor

import vf

PAR = 6
SHAPE = {"a": "example", "b": "notexample", "c": "com", "z": "deep.sub"}
PROPERTY_INVARIANTS = {"DiskIsASnapshot", "ConvergedFile", "NewestWins"}

ENTRIES = {
    "E1": {"k": "p", "n": ["a", "c"]},
    "E2": {"k": "p", "n": ["b", "a", "c"]},
    "E3": {"k": "w", "n": ["a", "c"]},
    "E4": {"k": "p", "n": ["b", "c"]},
    "ER": {"k": "p", "n": ["a", "c", "c"]},
}
WL = [["c", "c"]]


def O(op, *keys):
    return {"op": op, "keys": list(keys)}


# must mirror tla/Blocklist/MC_Queue.tla
MODELS = {
    "Q2": {"prog": {"1": [O("Set", "E1"), O("Remove", "E4")],
                    "2": [O("Set", "E4"), O("RemoveBatch", "E1", "E2")]}, "init": []},
    "Q3": {"prog": {"1": [O("Set", "E1")], "2": [O("SetBatch", "E3", "ER")], "3": [O("Remove", "E1")]}, "init": []},
    "Q3b": {"prog": {"1": [O("Remove", "E1"), O("Set", "E2")], "2": [O("RemoveBatch", "E4", "E3")],
                     "3": [O("Set", "E3")]}, "init": ["E1", "E4"]},
    "Q4": {"prog": {"1": [O("Set", "E1")], "2": [O("SetBatch", "E3", "ER")], "3": [O("Remove", "E1")],
                    "4": [O("Set", "E4"), O("Remove", "E3")]}, "init": []},
}

# hoisted-order configs and the property each must refute
NEGATIVE = [
    ("Neg_Queue_Q3_Converged.cfg", "Converged"),
    ("Neg_Queue_Q3_NewestWins.cfg", "NewestWins"),
    ("Neg_Queue_Q3b_Converged.cfg", "Converged"),
    ("Neg_Queue_Q2_NewestPending.cfg", "NewestPending"),
    ("Neg_Queue_Q3b_WriterIsNewer.cfg", "WriterIsNewer"),
    ("Neg_Queue_Q2_NeverBackwards.cfg", "NeverBackwards"),
]


def qnames(labels, depth):
    ns = [[]]
    for d in range(1, depth + 1):
        ns += [list(t) for t in itertools.product(labels, repeat=d)]
    return ns + [["z"] + n for n in ns]


def seq_list(v):
    if isinstance(v, list):
        return v
    return [v[k] for k in sorted(v, key=lambda x: int(x))]


STEP_NAME = {("tmp", "hdr"): "WriteHeader", ("hdr", "synced"): "Sync", ("synced", "closed"): "Close",
             ("closed", "renamed"): "Rename", ("snapped", "queued"): "Queue", ("snapped", "queuedPassed"): "Queue",
             ("snapped", "tmp"): "QueueAcquire", ("snapped", "skipping"): "QueueAcquire",
             ("queued", "tmp"): "Acquire", ("queued", "skipping"): "Acquire", ("queuedPassed", "tmp"): "Acquire",
             ("idle", "snapped"): "Mutate"}


def step_label(prev, cur):
    """Name the step between two BlQueue states: which writer moved, and how."""
    if cur.get("crashed", 0) != prev.get("crashed", 0):
        return "Crash"
    ppc, cpc = seq_list(prev["pc"]), seq_list(cur["pc"])
    popi, copi = seq_list(prev["opi"]), seq_list(cur["opi"])
    for i, (a, b) in enumerate(zip(ppc, cpc)):
        if a != b or popi[i] != copi[i]:
            name = STEP_NAME.get((a, b))
            if name is None:
                name = {"idle": "Noop", "renamed": "Unlock", "skipping": "SkipReturn", "snapped": "QueueAcquire"}.get(a)
            if name is None:
                raise vf.MachineryError("cannot name the step %s -> %s" % (a, b))
            return "%s(%d)" % (name, i + 1)
    if cur["tmp"] != prev["tmp"]:
        return "WriteLine(%d)" % cur["holder"]
    raise vf.MachineryError("cannot tell which writer stepped")


def parallel(jobs):
    with ThreadPoolExecutor(max_workers=PAR) as ex:
        futs = [ex.submit(j) for j in jobs]
        return [f.result() for f in futs]


def counterexample(r):
    """[(label, state), ...] of a TLC error trace."""
    parts = re.split(r"\nState (\d+): <(.*?)>\n", r.out)
    return [(parts[i + 1], vf.parse_tla_state(parts[i + 2].split("\n\n")[0])) for i in range(1, len(parts) - 2, 3)]


def schedule_of_states(states):
    return [step_label(states[i - 1], states[i]) for i in range(1, len(states))]


def ensure_overlay(ctx):
    """The driver uses the C18 accessors (VerifLists, VerifVersions, VerifSaveMuFree)."""
    ctx.overlay_tags.update({"c18", "x18q"})
    ov = os.path.join(ctx.scratch, "overlay.json")
    if os.path.exists(ov):
        with open(ov) as f:
            if "verif_c18_shim.go" not in f.read():
                os.remove(ov)


def model_jobs(ctx, thorough):
    """Everything TLC decides on the model alone: (jobs, post)."""
    asbuilt = ("Q3b", "Q3", "Q2")       # the largest first
    jobs = []
    for m in asbuilt:
        jobs.append(lambda m=m: ctx.tlc("Blocklist", "MC_Queue.tla", "MC_Queue_%s.cfg" % m, workers=4 if m == "Q3b" else 2,
                                        timeout=900, heap="4g"))
    negative = NEGATIVE if thorough else NEGATIVE[:2] + NEGATIVE[3:4] + NEGATIVE[5:]
    for cfg, _ in negative:
        jobs.append(lambda cfg=cfg: ctx.tlc("Blocklist", "MC_Queue.tla", cfg, workers=1, timeout=600, heap="2g",
                                            must_pass=False, count=False, tag="hoisted-must-fail"))

    def post(out):
        refuted = {}
        for (cfg, want), r in zip(negative, out[len(asbuilt):]):
            if r.violated != want:
                raise vf.MachineryError("%s: the hoisted order must refute %s on the model, TLC says %r (vacuous spec?)"
                                        % (cfg, want, r.violated))
            refuted[cfg] = want
        ctx.cov["replay"]["queue_model"] = {
            "as_built": {m: {"distinct": r.distinct, "generated": r.generated} for m, r in zip(asbuilt, out)},
            "hoisted_order_refutes": refuted}
    return jobs, post


def gated_cex(ctx, model):
    """The hoisted mutant restricted to forceable schedules: TLC's counter-example to Converged as a schedule."""
    r = ctx.tlc("Blocklist", "MC_Queue.tla", "NegGate_Queue_%s_Converged.cfg" % model, workers=1, timeout=600, heap="2g",
                must_pass=False, count=False, tag="hoisted-must-fail")
    if r.violated != "Converged":
        raise vf.MachineryError("NegGate_Queue_%s_Converged: expected Converged to fail, got %r" % (model, r.violated))
    cex = counterexample(r)
    if len(cex) < 5:
        raise vf.MachineryError("could not read the counter-example of NegGate_Queue_%s_Converged" % model)
    sched = schedule_of_states([s for _, s in cex])
    if not any(x.startswith("Queue(") for x in sched):
        raise vf.MachineryError("the hoisted counter-example has no writer queueing on the held lock: %s" % sched)
    return sched


def graph_schedules(ctx, model, max_len):
    r, nodes, edges, inits = ctx.tlc_graph("Blocklist", "MC_Queue.tla", "Gate_Queue_%s.cfg" % model,
                                           timeout=900, workers=2, heap="4g")
    # TLC's node ids are fingerprints (the polynomial is picked at random per run): rename the nodes by the rank of
    # their state so that the same seed gives the same covering schedules
    rank = {n: "n%04d" % i for i, n in enumerate(sorted(nodes, key=lambda n: json.dumps(nodes[n], sort_keys=True)))}
    nodes = {rank[n]: st for n, st in nodes.items()}
    inits = sorted(rank[n] for n in inits)
    uniq = sorted(set((rank[s], rank[d]) for (s, d, _) in edges))
    labelled = [(s, d, step_label(nodes[s], nodes[d])) for (s, d) in uniq]
    paths = vf.cover_paths(nodes, labelled, inits, max_len=max_len)
    covered = set()
    for p in paths:
        covered.update(p)
    if len(covered) != len(labelled):
        raise vf.MachineryError("edge cover incomplete: %d of %d" % (len(covered), len(labelled)))
    return [[e[2] for e in p] for p in paths], labelled, len(nodes)


def sim_schedules(ctx, model, num, depth):
    behs = ctx.tlc_behaviours("Blocklist", "MC_Queue.tla", "Sim_Queue_%s.cfg" % model, num=num, depth=depth, timeout=600)
    seen, out = set(), []
    for b in behs:
        sched = schedule_of_states([s for _, s in b])
        k = ";".join(sched)
        if sched and k not in seen:
            seen.add(k)
            out.append(sched)
    return out


def with_crashes(ctx, scheds, share):
    """Crash is terminal in the model and enabled in every state, so the schedules are generated without it; a
    (seeded) share of them is ended by a Crash at a random point -- any prefix of a behaviour followed by Crash is
    a behaviour of BlQueue with MaxCrash = 1 (checked exhaustively in MC_Queue_*.cfg)."""
    rng = random.Random(ctx.seed)
    out = []
    for s in scheds:
        if s and rng.random() < share:
            s = s[:rng.randrange(1, len(s) + 1)] + ["Crash"]
        out.append(s)
    return out


def interesting(sched):
    """Does a writer get released into a held lock?"""
    return any(x.startswith("Queue(") for x in sched)


def waits(sched):
    """Largest number of writers waiting at once along a schedule (from its labels)."""
    waiting, best = set(), 0
    for x in sched:
        m = re.match(r"(\w+)\((\d+)\)", x)
        if not m:
            continue
        if m.group(1) == "Queue":
            waiting.add(m.group(2))
        elif m.group(1) == "Acquire":
            waiting.discard(m.group(2))
        best = max(best, len(waiting))
    return best


def schedule_of_trace(lines):
    """The forced schedule behind the last run of a recorded trace prefix (re-executable)."""
    sched = []
    for ln in lines:
        e = json.loads(ln)
        if e["ev"] == "Reset":
            sched = []
        elif e["ev"] == "crash":
            sched.append("Crash")
        elif e.get("auto"):
            sched.append("Acquire(%d)" % e["p"])
        else:
            sched.append("Step(%d)" % e["p"])
    return sched


def driver_input(ctx, jobs, budget):
    return {"entries": ENTRIES, "wl": WL, "shape": SHAPE, "universe": qnames(["a", "b", "c"], 3), "budgetS": budget,
            "jobs": [{"model": m, "initMem": MODELS[m]["init"], "prog": MODELS[m]["prog"], "schedules": scheds,
                      "traceOut": os.path.join(ctx.scratch, "queue_%s.ndjson" % m)} for m, scheds in jobs]}


def validate_trace(ctx, model, nsched, had_violation):
    trace = os.path.join(ctx.scratch, "queue_%s.ndjson" % model)
    nlines = sum(1 for _ in open(trace))
    info = {"trace_lines": nlines}
    if nlines == 0:
        return info
    ok, r = ctx.tlc_trace("Blocklist", "Trace_BlQueue.tla", "Trace_BlQueue_%s.cfg" % model, trace, timeout=1500)
    info["trace_matched"] = max(0, r.depth - 1)
    m = re.search(r'"X18QDRIFT", (\d+)', r.out)
    if r.violated and r.violated in PROPERTY_INVARIANTS:
        lines = open(trace).read().splitlines()[: r.depth + 1]
        ctx.violation("queue/%s/trace/%s" % (model, r.violated),
                      "[BlQueue %s] invariant %s is false on a recorded execution of BlockList (trace line %d)"
                      % (model, r.violated, r.depth),
                      {"driver": "queue", "model": model, "schedule": schedule_of_trace(lines), "prog": MODELS[model]["prog"],
                       "initMem": MODELS[model]["init"], "shape": SHAPE, "trace_prefix": lines[-40:]})
    elif not ok:
        if had_violation:
            ctx.log("trace %s rejected after %d of %d lines (driver already reported a violation)" % (model, r.depth - 1, nlines))
        else:
            ctx.cov["drift"] += 1
            ctx.log("DRIFT: recorded execution (%s) not explained by BlQueue.tla after %d of %d lines (%s); "
                    "no property predicate failed" % (model, r.depth - 1, nlines, r.violated))
            info["trace_rejected_tail"] = r.out.splitlines()[-15:]
    else:
        if m is None:
            raise vf.MachineryError("trace spec did not report its drift counter")
        info["trace_steps_outside_model"] = int(m.group(1))
        if int(m.group(1)):
            ctx.cov["drift"] += int(m.group(1))
            ctx.log("DRIFT: %s recorded steps (%s) are not steps of BlQueue.tla (no predicate failed)" % (m.group(1), model))
        ctx.cov["traces_validated_against_impl"] += nsched
    return info


def run_tier(ctx):
    thorough = ctx.tier == "thorough"
    gate = os.path.join(vf.REPO, "middleware", "blocklist", "verif_gate_on.go")
    if not os.path.exists(gate):
        raise vf.MachineryError("the persist gate hook is not in %s" % vf.REPO)
    ensure_overlay(ctx)
    ctx.assumptions += [
        "X18Q: a writer is 'waiting on saveMu' when the runtime's goroutine dump shows it blocked in sync.Mutex.Lock called "
        "from (*BlockList).persist; which waiter gets the lock next is the code's choice and is followed, not forced",
        "X18Q: schedules are the behaviours a gated driver can force (GSpec): no step can be placed between the holder's "
        "Unlock and the next waiter's Acquire, nor between a Lock() on a free mutex and the gate after it; the full "
        "interleaving (late arrivals barging past waiters included) is exhausted by TLC on QSpec only",
        "X18Q: I/O errors inside persist are outside the model",
    ]
    ctx.spec_dir("Blocklist")
    # ---- TLC: the model alone, the forceable graphs / walks, the mutant's counter-examples
    nsim = 60 if not thorough else 700
    mjobs, mpost = model_jobs(ctx, thorough)
    jobs = mjobs + [lambda: graph_schedules(ctx, "Q2", 90),
                    lambda: sim_schedules(ctx, "Q3", nsim, 60),
                    lambda: sim_schedules(ctx, "Q3b", nsim, 80)]
    jobs += [lambda m=m: gated_cex(ctx, m) for m in ("Q2", "Q3", "Q3b")]
    if thorough:
        jobs.append(lambda: graph_schedules(ctx, "Q3", 90))
        jobs.append(lambda: graph_schedules(ctx, "Q3b", 120))
        jobs.append(lambda: sim_schedules(ctx, "Q4", 500, 90))
    out = parallel(jobs)
    mpost(out[:len(mjobs)])
    out = out[len(mjobs):]
    (g2, g2edges, g2nodes), s3, s3b, cex = out[0], out[1], out[2], out[3:6]
    if thorough:
        ctx.tlc("Blocklist", "MC_Queue.tla", "MC_Queue_Q4.cfg", workers=8, timeout=2400, heap="12g")
    # the mutant's counter-examples first, then schedules with waiting writers, most waiters first
    s3.sort(key=lambda s: -waits(s))
    s3b.sort(key=lambda s: -waits(s))
    g3, g3b, s4 = [], [], []
    if thorough:
        (g3, g3edges, _), (g3b, g3bedges, _), s4 = out[6], out[7], out[8]
        for m, es in (("Q3", g3edges), ("Q3b", g3bedges)):
            for e in es:
                ctx._distinct.add("queue-edge:%s:%s:%s:%s" % ((m,) + e))
        s4.sort(key=lambda s: -waits(s))
    g2.sort(key=lambda s: -waits(s))
    plan = [("Q2", [cex[0]] + with_crashes(ctx, g2, 0.3)), ("Q3", [cex[1]] + with_crashes(ctx, s3 + g3, 0.3)),
            ("Q3b", [cex[2]] + with_crashes(ctx, s3b + g3b, 0.3))]
    if thorough:
        plan.append(("Q4", with_crashes(ctx, s4, 0.2)))
    for e in g2edges:
        ctx._distinct.add("queue-edge:Q2:%s:%s:%s" % e)
    for m, scheds in plan:
        for s in scheds:
            ctx._distinct.add("queue-sched:%s:%s" % (m, ";".join(s)))
    ctx.log("BlQueue schedules: Q2 graph %d states / %d edges -> %d covering schedules; Q3 %d, Q3b %d, Q4 %d (simulated%s); "
            "3 counter-examples of the hoisted order" % (g2nodes, len(g2edges), len(g2), len(s3) + len(g3), len(s3b) + len(g3b),
                                                       len(s4), " + every edge of the graphs" if thorough else ""))
    # ---- the real BlockList
    res = ctx.go_driver("./c18q", "TestQueueSchedules", driver_input(ctx, plan, 0 if thorough else 15), name="queue", timeout=2400)
    ctx.take_driver_result(res, "[BlQueue] ")
    if res.get("skipped"):
        raise vf.MachineryError("queue schedule replay stalled: %s" % res["skipped"][:3])
    c = res.get("counters", {})
    info = {"schedules": {m: c.get("schedules_" + m, 0) for m, _ in plan}, "steps": c.get("steps", 0),
            "steps_not_enabled": c.get("steps_not_enabled", 0), "events": c.get("events", 0),
            "released_into_held_lock": c.get("released_into_held_lock", 0),
            "released_into_free_lock": c.get("released_into_free_lock", 0),
            "handoffs_to_a_waiter": c.get("handoffs", 0),
            "handoff_to_another_waiter_than_TLC": c.get("handoff_to_another_waiter", 0),
            "handoffs_with_2plus_waiting": {"to_longest_waiting": c.get("handoff_to_longest_waiting", 0),
                                            "to_another": c.get("handoff_not_to_longest_waiting", 0)},
            "schedules_by_max_waiting": {k[len("schedules_with_"):-len("_waiting")]: v for k, v in c.items()
                                         if k.startswith("schedules_with_")},
            "crash_points": c.get("crashes", 0), "tainted_retries": c.get("tainted_retries", 0),
            "reload_dropped_subsumed": c.get("reload_dropped_subsumed", 0),
            "q2_edges_in_schedules": len(g2edges), "schedules_cut_by_budget": c.get("schedules_cut_by_budget", 0),
            "drift": res["drift"], "drift_notes": res.get("drift_notes", [])}
    ctx.cov["replay"]["queue"] = info
    if not res.get("violations"):
        two = sum(v for k, v in info["schedules_by_max_waiting"].items() if int(k) >= 2)
        if c.get("steps", 0) == 0 or info["released_into_held_lock"] == 0 or info["handoffs_to_a_waiter"] == 0 or two == 0:
            raise vf.MachineryError("queue replay was vacuous (no writer waited on saveMu / no hand-over / never two waiting): %s" % c)
    # ---- code -> spec
    had = bool(res.get("violations"))
    infos = parallel([lambda m=m, n=len(s): validate_trace(ctx, m, n, had) for m, s in plan])
    for (m, _), i in zip(plan, infos):
        info["trace_" + m] = i


def run(ctx, replay):
    if replay:
        return replay_file(ctx, replay)
    ctx.cov["rule"] = ("every labelled edge of the forceable 2-writer BlQueue graph, simulated 3-writer behaviours and the "
                       "model mutant's counter-examples, forced on goroutines that block inside saveMu.Lock(); distinct = "
                       "distinct edges / schedules")
    run_tier(ctx)


def replay_file(ctx, path):
    """bin/check X18Q --replay <file>: re-run exactly the recorded schedule."""
    with open(path) as f:
        rec = json.load(f)
    rp = rec.get("replay", rec)
    if rp.get("driver") != "queue":
        raise vf.MachineryError("replay file %s: unknown driver %r" % (path, rp.get("driver")))
    ensure_overlay(ctx)
    model = rp.get("model") if rp.get("model") in MODELS else "Q3"
    ctx.tlc("Blocklist", "MC_Queue.tla", "MC_Queue_%s.cfg" % model, workers=2, timeout=900, heap="4g")
    inp = driver_input(ctx, [(model, [rp["schedule"]])], 0)
    inp["jobs"][0]["prog"] = rp.get("prog") or inp["jobs"][0]["prog"]
    inp["jobs"][0]["initMem"] = rp.get("initMem") or []
    inp["shape"] = rp.get("shape") or SHAPE
    res = ctx.go_driver("./c18q", "TestQueueSchedules", inp, name="replay_queue", timeout=600)
    ctx.take_driver_result(res, "[replay BlQueue %s] " % model)
    if res.get("skipped"):
        raise vf.MachineryError("replay stalled: %s" % res["skipped"][:3])
    ctx.cov["rule"] = "replay of %s" % path
    ctx.sample({"replayed": path, "driver": "queue"})
    ctx._distinct.update(["replay", path])
