"""C08P -- development entry point for the C08 pipeline tier (bin/check C08P).

The lead merges c08_pipe.run_pipe(ctx) into checks/c08.py next to the Lease API tier.
"""
import c08_pipe


def run(ctx, replay):
    ctx.cov["rule"] = "C08 pipeline tier only (development stub)"
    if replay and c08_pipe.replay_pipe(ctx, replay):
        return
    c08_pipe.run_pipe(ctx)
