"""XVIEWS -- the per-client static responder `views` in front of the cache, as a state machine (system coverage beyond the
listed properties).

Not tied to one of C01..C20.  The statement is the middleware's own documentation: the package comment and the ServeDNS /
ClientOnly doc comments of middleware/views/views.go ("A query whose source IP falls inside one of a view's CIDRs gets that
view's records as the response; queries that don't match any view (by source IP or by name) fall through the chain",
"dispatches a query to the first view whose source CIDR contains the client IP ... otherwise the request falls through",
"Internal sub-queries skip views entirely"), the [[views]] section of the generated sdns.conf and config.ViewConfig
("Exact owners override a covering wildcard.  Views are evaluated in declaration order.", "match any name strictly more
specific than the suffix"), the closest-encloser comment, internal/ipset.Contains (v4-mapped = the IPv4 address it carries)
and the chain order of doc.go / gen.go (views ahead of the cache: a view answer stops the chain).
Listed statements that also apply to this code (NOT wired into their checks): C17 (internal sub-queries are never subjected
to client ACL / view policy) and C06 (reply contracts: id / question echo).

tla/Views/Views.tla   Query(client, name, type, internal) over the configuration in force and the cache behind the views;
    the responders of the chain in their order: accesslist -> chaos -> views -> as112 (empty zones) -> cache -> downstream.
  - TLC exhaustive: MC_Views (5 configurations: lan-then-vpn, vpn-then-lan, vpn-then-everyone (0.0.0.0/0 + ::/0), lan-then-vpn
    behind an access list, no views; chaos on / off; 8 clients in / out of nested networks, v4-mapped, IPv6; 14 names around two
    wildcards, an empty zone and three class-CH names; 4 types; cache of <= 1 entry, MC_Views2 (thorough) <= 2), 20 invariants
    quantified over every query in every reachable state; 24 negative twins (model mutants that must each violate their
    named invariant).
  - spec -> code (harness/xviews TestXViews): TLC-simulated behaviours forced on the REAL default chain ahead of `failover`
    (accesslist ... chaos ... views ... as112 ... cache) with a scripted downstream; every step enters decoded (ServeMsg),
    wire-born (ServeRaw) or through the internal middleware.Queryer; every real outcome is judged by the documentation's
    predicates (reference reading with net.IPNet) and compared with the model's outcome (drift); local answers (view, empty
    zone) are asked again on the other entry and must be the same.
  - probes: behaviour the documentation does not cover, printed as OBSERVATION lines (never judged).

Verdict classes (digest keys) `views/<class>`: outside, internal, foreign-view, first-match, missed, answer, answer-unlisted,
record, short-circuit, fall-through, parity; `acl/<class>`: denied-answered, internal-dropped; `as112/<class>`: leak, answer,
parity; `chaos/<class>`: disabled-answered, silent; chain/no-reply.
"""
import json
import os
from concurrent.futures import ThreadPoolExecutor

import vf

MOD = "Views"
SPEC = "MC_Views.tla"

INVARIANTS = ["TypeInv", "ViewOnlyOwn", "OutsideNeverSeesView", "InternalBypass", "FirstMatch", "FirstViewOnly", "FallThrough",
              "ViewAnswers", "ExactOverWild", "ClosestWild", "WildStrict", "TypeMatch", "MappedAsV4", "CacheClean", "DeniedGetsNothing", "AllowedServed", "InternalNoAcl", "EmptyLocal", "ChaosSwitch", "ChaosResponds"]
NEGATIVE = [
    ("Neg_LastMatch.cfg", "FirstMatch"), ("Neg_Continue.cfg", "FirstViewOnly"), ("Neg_Stop.cfg", "FallThrough"),
    ("Neg_WildFirst.cfg", "ExactOverWild"), ("Neg_FarWild.cfg", "ClosestWild"), ("Neg_Apex.cfg", "WildStrict"),
    ("Neg_AnyType.cfg", "TypeMatch"), ("Neg_Leak.cfg", "OutsideNeverSeesView"), ("Neg_LeakOwn.cfg", "ViewOnlyOwn"),
    ("Neg_Internal.cfg", "InternalBypass"), ("Neg_NoMapped.cfg", "MappedAsV4"), ("Neg_NoMappedAns.cfg", "ViewAnswers"),
    ("Neg_CacheView.cfg", "CacheClean"), ("Neg_CacheViewOut.cfg", "OutsideNeverSeesView"),
    ("Neg_AclOpen.cfg", "DeniedGetsNothing"), ("Neg_AclAfter.cfg", "DeniedGetsNothing"), ("Neg_AclInt.cfg", "InternalNoAcl"),
    ("Neg_NoMappedAcl.cfg", "AllowedServed"), ("Neg_EmptyOff.cfg", "EmptyLocal"), ("Neg_EmptyApex.cfg", "EmptyLocal"),
    ("Neg_EmptyFirst.cfg", "ViewAnswers"), ("Neg_ChaosOn.cfg", "ChaosSwitch"), ("Neg_ChaosDead.cfg", "ChaosResponds"),
    ("Neg_ChaosAcl.cfg", "DeniedGetsNothing"),
]

# abstract values of MC_Views.tla -> real spellings
LAN_RECS = [("a.example.lan.", "A", "l_a"), ("*.example.lan.", "A", "l_w1"), ("*.example.lan.", "A", "l_w2"),
            ("*.example.lan.", "AAAA", "l_w6"), ("*.sub.example.lan.", "A", "l_s"), ("1.1.168.192.in-addr.arpa.", "PTR", "l_p")]
VPN_RECS = [("*.example.lan.", "A", "v_w"), ("b.example.lan.", "A", "v_b"), ("b.example.lan.", "TXT", "v_t"),
            ("other.org.", "A", "v_o")]
LAN = {"zone": "lannet", "nets": ["n24"], "recs": [{"o": o, "t": t, "d": d} for o, t, d in LAN_RECS]}
VPN = {"zone": "vpnnet", "nets": ["n25", "nvpn", "n6"], "recs": [{"o": o, "t": t, "d": d} for o, t, d in VPN_RECS]}
ALL = {"zone": "everyone", "nets": ["nall4", "nall6"], "recs": [{"o": "*.example.lan.", "t": "A", "d": "all_w"},
                                                              {"o": "other.org.", "t": "AAAA", "d": "all_o6"}]}
UNIVERSE = {
    "clients": {"lan": {"ip": "192.168.1.10", "form": "v4"}, "lanm": {"ip": "192.168.1.10", "form": "mapped"},
                "nest": {"ip": "192.168.1.130", "form": "v4"}, "vpn": {"ip": "100.64.0.5", "form": "v4"},
                "v6": {"ip": "fd00::5", "form": "v6"}, "near": {"ip": "192.168.0.255", "form": "v4"},
                "out": {"ip": "203.0.113.9", "form": "v4"}, "out6": {"ip": "2001:db8::9", "form": "v6"}},
    "nets": {"n24": "192.168.1.0/24", "n25": "192.168.1.128/25", "nvpn": "100.64.0.0/24", "n6": "fd00::/64",
             "nall4": "0.0.0.0/0", "nall6": "::/0"},
    "data": {"l_a": "192.168.1.1", "l_w1": "192.168.1.3", "l_w2": "192.168.1.4", "l_w6": "fd00::3", "l_s": "192.168.1.7",
             "v_w": "100.64.0.2", "v_b": "100.64.0.6", "v_t": "\"seven\"", "v_o": "100.64.0.9", "l_p": "gw.example.lan.", "all_w": "10.9.9.9", "all_o6": "fd00::99"},
    "down": {"A": "198.18.0.1", "AAAA": "2001:db8:ffff::1", "TXT": "\"down\"", "PTR": "down.invalid."},
    "configs": {"AB": [LAN, VPN], "BA": [VPN, LAN], "VA": [VPN, ALL], "ACL": [LAN, VPN], "E": []},
    "acl": {"ACL": ["n24", "nvpn"]},
    "empty": ["168.192.in-addr.arpa."],
    "chaosNames": ["version.bind.", "id.server.", "foo.bind."], "chaosKnown": ["version.bind.", "id.server."],
    "chaosOn": {"AB": True, "VA": True, "ACL": True, "BA": False, "E": False},
    "ttl": 60,
    "names": ["a.example.lan.", "b.example.lan.", "x.sub.example.lan.", "sub.example.lan.", "example.lan.", "bexample.lan.", "other.org.",
              "168.192.in-addr.arpa.", "1.1.168.192.in-addr.arpa.", "2.1.168.192.in-addr.arpa.", "8.8.8.8.in-addr.arpa.",
              "version.bind.", "id.server.", "foo.bind."],
    "types": ["A", "AAAA", "TXT", "PTR"],
}


def parallel(jobs, par=8):
    with ThreadPoolExecutor(max_workers=par) as ex:
        futs = [ex.submit(j) for j in jobs]
        return [f.result() for f in futs]


def model_jobs(ctx, thorough):
    pos = [("MC_Views.cfg", 4)] + ([("MC_Views2.cfg", 8)] if thorough else [])
    jobs = [lambda c=c, w=w: ctx.tlc(MOD, SPEC, c, workers=w, timeout=900, heap="3g") for c, w in pos]
    jobs += [lambda c=c: ctx.tlc(MOD, SPEC, c, workers=1, timeout=300, heap="2g", must_pass=False, count=False, tag="mutant-must-fail")
             for c, _ in NEGATIVE]

    def post(out):
        info = {"exhaustive": {c: {"distinct": r.distinct, "generated": r.generated, "wall_s": round(r.wall, 1)}
                               for (c, _), r in zip(pos, out)}, "invariants": INVARIANTS, "mutants_refute": {}}
        for (c, want), r in zip(NEGATIVE, out[len(pos):]):
            if r.violated != want:
                raise vf.MachineryError("%s: the model mutant must violate %s, TLC says %r (vacuous invariant?)\n%s"
                                        % (c, want, r.violated, "\n".join(r.out.splitlines()[-15:])))
            info["mutants_refute"][c] = want
        ctx.cov["replay"]["model"] = info
    return jobs, post


def histories(ctx, num, depth):
    behs = ctx.tlc_behaviours(MOD, SPEC, "Sim_Views.cfg", num, depth, timeout=300)
    hs = []
    for k, beh in enumerate(behs):
        if len(beh) < 2:
            continue
        steps = []
        for _, st in beh[1:]:
            la = vf.unset(st["last"])
            name = la["n"]
            if isinstance(name, dict):  # <<>> never occurs after a step, a sequence may print as a function
                name = [name[i] for i in sorted(name, key=int)]
            steps.append({"c": la["c"], "n": ".".join(name) + ".", "t": la["t"], "int": bool(la["int"]), "kind": la["kind"],
                          "view": int(la["view"]), "rrs": sorted(la["rrs"]) if la["rrs"] else []})
        hs.append({"id": "s%03d" % k, "cfg": vf.unset(beh[0][1]["cfg"]), "steps": steps})
    if not hs:
        raise vf.MachineryError("TLC simulate Sim_Views produced no behaviour")
    return hs


def fold(ctx, res, prefix):
    ctx.take_driver_result(res, prefix)
    if res.get("skipped"):
        raise vf.MachineryError("driver gave up: %s" % res["skipped"][:3])
    return res.get("counters", {})


def run_tier(ctx):
    thorough = ctx.tier == "thorough"
    ctx.assumptions += [
        "XVIEWS: the statement is the views middleware's documentation (package / ServeDNS / ClientOnly comments, the [[views]] "
        "section of sdns.conf, config.ViewConfig, ipset.Contains, the chain order); AA / RA of a view reply, class and "
        "meta-type handling are counted, not judged",
        "XVIEWS: clients, networks, names and records come from the small universe of MC_Views.tla; letter case, transport, "
        "message id and entry (decoded / wire-born) are drawn by the driver",
    ]
    ctx.spec_dir(MOD)
    num, depth = (130, 60) if not thorough else (600, 120)
    mjobs, mpost = model_jobs(ctx, thorough)
    warm = [lambda: ctx.go_test("./xviews", "^TestXViewsNothing$", timeout=900)]
    out = parallel(mjobs + [lambda: histories(ctx, num, depth)] + warm)
    mpost(out[:len(mjobs)])
    hs, (wrc, wout) = out[len(mjobs):]
    if wrc != 0:
        raise vf.MachineryError("the harness does not build:\n" + "\n".join(wout.splitlines()[-40:]))
    combos = set((h["cfg"], s["c"], s["n"], s["t"], s["int"]) for h in hs for s in h["steps"])
    total = len(UNIVERSE["configs"]) * len(UNIVERSE["clients"]) * len(UNIVERSE["names"]) * len(UNIVERSE["types"]) * 2
    ctx.log("histories: %d simulated walks, %d steps, %d of %d (config, client, name, type, internal) combinations"
            % (len(hs), sum(len(h["steps"]) for h in hs), len(combos), total))
    obs_path = os.path.join(ctx.scratch, "observations.tsv")
    res = ctx.go_driver("./xviews", "TestXViews", {"universe": UNIVERSE, "histories": hs, "stages": ["replay", "probes"]},
                        name="xviews", timeout=900, env={"XVIEWS_OBS_OUT": obs_path})
    c = fold(ctx, res, "[Views] ")
    obs = {}
    if os.path.exists(obs_path):
        for ln in open(obs_path).read().splitlines():
            if "\t" in ln:
                k, w = ln.split("\t", 1)
                obs[k] = w
    for k in sorted(obs):
        print("OBSERVATION property=%s views/%s: %s" % (ctx.pid, k, obs[k]), flush=True)
    ctx.cov["replay"]["observations"] = obs
    info = {k: c.get(k, 0) for k in (
        "histories", "steps", "entry_decoded", "entry_wire", "entry_wire-fallback", "entry_internal", "case_variants", "outcome_view",
        "outcome_pass", "outcome_cached", "outcome_empty", "outcome_chaos", "outcome_chpass", "outcome_nodata", "outcome_other", "outcome_lost", "outcome_equals_model",
        "outcome_differs_from_model", "parity_asked", "denied_judged", "view_reply_aa_ra", "view_reply_other_flags", "probes")}
    info["drift"] = res["drift"]
    info["drift_notes"] = res.get("drift_notes", [])
    info["combinations"] = "%d of %d" % (len(combos), total)
    ctx.cov["replay"]["replay"] = info
    ctx.cov["traces_validated_against_impl"] += info["histories"]
    if not res.get("violations"):
        vac = []
        if len(combos) < 0.6 * total:
            vac.append("the walks reach %d of %d query combinations" % (len(combos), total))
        if info["steps"] < 1000 or info["entry_wire"] < 100 or info["entry_decoded"] < 100 or info["entry_internal"] < 100:
            vac.append("entries (%s)" % info)
        if min(info["outcome_view"], info["outcome_pass"], info["outcome_cached"], info["outcome_empty"], info["outcome_chaos"], info["outcome_chpass"], info["denied_judged"]) < 50:
            vac.append("outcomes (%s)" % info)
        if info["outcome_equals_model"] < 0.5 * info["steps"]:
            vac.append("the code rarely agrees with the model (%s)" % info)
        if vac:
            raise vf.MachineryError("XVIEWS was vacuous: " + "; ".join(vac))
    ctx.log("replay: %(histories)d histories, %(steps)d steps (decoded %(entry_decoded)d, wire-born %(entry_wire)d, internal "
            "%(entry_internal)d); outcomes view %(outcome_view)d / pass %(outcome_pass)d / cached %(outcome_cached)d / empty zone %(outcome_empty)d / chaos %(outcome_chaos)d / class CH passed on %(outcome_chpass)d / no reply %(outcome_lost)d; model = code on "
            "%(outcome_equals_model)d, differs on %(outcome_differs_from_model)d; second-entry parity on %(parity_asked)d local answers" % info)


def run(ctx, replay):
    if replay:
        return replay_file(ctx, replay)
    ctx.cov["rule"] = ("TLC-simulated behaviours of Views.tla forced on the real default chain ahead of failover (views in front of "
                       "the cache, scripted downstream), every step judged by the documentation's predicates; distinct = "
                       "(config, client, name, type, internal, outcome, data) tuples")
    run_tier(ctx)


def replay_file(ctx, path):
    """bin/check XVIEWS --replay <file>: re-run exactly the recorded history."""
    with open(path) as f:
        rec = json.load(f)
    rp = rec.get("replay", rec)
    if rp.get("driver") != "replay" or "history" not in rp:
        raise vf.MachineryError("replay file %s: unknown driver %r" % (path, rp.get("driver")))
    ctx.tlc(MOD, SPEC, "MC_Views.cfg", workers=2, timeout=600, heap="3g")
    res = ctx.go_driver("./xviews", "TestXViews", {"universe": UNIVERSE, "histories": [rp["history"]], "stages": ["replay"]},
                        name="replay_xviews", timeout=600)
    fold(ctx, res, "[replay Views] ")
    ctx.cov["rule"] = "replay of %s" % path
    ctx.sample({"replayed": path, "driver": "replay"})
    ctx._distinct.update(["replay", path])
