"""C02 -- denial of existence is accepted or synthesised only when actually proven.

Denial.tla part 1: a zone model (owner names over {a,b,*}, types, delegations, DNAME,
    empty non-terminals, Opt-Out) with its Truth, its NSEC chain (canonical order operator)
    and NSEC3 ring (abstract hash; one configuration with a forced collision); the RFC
    4035/5155/6840/8198 acceptance rules over SUBSETS of the genuine records, optionally
    polluted with a sibling / child / second-chain record.  TLC checks Sound, AggressiveSound,
    AggressiveNeverOptOut, OptOutNeverSecure, MixedRefused on every zone x family x subset x
    question and PRINTS every (zone, subset) with the model's verdicts.
  -> harness/c02 TestDenialCases: every printed case is built into real dns.NSEC/dns.NSEC3
    records (authkit chain generation, real SHA-1) and passed to the real verifiers and
    RFC 8198 classifiers for every question of the bound.  Predicate: an accepted denial
    equals the zone's Truth (only source of violations).
Denial.tla part 2: admission / expiry ORDER into the denial-proof index and the subtree-cut
    cache, invariant SynthesisedIsTrue (exhaustive on small zones, -simulate beyond).
  -> harness/c02 TestCacheBehaviours: simulated behaviours replayed on the real
    Store.RecordDenialProof / RecordNXDomainCut / GetWithContext and on Cache.ServeDNS with
    a scripted downstream, virtual clock, same predicate.
HashMemo.tla (checks/x02hm.py): the request-tree NSEC3 hash memo under concurrent validations -- TLC-generated schedules
    forced on the real verifiers over one shared memo set; predicate: a denial accepted while sharing the memo is true.
DenialProof.tla, Race = TRUE (checks/x04dp.py run_race_tier; gap C02-r3-1): the ORDER of admission vs lookup that part 2 cannot
    show because its Synthesise is one atomic call -- the aggressive lookup as snapshot capture / lock-free evaluation /
    quarantine re-check + shaping, other clients' admissions and zone changes in between, the NSEC3 conflict quarantine;
    the lookup is held on the real pipeline (index clock seam, production BeginNSEC3Hash) against live signed zones;
    predicate: a released lookup never denies a name/type that exists from a ring the index had tombstoned before.
    Runs next to parts 1-3 (own thread: TLC + one go driver), class c02/ only.
"""
import concurrent.futures
import hashlib
import json
import random

import vf
import x02hm
import x04dp

MODULE = "Denial"
SPEC = "MC_Denial.tla"
VNAME = {"nx": "nxdomain", "nd": "nodata", "wn": "wildcard-nodata", "id": "insecure-delegation", "ou": "optout-unsigned"}


def parse_emitted(r):
    zones, cases = {}, []
    for v in r.printed():
        if not isinstance(v, dict):
            continue
        if v.get("k") == "zone":
            zones[(v["z"], v["f"])] = v
        elif v.get("k") == "case":
            acc = []
            for a in v.get("acc", []):
                acc.append({"i": a["i"], "v": ["%s%d" % (x[0], x[1]) for x in a["r"]["v"]], "a": list(a["r"]["a"])})
            cases.append({"z": v["z"], "f": v["f"], "g": v["g"], "gp": v["gp"], "p": v["p"], "acc": acc})
    return zones, cases


def sound(ctx, cfg, workers, timeout, heap="8g"):
    r = ctx.tlc(MODULE, SPEC, cfg, workers=workers, timeout=timeout, heap=heap, tag="sound")
    zones, cases = parse_emitted(r)
    return r, zones, cases


def replay_cases(ctx, zones, cases, concs, tag, timeout=1500):
    nq = max(len(z["qs"]) for z in zones.values())
    inp = {"zones": list(zones.values()), "cases": cases, "concs": concs}
    res = ctx.go_driver("./c02", "TestDenialCases", inp, name="cases_" + tag, timeout=timeout)
    ctx.take_driver_result(res, "[Denial cases %s] " % tag)
    c = res.get("counters", {})
    info = {"subsets": len(cases), "questions_per_subset": nq, "concretisations": concs,
            "evaluations": c.get("evaluations", 0), "accepted": c.get("accepted", 0),
            "true_accepts": c.get("true_accepts", 0), "drift": res["drift"],
            "drift_notes": res.get("drift_notes", []), "skipped": res.get("skipped", []),
            "counters": {k: v for k, v in sorted(c.items()) if ":" in k and not k.split(":")[0] in concs}}
    ctx.cov["replay"]["denial_cases_" + tag] = info
    if res.get("skipped"):
        raise vf.MachineryError("denial-case replay skipped cases: %s" % res["skipped"][:3])
    # vacuity guard: genuine complete proofs must (mostly) be accepted, and the
    # enumeration must contain plenty of true accepted denials
    for fam in ("nsec", "nsec3"):
        tot, ok = c.get("vacuity_total:" + fam, 0), c.get("vacuity_accepted:" + fam, 0)
        if tot < 20 or ok < 0.6 * tot:
            raise vf.MachineryError("vacuous: only %d of %d genuine complete %s proofs were accepted by the real verifiers"
                                    % (ok, tot, fam))
        if c.get("vacuity_shared:" + fam, 0) < 0.25 * tot:
            raise vf.MachineryError("vacuous: only %d of %d complete %s proofs were classified shareable (RFC 8198)"
                                    % (c.get("vacuity_shared:" + fam, 0), tot, fam))
    if info["true_accepts"] < 200:
        raise vf.MachineryError("vacuous: only %d true denials were accepted over %d evaluations"
                                % (info["true_accepts"], info["evaluations"]))
    ctx.log("denial cases %s: %d subsets x %d questions x %d concretisations = %d evaluations, %d accepted (%d true), "
            "stricter-than-model %s" % (tag, len(cases), nq, len(concs), info["evaluations"], info["accepted"],
                                        info["true_accepts"],
                                        {k.split(":")[1]: v for k, v in c.items() if k.startswith("code_stricter:")}))
    return res


def behaviours_to_input(behs):
    out = []
    for b in behs:
        if not b:
            continue
        st0 = b[0][1]
        steps = []
        for _, st in b[1:]:
            last = st.get("last", {})
            op = last.get("op")
            if op == "admit":
                steps.append({"op": "admit", "g": [r["owner"] for r in last["g"]],
                              "q": {"n": last["q"]["name"], "t": last["q"]["type"]}, "v": last["v"], "ttl": last["ttl"]})
            elif op == "forge":
                steps.append({"op": "forge", "g": [r["owner"] for r in last["g"]],
                              "q": {"n": last["q"]["name"], "t": last["q"]["type"]}, "rc": last["rc"]})
            elif op == "expire":
                steps.append({"op": "expire"})
            elif op == "synth":
                steps.append({"op": "synth", "q": {"n": last["q"]["name"], "t": last["q"]["type"]},
                              "model": list(st.get("synth", []))})
        if any(s["op"] in ("admit", "forge") for s in steps):
            out.append({"z": st0["zid"], "f": st0["fam"], "steps": steps})
    return out


def replay_cache(ctx, zones, behaviours, concs, tag, timeout=1500):
    inp = {"zones": list(zones.values()), "behaviours": behaviours, "concs": concs}
    res = ctx.go_driver("./c02", "TestCacheBehaviours", inp, name="cache_" + tag, timeout=timeout)
    ctx.take_driver_result(res, "[Denial caches %s] " % tag)
    c = res.get("counters", {})
    ctx.cov["replay"]["denial_caches_" + tag] = {
        "behaviours": len(behaviours), "concretisations": concs, "counters": dict(sorted(c.items())),
        "drift": res["drift"], "drift_notes": res.get("drift_notes", []), "skipped": res.get("skipped", [])}
    if res.get("skipped"):
        raise vf.MachineryError("cache replay skipped steps: %s" % res["skipped"][:3])
    if c.get("admitted", 0) < max(20, len(behaviours) // 4) or c.get("synthesised", 0) < 20 or c.get("steps_expire", 0) < 10:
        raise vf.MachineryError("vacuous cache replay: admitted=%d synthesised=%d expiries=%d over %d behaviours"
                                % (c.get("admitted", 0), c.get("synthesised", 0), c.get("steps_expire", 0), len(behaviours)))
    ctx.log("denial caches %s: %d behaviours, admitted=%d synthesised=%d (agree with model %d) expiries=%d" % (
        tag, len(behaviours), c.get("admitted", 0), c.get("synthesised", 0), c.get("synth_agree", 0), c.get("steps_expire", 0)))
    return res


def zone_table(ctx, cfg):
    """zones only (no case export needed): run the emitting config and keep the zone lines"""
    r, zones, _ = sound(ctx, cfg, 4, 900)
    return zones


def run(ctx, replay):
    thorough = ctx.tier == "thorough"
    ctx.cov["rule"] = ("cases = every (zone, family, subset of genuine NSEC/NSEC3 records [+ one foreign record]) state TLC "
                       "enumerates, each asked every question of the bound on the real verifiers/classifiers under "
                       "several label concretisations; behaviours = simulated Admit/Expire/Synthesise orders replayed on "
                       "the real proof index and cut cache; distinct = distinct (case, question) with an accepted denial "
                       "+ distinct behaviours")
    ctx.assumptions += [
        "RRSIG cryptography is not re-verified (C01/C14): records reach the verifiers the way resolver.authority() passes "
        "them (type-extracted, FilterRRsToZone'd to the signer); a child zone's NSECs named inside the parent are excluded "
        "in the pipeline by the RRSIG signer binding, so acceptances that need them are counted, not judged",
        "the NSEC3 ring order is whatever real SHA-1 gives; the model's abstract hash is used for the model-only soundness "
        "check, the oracle for the code is Truth, which does not depend on the hash",
        "the resolver gate (exact verifier, then RFC 8198 classifier must agree) is mirrored by the driver from "
        "resolver.authority(); admission itself goes through the real ResponseWriter.WriteMsg / Store.Record*",
        "virtual time: denialProofCache.now seam + shifting subtree-cut entries at quiescent points",
    ]
    if replay:
        return run_replay(ctx, replay)

    # ---- part 4 runs next to parts 1-3: the lookup-in-flight dimension of DenialProof.tla on the real pipeline.  Both
    # sibling tiers' overlay shims are listed before anything is built so that one overlay file serves every driver.
    x02hm.ensure_overlay(ctx)
    x04dp.ensure_overlay(ctx)
    ctx.harness_prepare()
    ctx.overlay_file()
    race_pool = concurrent.futures.ThreadPoolExecutor(max_workers=1)
    race = race_pool.submit(x04dp.run_race_tier, ctx)
    try:
        run_parts(ctx, thorough)
    except BaseException:
        race.cancel()
        race_pool.shutdown(wait=True)
        raise
    race_pool.shutdown(wait=True)
    race.result()


def run_parts(ctx, thorough):
    if not thorough:
        with concurrent.futures.ThreadPoolExecutor(max_workers=2) as ex:
            f1 = ex.submit(sound, ctx, "MC_Sound_quick.cfg", 5, 900)
            f2 = ex.submit(ctx.tlc, MODULE, SPEC, "MC_Cache_quick.cfg", workers=4, timeout=900, heap="6g", tag="cache")
            _, zones, cases = f1.result()
            f2.result()
        concs = ["plain", "case", "esc"]
        budget = 12000
    else:
        _, zones, cases = sound(ctx, "MC_Sound_thorough.cfg", 8, 3000, heap="12g")
        ctx.tlc(MODULE, SPEC, "MC_Sound_quick.cfg", workers=8, timeout=1800, tag="sound-all-subsets")
        ctx.tlc(MODULE, SPEC, "MC_Sound_hash2.cfg", workers=6, timeout=1800, tag="sound-hash2")
        ctx.tlc(MODULE, SPEC, "MC_Sound_collide.cfg", workers=4, timeout=900, tag="sound-collision")
        # negative control: without the collision exemption the forced collision MUST break soundness
        rc = ctx.tlc(MODULE, SPEC, "MC_Sound_collide_ctl.cfg", workers=4, timeout=900, must_pass=False, tag="collision-control", count=False)
        if rc.violated != "SoundNoExemption":
            raise vf.MachineryError("the forced-collision configuration exercises nothing (control run: violated=%s)" % rc.violated)
        ctx.tlc(MODULE, SPEC, "MC_Cache_quick.cfg", workers=8, timeout=1800, heap="8g", tag="cache")
        concs = ["plain", "case", "esc", "bin", "root"]
        budget = 10 ** 9
    if len(zones) < 8 or len(cases) < 500:
        raise vf.MachineryError("TLC emitted only %d zones / %d cases" % (len(zones), len(cases)))
    # the complete case list is the product subsets x questions; sample subsets (seeded) when large
    nq = max(len(z["qs"]) for z in zones.values())
    total = len(cases)
    if total > budget:
        rnd = random.Random(ctx.seed)
        # keep every case the model accepts something for with probability 1/2, thin the rest
        hot = [c for c in cases if c["acc"]]
        cold = [c for c in cases if not c["acc"]]
        rnd.shuffle(hot)
        rnd.shuffle(cold)
        nh = min(len(hot), budget * 2 // 3)
        cases = hot[:nh] + cold[:budget - nh]
    # unpolluted, small subsets first: the first example kept per violation class is then minimal
    cases.sort(key=lambda c: (len(c["p"]), len(c["g"]), c["z"], c["f"]))
    ctx.log("TLC enumerated %d (zone, family, subset) cases x %d questions; replaying %d" % (total, nq, len(cases)))
    ctx.cov["replay"]["enumeration"] = {"zones": len(zones), "subsets_enumerated": total, "subsets_replayed": len(cases),
                                        "questions": nq, "sampled": total > len(cases)}
    for c in cases[:2]:
        ctx.sample({"case": {k: c[k] for k in ("z", "f", "g", "p")}, "model_verdicts": c["acc"][:4]})
    replay_cases(ctx, zones, cases, concs, ctx.tier, timeout=2400)

    # ---- part 2: admission / expiry order
    simcfg = "Sim_Cache_thorough.cfg" if thorough else "Sim_Cache_quick.cfg"
    behs = ctx.tlc_behaviours(MODULE, SPEC, simcfg, num=1500 if thorough else 400, depth=16, timeout=1800)
    bi = behaviours_to_input(behs)
    seen, uniq = set(), []
    for b in bi:
        k = json.dumps(b, sort_keys=True)
        if k not in seen:
            seen.add(k)
            uniq.append(b)
            ctx._distinct.add("beh:" + hashlib.sha1(k.encode()).hexdigest()[:16])
    if len(uniq) < (100 if not thorough else 400):
        raise vf.MachineryError("simulation produced only %d usable behaviours of %d" % (len(uniq), len(behs)))
    need = {(b["z"], b["f"]) for b in uniq}
    missing = need - set(zones)
    if missing:
        raise vf.MachineryError("behaviours refer to zones the soundness run did not emit: %s" % sorted(missing)[:3])
    ctx.sample({"behaviour": uniq[0]})
    replay_cache(ctx, zones, uniq, ["plain", "esc"] if thorough else ["plain"], ctx.tier, timeout=2400)

    # ---- part 3: the request-tree NSEC3 hash memo under concurrent validations (HashMemo.tla, checks/x02hm.py)
    x02hm.run_tier(ctx)


def run_replay(ctx, path):
    with open(path) as f:
        doc = json.load(f)
    rp = doc.get("replay", {})
    if rp.get("family") in ("gated", "limiter", "free", "alone"):
        return x02hm.replay_file(ctx, path)
    if isinstance(rp, dict) and rp.get("driver") == "x04dp":
        x04dp.ONLY = "C02"
        x04dp.run_replay(ctx, path)
        return
    cfg = "MC_Sound_thorough.cfg" if doc.get("tier") == "thorough" else "MC_Sound_quick.cfg"
    _, zones, cases = sound(ctx, cfg, 6, 3000)
    if "steps" in rp:
        beh = {"z": rp["zone"], "f": rp["fam"], "steps": rp["steps"]}
        # keep the replayed behaviour on the route it failed on (odd index = ServeDNS)
        behs = [beh, beh]
        res = ctx.go_driver("./c02", "TestCacheBehaviours", {"zones": list(zones.values()), "behaviours": behs,
                                                             "concs": [rp.get("conc", "plain")]}, name="replay")
        ctx.take_driver_result(res, "[replay] ")
        return
    want = (rp.get("zone"), rp.get("fam"), json.dumps(rp.get("g")), json.dumps(rp.get("p")))
    sel = [c for c in cases if (c["z"], c["f"], json.dumps(c["g"]), json.dumps(c["p"])) == want]
    if not sel:
        raise vf.MachineryError("replay: the case %s is not in the enumeration of %s" % (want, cfg))
    res = ctx.go_driver("./c02", "TestDenialCases", {"zones": list(zones.values()), "cases": sel,
                                                     "concs": [rp.get("conc", "plain")]}, name="replay")
    ctx.take_driver_result(res, "[replay] ")
