"""XHOSTS -- the hostsfile middleware as a state machine (system coverage beyond the listed properties).

Not tied to one of C01..C20.  The statement is the middleware's own documentation: README ("Path to hosts file (RFC 952/1123
format) for local resolution. Auto reloads with fs watch. (The directory of the file is being watched ...)"), the doc
comments of middleware/hostsfile/hostsfile.go (header discipline of a local reply, "any other type reports bare existence,
which the callers turn into NODATA", the wildcard rule of matchWildcard, "ttl: 600 // 10 minutes default TTL", case folding of
lookupKey / AppendFoldedKey, wire/decoded parity of serveWire), the chain order of doc.go (hosts file ahead of the cache) and
the sub-pipeline comments of pipeline.go / resolver.go (internal sub-queries keep the hosts file).

tla/HostsFile/HostsFile.tla   disk (abstract file | missing | refused), the published tables (forward, wildcard, reverse),
             load() goroutines (Fire / LoadRead / LoadFail / LoadStore; overlapping as built), the debounce timer,
             WriteFile(whole | cut mid-line), RemoveFile, WriteTooLong, Query(name, type, class, flags).
  - TLC exhaustive: MC_SeqQ / MC_Seq (one load at a time, crash points of the writer, missing / refused file, start-up
    without a file), MC_Conc (AS BUILT: overlapping loads), MC_ConcSerial (the repaired order), MC_Query, Collide_Doc;
    16 negative twins (model mutants that must each violate their named invariant);
    Neg_Stale: AS BUILT the model violates Converged -- the superseded load stores last (reproduced on the real code);
    Obs_*: the hosts(5) ideals ForwardComplete / PTRInverse / NoLeak fail as built on alias-collision files (observations).
  - spec -> code (harness/xhosts TestXHosts, stage replay): every edge of the as-built graph Gate_Small, TLC-simulated walks
    over every file of the universe (crash points, two loaders) and the counter-example of Neg_Stale, forced on the real
    Hostsfile; a load() is held inside its read of the file by serving the path from a FIFO.  After every step the published
    tables are compared with the model's (drift) and every question of the universe goes through the real default chain
    (ServeMsg = decoded, ServeRaw = wire-born) with a scripted downstream recording pass-through; every reply is judged.
  - stage watch: the real fsnotify watcher on real files, driven by TLC walks of a patient operator (rename into place, in
    place, in place and cut mid-line, removal, refused file).
  - stage freerun: a writer swapping two whole files, forced back-to-back loads, N readers: "old or new, never a mixture".
  - stage stale: the overlapping-loads race with the real watcher and plain files.
  - stages internal / cache: middleware.Queryer sub-queries; the cache behind the hosts file.
  - stage probes: scripted observations.
  - stage fuzz: random files over a wider pool of names, patterns and address spellings, judged by the same predicates
    against a reference reading of the documented format.

Verdict classes (digest keys) `hosts/<class>`: header, question, owner, ttl, answer-type, answer-unlisted, answer-incomplete,
wildcard, nodata, alias-cname, ptr, pass-through, reply, parity, case, mixture, reload-missed, reload-stale, internal,
cached-hosts-answer, cache-shadows-hosts.  Behaviour the documentation does not cover is reported as OBSERVATION lines
(evidence coverage.replay.observations); XHOSTS_STRICT=1 turns them into violations.
"""
import json
import os
import random
import re
import threading
from concurrent.futures import ThreadPoolExecutor

import vf

MOD = "HostsFile"
SPEC = "MC_HostsFile.tla"
TAG = "x00hosts"
STRICT = os.environ.get("XHOSTS_STRICT", "") not in ("", "0")
PAR = 8

# abstract names of MC_HostsFile.tla -> real spellings
UNIVERSE = {
    "names": {"h1": "h1.lan", "h2": "h2.lan", "al": "al.lan", "dom": "dom.lan", "xdom": "x.dom.lan",
              "baddom": "baddom.lan", "h": "h", "nx": "nx.lan"},
    "pats": {"wdom": "*.dom.lan"},
    "addrs": {"a1": "192.0.2.1", "a2": "192.0.2.2", "b1": "2001:db8::1"},
    "qtypes": ["A", "AAAA", "CNAME", "PTR", "MX"],
}
UNIVERSE["qnames"] = sorted(UNIVERSE["names"]) + sorted(UNIVERSE["addrs"])

# (cfg, invariant or property the mutant must violate)
NEGATIVE = [
    ("Neg_Atomic.cfg", "TabIsSnapshot"), ("Neg_Keep.cfg", "FailKeepsTable"), ("Neg_FirstOnly.cfg", "PrimaryComplete"),
    ("Neg_AliasDrop.cfg", "AliasCname"), ("Neg_RevSkip.cfg", "PTRComplete"), ("Neg_RevKeep.cfg", "PTRSound"),
    ("Neg_WildSibling.cfg", "Untouched"), ("Neg_WildOff.cfg", "WildcardAnswers"), ("Neg_FamSwap.cfg", "AnswerSound"),
    ("Neg_NodataPass.cfg", "NodataKnown"), ("Neg_CdClear.cfg", "HeaderAll"), ("Neg_CdClearQ.cfg", "HeaderDiscipline"),
    ("Neg_DisabledArm.cfg", "DisabledPasses"), ("Neg_ObsStale.cfg", "ObsIsLookup"),
]
# as built the model itself fails these: the finding and the observations
AS_BUILT_FAILS = [
    ("Neg_Stale.cfg", "Converged", "reload-stale"), ("Obs_Collide_Forward.cfg", "ForwardComplete", "forward-incomplete"),
    ("Obs_Collide_PTR.cfg", "PTRInverse", "ptr-not-inverse"), ("Obs_NoLeak.cfg", "NoLeak", "leak-to-resolver"),
]
POSITIVE_QUICK = [("MC_SeqQ.cfg", 4), ("MC_Conc.cfg", 2), ("MC_ConcSerial.cfg", 2), ("MC_Query.cfg", 2), ("Collide_Doc.cfg", 2), ("MC_ConcPtr.cfg", 2)]
POSITIVE_THOROUGH = [("MC_Seq.cfg", 6), ("MC_SeqAll.cfg", 6), ("MC_ConcMid.cfg", 8), ("MC_QueryAll.cfg", 6)]


# ---------------------------------------------------------------------------------------------------
# TLC output -> histories
# ---------------------------------------------------------------------------------------------------
class Interner:
    """States are large (obs has 55 entries) and few tables exist: parse every conjunct text once."""

    def __init__(self):
        self.memo = {}
        self.tabs = {}      # canonical json of (tab, obs) -> id
        self.tab_out = {}   # id -> driver TabExp
        self.lock = threading.Lock()

    def value(self, text):
        v = self.memo.get(text)
        if v is None:
            v = vf.unset(vf.parse_tla_value(text))
            self.memo[text] = v
        return v

    def state(self, text):
        st = {}
        for part in re.split(r"(?:^|\n)\s*/\\ ", "\n" + text.strip()):
            part = part.strip()
            if not part:
                continue
            m = re.match(r"([A-Za-z_][A-Za-z0-9_]*)\s*=\s*", part)
            if not m:
                raise vf.MachineryError("bad state conjunct: %r" % part[:80])
            st[m.group(1)] = self.value(part[m.end():])
        return st

    def tab_id(self, st):
        key = json.dumps([st["tab"], st["obs"]], sort_keys=True)
        with self.lock:
            tid = self.tabs.get(key)
            if tid is None:
                tid = "T%03d" % len(self.tabs)
                self.tabs[key] = tid
                self.tab_out[tid] = tab_exp(st["tab"], st["obs"])
        return tid


def seq(v):
    """TLC prints <<>> for the empty sequence / function alike."""
    if isinstance(v, list):
        return v
    if isinstance(v, dict):
        return [v[k] for k in sorted(v, key=lambda x: int(x))]
    return []


def tab_exp(tab, obs):
    out = {"fwd": {}, "wild": [], "rev": {}, "obs": {}}
    for n, e in tab["fwd"].items():
        out["fwd"][n] = {"on": bool(e["on"]), "v4": seq(e["v4"]), "v6": seq(e["v6"]), "cn": e["cn"]}
    for w in seq(tab["wild"]):
        out["wild"].append({"pat": w["pat"], "v4": seq(w["v4"]), "v6": seq(w["v6"])})
    for a, ns in tab["rev"].items():
        out["rev"][a] = seq(ns)
    for k, o in obs.items():
        n, t = json.loads(k)
        out["obs"]["%s|%s" % (n, t)] = {"k": o["k"], "rr": seq(o["rr"])}
    return out


def disk_of(st):
    d = st["disk"]
    return {"st": d["st"], "ls": [{"a": l["a"], "ns": seq(l["ns"])} for l in seq(d["ls"])]}


def act_name(label):
    return re.split(r"[ (]", label.strip().replace('\\"', '"'), 1)[0]


# the whole files of MC_HostsFile.tla (only used to tell a whole file from a cut one in the watch stage)
L = lambda a, *ns: {"a": a, "ns": list(ns)}
JUNK = {"a": "junk", "ns": []}
WHOLE = [[], [L("a1", "h1"), L("b1", "h1"), L("a2", "h1")], [L("a1", "h1", "al"), L("a2", "h2")],
         [L("a1", "wdom"), L("b1", "xdom"), JUNK], [L("a2", "h2", "al"), L("b1", "wdom"), L("a1", "baddom")],
         [L("a1", "al"), L("a2", "h2", "al")], [L("a1", "h1", "al"), L("b1", "h1", "al")], [L("a2", "h2", "al"), L("a1", "al")],
         [L("a1", "wdom", "h2"), L("a2", "h1")], [L("a1", "h1"), L("a1", "h2"), L("b1", "h2", "al")]]


def step_of(it, label, prev, st):
    act = act_name(label)
    ppc, cpc = seq(prev["pc"]), seq(st["pc"])
    loader = 0
    for i, (a, b) in enumerate(zip(ppc, cpc)):
        if a != b:
            loader = i + 1
    d = disk_of(st)
    return {"label": label.strip().replace('\\"', '"')[:80], "act": act, "loader": loader, "disk": d, "tab": it.tab_id(st),
            "loaded": [{"a": l["a"], "ns": seq(l["ns"])} for l in seq(st["okLoaded"])],
            "quiescent": st["timer"] == "off" and all(p == "idle" for p in cpc),
            "cut": act == "WriteFile" and d["ls"] not in WHOLE}


def init_of(it, st):
    return {"label": "Init", "act": "Init", "loader": 0, "disk": disk_of(st), "tab": it.tab_id(st),
            "quiescent": True, "cut": False}


def history(it, hid, source, states, labels):
    """states[0] is the initial state; labels[i] names the step into states[i]."""
    return {"id": hid, "source": source, "disabled": bool(states[0]["disabled"]), "init": init_of(it, states[0]),
            "steps": [step_of(it, labels[i], states[i - 1], states[i]) for i in range(1, len(states))]}


def parse_dot_memo(it, path):
    nodes, edges, inits = {}, [], []
    node_re = re.compile(r'^(-?\d+) \[label="((?:[^"\\]|\\.)*)"(.*)\]\s*;?\s*$')
    edge_re = re.compile(r'^(-?\d+) -> (-?\d+) \[label="((?:[^"\\]|\\.)*)"')
    with open(path) as f:
        for line in f:
            line = line.strip()
            m = edge_re.match(line)
            if m:
                edges.append((m.group(1), m.group(2), m.group(3)))
                continue
            m = node_re.match(line)
            if m and m.group(1) not in nodes:
                lab = m.group(2).replace("\\n", "\n").replace('\\"', '"').replace("\\\\", "\\")
                nodes[m.group(1)] = it.state(lab)
                if "style = filled" in m.group(3) or "style=filled" in m.group(3):
                    inits.append(m.group(1))
    return nodes, edges, inits


def walk_cover(edges, inits, max_len):
    """Walks from an initial state that together take every edge: follow an untaken out-edge while there is one, else
    the shortest way (over taken edges) to a state that still has one; a new walk when the current one is long enough."""
    from collections import defaultdict, deque
    out = defaultdict(list)
    for k, e in enumerate(edges):
        out[e[0]].append(k)
    todo = set(range(len(edges)))

    def nearest(src):
        prev, dq = {src: None}, deque([src])
        while dq:
            u = dq.popleft()
            if any(k in todo for k in out[u]):
                path = []
                while prev[u] is not None:
                    path.append(prev[u])
                    u = edges[prev[u]][0]
                return path[::-1]
            for k in out[u]:
                v = edges[k][1]
                if v not in prev:
                    prev[v] = k
                    dq.append(v)
        return None

    walks = []
    while todo:
        best = None
        for i in inits:
            p = nearest(i)
            if p is not None and (best is None or len(p) < len(best[1])):
                best = (i, p)
        if best is None:
            break                      # the rest is unreachable
        cur, walk = best[0], list(best[1])
        if walk:
            cur = edges[walk[-1]][1]
        while len(walk) < max_len:
            nxt = [k for k in out[cur] if k in todo]
            if nxt:
                k = nxt[0]
                todo.discard(k)
                walk.append(k)
                cur = edges[k][1]
                continue
            p = nearest(cur)
            if not p:
                break
            walk += p
            cur = edges[p[-1]][1]
        walks.append([edges[k] for k in walk])
    return walks, len(todo)


def graph_histories(ctx, it, cfg, max_len):
    d = ctx.spec_dir(MOD)
    dot = os.path.join(d, "graph_" + cfg.replace(".cfg", ""))
    r = ctx.tlc(MOD, SPEC, cfg, workers=2, timeout=600, heap="3g", args=["-dump", "dot,actionlabels", dot], tag="graph")
    nodes, edges, inits = parse_dot_memo(it, dot + ".dot")
    os.remove(dot + ".dot")
    # node ids are fingerprints of a per-run polynomial: rank the states so that the same seed gives the same schedules
    rank = {n: "n%04d" % i for i, n in enumerate(sorted(nodes, key=lambda n: json.dumps(nodes[n], sort_keys=True)))}
    nodes = {rank[n]: s for n, s in nodes.items()}
    uniq = sorted(set((rank[s], rank[t], act_name(lab)) for (s, t, lab) in edges if s != t))
    rng = random.Random(ctx.seed)
    rng.shuffle(uniq)
    paths, left = walk_cover(uniq, sorted(rank[n] for n in inits), max_len)
    if left:
        raise vf.MachineryError("edge cover of %s incomplete: %d of %d edges left" % (cfg, left, len(uniq)))
    hs = []
    for k, p in enumerate(paths):
        states = [nodes[p[0][0]]] + [nodes[e[1]] for e in p]
        hs.append(history(it, "g%03d" % k, "graph", states, [None] + [e[2] for e in p]))
    return hs, len(nodes), uniq, r


def sim_histories(ctx, it, cfg, num, depth, prefix):
    d = ctx.spec_dir(MOD)
    pref = os.path.join(d, "sim_%s" % cfg.replace(".cfg", ""))
    r = ctx.tlc(MOD, SPEC, cfg, workers=1, timeout=600, heap="2g", must_pass=False, count=False, tag="simulate",
                args=["-simulate", "file=%s,num=%d" % (pref, num), "-depth", str(depth), "-seed", str(ctx.seed)])
    if r.rc != 0:
        raise vf.MachineryError("TLC simulate %s failed rc=%d\n%s" % (cfg, r.rc, "\n".join(r.out.splitlines()[-30:])))
    hs = []
    import glob
    for k, fn in enumerate(sorted(glob.glob(pref + "_*"))):
        text = open(fn).read()
        os.remove(fn)
        items = re.findall(r"\\\* <(.*?) line \d+, col \d+ to line \d+, col \d+ of module \w+>\s*\nSTATE_\d+ ==\s*\n(.*?)(?=\n\n|\Z)", text, re.S)
        if len(items) < 2:
            continue
        states = [it.state(s) for _, s in items]
        hs.append(history(it, "%s%03d" % (prefix, k), prefix, states, [lab for lab, _ in items]))
    if not hs:
        raise vf.MachineryError("TLC simulate %s produced no behaviour" % cfg)
    return hs


def select_walks(hs, keep):
    """Of many simulated walks keep those that together load every whole file of the universe (and as many cut ones as
    there are), then fill up to `keep` in the order TLC produced them."""
    def loads(h):
        return set(json.dumps(s["loaded"]) for s in h["steps"] if s["act"] == "LoadStore")
    want = set()
    for h in hs:
        want |= loads(h)
    chosen, have = [], set()
    whole = set(json.dumps(w) for w in WHOLE)
    for target in (whole & want, want):
        while target - have and len(chosen) < max(keep, len(whole) + 2):
            best = max((h for h in hs if h not in chosen), key=lambda h: len((loads(h) & target) - have), default=None)
            if best is None or not (loads(best) & target) - have:
                break
            chosen.append(best)
            have |= loads(best)
    for h in hs:
        if len(chosen) >= keep:
            break
        if h not in chosen:
            chosen.append(h)
    missing = (whole & want) - have
    return chosen, len(have), sorted(missing)


def counterexample_history(ctx, it, cfg, want, hid):
    r = ctx.tlc(MOD, SPEC, cfg, workers=1, timeout=300, heap="2g", must_pass=False, count=False, tag="as-built-must-fail")
    if r.violated != want:
        raise vf.MachineryError("%s: as built the model must violate %s, TLC says %r" % (cfg, want, r.violated))
    parts = re.split(r"\nState (\d+): <(.*?)>\n", r.out)
    items = [(parts[i + 1], parts[i + 2].split("\n\n")[0]) for i in range(1, len(parts) - 2, 3)]
    if len(items) < 3:
        raise vf.MachineryError("could not read the counter-example of %s" % cfg)
    states = [it.state(s) for _, s in items]
    return history(it, hid, "cex", states, [lab for lab, _ in items])


def watch_scenarios(hs):
    """From walks of a patient operator: the writes, each with the tables the watcher must end up with."""
    out = []
    for h in hs:
        steps, pend = [], None
        for s in h["steps"]:
            if s["act"] in ("WriteFile", "RemoveFile", "WriteTooLong"):
                pend = dict(s)
            elif pend is not None and s["quiescent"]:
                pend["tab"] = s["tab"]
                steps.append(pend)
                pend = None
        if steps:
            out.append({"id": h["id"], "source": "watch", "disabled": False, "init": h["init"], "steps": steps})
    return out


# ---------------------------------------------------------------------------------------------------
def ensure_overlay(ctx):
    ctx.overlay_tags.add(TAG)
    ov = os.path.join(ctx.scratch, "overlay.json")
    if os.path.exists(ov) and "verif_%s_shim.go" % TAG not in open(ov).read():
        os.remove(ov)


def model_jobs(ctx, thorough):
    pos = POSITIVE_QUICK + (POSITIVE_THOROUGH if thorough else [])
    jobs = [lambda c=c, w=w: ctx.tlc(MOD, SPEC, c, workers=w, timeout=1500, heap="3g" if not thorough else "8g") for c, w in pos]
    jobs += [lambda c=c: ctx.tlc(MOD, SPEC, c, workers=1, timeout=300, heap="2g", must_pass=False, count=False, tag="mutant-must-fail")
             for c, _ in NEGATIVE]
    jobs += [lambda c=c: ctx.tlc(MOD, SPEC, c, workers=1, timeout=300, heap="2g", must_pass=False, count=False, tag="as-built-must-fail")
             for c, _, _ in AS_BUILT_FAILS[1:]]

    def post(out):
        info = {"exhaustive": {c: {"distinct": r.distinct, "generated": r.generated, "wall_s": round(r.wall, 1)}
                               for (c, _), r in zip(pos, out)}, "mutants_refute": {}, "as_built_refutes": {}}
        k = len(pos)
        for (c, want), r in zip(NEGATIVE, out[k:]):
            if r.violated != want:
                raise vf.MachineryError("%s: the model mutant must violate %s, TLC says %r (vacuous invariant?)\n%s"
                                        % (c, want, r.violated, "\n".join(r.out.splitlines()[-15:])))
            info["mutants_refute"][c] = want
        k += len(NEGATIVE)
        for (c, want, cls), r in zip(AS_BUILT_FAILS[1:], out[k:]):
            if r.violated != want:
                raise vf.MachineryError("%s: as built the model must violate %s, TLC says %r" % (c, want, r.violated))
            info["as_built_refutes"][c] = "%s (observation %s)" % (want, cls)
        ctx.cov["replay"]["model"] = info
    return jobs, post


def parallel(jobs):
    with ThreadPoolExecutor(max_workers=PAR) as ex:
        futs = [ex.submit(j) for j in jobs]
        return [f.result() for f in futs]


def driver_input(ctx, it, histories, watch, stages, budget):
    used = set()
    for h in histories + watch:
        used.add(h["init"]["tab"])
        used.update(s["tab"] for s in h["steps"])
    return {"universe": UNIVERSE, "tabs": {t: it.tab_out[t] for t in sorted(used)}, "histories": histories, "watch": watch,
            "stages": stages, "strict": STRICT, "budgetMs": budget, "readers": 4 if ctx.tier == "quick" else 8,
            "staleRuns": 1 if ctx.tier == "quick" else 3}


def fold(ctx, res, prefix):
    ctx.take_driver_result(res, prefix)
    if res.get("skipped"):
        raise vf.MachineryError("driver gave up: %s" % res["skipped"][:3])
    return res.get("counters", {})


def report_observations(ctx, obs_path):
    obs = {}
    if os.path.exists(obs_path):
        for ln in open(obs_path).read().splitlines():
            if "\t" in ln:
                c, w = ln.split("\t", 1)
                obs[c] = w
    for c in sorted(obs):
        print("OBSERVATION property=%s hosts/%s: %s" % (ctx.pid, c, obs[c]), flush=True)
    ctx.cov["replay"]["observations"] = obs
    return obs


def run_tier(ctx):
    thorough = ctx.tier == "thorough"
    ensure_overlay(ctx)
    ctx.assumptions += [
        "XHOSTS: the statement is the middleware's documentation (README hostsfile row, doc comments of hostsfile.go, doc.go chain "
        "order, pipeline.go / resolver.go sub-pipeline comments); behaviour it does not cover is reported as OBSERVATION, not judged",
        "XHOSTS: in the replay a load() is held inside its read of the hosts path by serving the path from a FIFO (LoadRead = the "
        "bytes are in the pipe, LoadStore = the writer closes); the read of the file is one atomic step of the model (writers "
        "replace the file as a whole or die mid-line, they do not interleave with a reader byte-wise)",
        "XHOSTS: names, addresses and files come from the small universe of MC_HostsFile.tla; letter case, white space, comments, "
        "CRLF, zone ids, v4-mapped spellings, flags, transport and entry (decoded / wire-born) are drawn by the driver",
        "XHOSTS: at most two overlapping load() goroutines",
    ]
    ctx.spec_dir(MOD)
    it = Interner()
    nsim, ngen, depth, nwatch = (14, 80, 60, 5) if not thorough else (150, 400, 90, 30)
    mjobs, mpost = model_jobs(ctx, thorough)
    # warm the Go build while TLC runs
    warm = [lambda: ctx.go_test("./xhosts", "^XHostsNothing$", timeout=900)]
    jobs = mjobs + [lambda: graph_histories(ctx, it, "Gate_Tiny.cfg" if not thorough else "Gate_Small.cfg", 400),
                    lambda: sim_histories(ctx, it, "Sim_Replay.cfg", ngen, depth, "s"),
                    lambda: sim_histories(ctx, it, "Sim_Watch.cfg", nwatch, 40 if not thorough else 60, "w"),
                    lambda: counterexample_history(ctx, it, "Neg_Stale.cfg", "Converged", "cex-stale")] + warm
    out = parallel(jobs)
    mpost(out[:len(mjobs)])
    (ghist, gnodes, gedges, _), shist, whist, cex, (wrc, wout) = out[len(mjobs):]
    if wrc != 0:
        raise vf.MachineryError("the harness does not build:\n" + "\n".join(wout.splitlines()[-40:]))
    ctx.cov["replay"]["model"]["as_built_refutes"]["Neg_Stale.cfg"] = "Converged (finding hosts/reload-stale)"
    shist, nloaded, missing = select_walks(shist, nsim)
    if missing:
        raise vf.MachineryError("no simulated walk loads the whole file(s) %s" % missing)
    watch = watch_scenarios(whist)
    if not watch:
        raise vf.MachineryError("no watch scenario came out of Sim_Watch")
    # the counter-example first, then the simulated walks (richest files), then the graph's edge cover
    histories = [cex] + shist + ghist
    for e in gedges:
        ctx._distinct.add("edge:%s:%s:%s" % e)
    ctx.log("histories: counter-example of Neg_Stale (%d steps), %d simulated walks (%d steps), %s %d states / %d edges -> %d "
            "covering walks (%d steps); %d watch scenarios (%d changes); %d distinct tables; the walks load %d distinct files"
            % (len(cex["steps"]), len(shist), sum(len(h["steps"]) for h in shist), "Gate_Small" if thorough else "Gate_Tiny", gnodes, len(gedges), len(ghist),
               sum(len(h["steps"]) for h in ghist), len(watch), sum(len(h["steps"]) for h in watch), len(it.tab_out), nloaded))
    stages = ["replay", "watch", "freerun", "stale", "internal", "cache", "probes", "fuzz"]
    budget = {"replay": 8000, "watch": 5000, "freerun": 1500, "fuzz": 1500} if not thorough else {"replay": 240000, "watch": 120000, "freerun": 15000, "fuzz": 30000}
    obs_path = os.path.join(ctx.scratch, "observations.tsv")
    res = ctx.go_driver("./xhosts", "TestXHosts", driver_input(ctx, it, histories, watch, stages, budget), name="xhosts",
                        timeout=1500, env={"XHOSTS_OBS_OUT": obs_path})
    c = fold(ctx, res, "[HostsFile] ")
    obs = report_observations(ctx, obs_path)
    info = {k: c.get(k, 0) for k in (
        "histories", "histories_cex", "histories_s", "histories_graph", "histories_cut_by_budget", "steps", "steps_LoadRead",
        "steps_LoadStore", "steps_LoadFail", "steps_WriteFile", "loads_overlapping", "stores_of_a_superseded_read",
        "quiescent_with_older_tables", "stale_tables_seen", "queries", "wire_born", "case_variants", "outcome_answer",
        "outcome_nodata", "outcome_pass", "outcome_equals_model", "outcome_differs_from_model", "tables_compared_equal",
        "table_mismatch", "loads_failed_missing", "loads_failed_toolong", "order_differs_from_file")}
    info["drift"] = res["drift"]
    info["drift_notes"] = res.get("drift_notes", [])
    info["graph_edges"] = len(gedges)
    ctx.cov["replay"]["replay"] = info
    ctx.cov["replay"]["watch"] = {k: v for k, v in c.items() if k.startswith("watch_")}
    ctx.cov["replay"]["freerun"] = {k: v for k, v in c.items() if k.startswith("freerun_")}
    ctx.cov["replay"]["stale"] = {k: v for k, v in c.items() if k.startswith("stale_")}
    ctx.cov["replay"]["other"] = {k: v for k, v in c.items() if k.startswith(("internal_", "cache_", "probes", "ms_", "observation_", "fuzz_"))}
    ctx.cov["traces_validated_against_impl"] += info["histories"] + c.get("watch_histories", 0)
    if c.get("loads_serialised_by_code", 0) > 0 and not res.get("violations"):
        # the code under test does not let loads overlap: replay the behaviours of the repaired order instead
        gh2, gn2, ge2, _ = graph_histories(ctx, it, "Gate_TinySerial.cfg" if not thorough else "Gate_SmallSerial.cfg", 400)
        sh2 = sim_histories(ctx, it, "Sim_ReplaySerial.cfg", ngen, depth, "s")
        sh2, _, _ = select_walks(sh2, nsim)
        for h in gh2 + sh2:
            h["id"] = "ser-" + h["id"]
        res2 = ctx.go_driver("./xhosts", "TestXHosts", driver_input(ctx, it, sh2 + gh2, [], ["replay"], budget), name="xhosts_serial",
                             timeout=1500, env={"XHOSTS_OBS_OUT": obs_path + ".2"})
        c2 = fold(ctx, res2, "[HostsFile, serialised loads] ")
        for e in ge2:
            ctx._distinct.add("edge-serial:%s:%s:%s" % e)
        ctx.cov["replay"]["replay_serialised"] = {k: c2.get(k, 0) for k in (
            "histories", "histories_cut_by_budget", "histories_cut_serialised", "steps", "steps_LoadStore", "queries", "outcome_equals_model",
            "outcome_differs_from_model", "tables_compared_equal", "table_mismatch")}
        ctx.cov["replay"]["replay_serialised"]["drift"] = res2["drift"]
        ctx.cov["traces_validated_against_impl"] += c2.get("histories", 0)
        ctx.log("the code serialises load(): replayed the repaired order too: %s" % ctx.cov["replay"]["replay_serialised"])
        if not res2.get("violations") and (c2.get("steps_LoadStore", 0) < 20 or c2.get("histories_cut_serialised", 0) > 0):
            raise vf.MachineryError("the replay of the serialised model was vacuous: %s" % c2)
    if not res.get("violations"):
        vac = []
        ser = ctx.cov["replay"].get("replay_serialised", {})
        if info["steps_LoadStore"] + ser.get("steps_LoadStore", 0) < 20 or info["queries"] + ser.get("queries", 0) < 2000 or info["wire_born"] < 500:
            vac.append("replay (%s)" % info)
        serialised = c.get("loads_serialised_by_code", 0) > 0
        if serialised:
            ctx.log("the code serialises load(): the overlapping schedules of the as-built model are not enabled (drift); "
                    "histories cut there: %d" % c.get("histories_cut_serialised", 0))
        if (info["loads_overlapping"] == 0 and not serialised) or info["outcome_answer"] == 0 or info["outcome_nodata"] == 0 or info["outcome_pass"] == 0:
            vac.append("replay outcomes (%s)" % info)
        if info["outcome_equals_model"] == 0 or info["tables_compared_equal"] == 0:
            vac.append("the code never agreed with the model")
        if c.get("watch_converged", 0) < 3:
            vac.append("watch (%s)" % ctx.cov["replay"]["watch"])
        if c.get("freerun_replies", 0) < 5000 or c.get("freerun_forced_loads", 0) < 10 or c.get("freerun_converged", 0) != 1:
            vac.append("freerun (%s)" % ctx.cov["replay"]["freerun"])
        if c.get("internal_queries", 0) < 5 or c.get("cache_queries", 0) < 10 or c.get("fuzz_files", 0) < 10:
            vac.append("internal / cache / fuzz stages (%s)" % ctx.cov["replay"]["other"])
        if vac:
            raise vf.MachineryError("XHOSTS was vacuous: " + "; ".join(vac))
    ctx.log("replay: %(histories)d histories, %(steps)d steps (%(steps_LoadStore)d stores, %(loads_overlapping)d overlapping reads), "
            "%(queries)d replies judged (%(wire_born)d wire-born); model = code on %(outcome_equals_model)d outcomes / "
            "%(tables_compared_equal)d table projections, differs on %(outcome_differs_from_model)d / %(table_mismatch)d" % info)
    ctx.log("watch %s | freerun %s | stale %s | observations: %s" % (ctx.cov["replay"]["watch"], ctx.cov["replay"]["freerun"],
                                                                     ctx.cov["replay"]["stale"], ", ".join(sorted(obs)) or "none"))


def run(ctx, replay):
    if replay:
        return replay_file(ctx, replay)
    ctx.cov["rule"] = ("every edge of the as-built HostsFile graph (Gate_Small), TLC-simulated walks over every file of the universe and "
                       "the counter-example of Neg_Stale forced on the real Hostsfile, every question of the universe asked after "
                       "every step on both entries; distinct = graph edges + (table, question, outcome) triples + stage cases")
    run_tier(ctx)


def replay_file(ctx, path):
    """bin/check XHOSTS --replay <file>: re-run exactly the recorded case."""
    with open(path) as f:
        rec = json.load(f)
    rp = rec.get("replay", rec)
    ensure_overlay(ctx)
    ctx.tlc(MOD, SPEC, "MC_Conc.cfg", workers=2, timeout=600, heap="3g")
    drv = rp.get("driver")
    obs_path = os.path.join(ctx.scratch, "observations.tsv")
    inp = {"universe": UNIVERSE, "tabs": {}, "histories": [], "watch": [], "stages": [], "strict": STRICT or "[strict]" in rec.get("what", ""),
           "budgetMs": {"freerun": 4000}, "readers": 8, "staleRuns": 3}
    if drv == "replay":
        inp["histories"], inp["tabs"], inp["stages"] = [rp["history"]], rp["tabs"], ["replay"]
    elif drv == "watch":
        h = rp["history"]
        inp["watch"], inp["stages"] = [h], ["watch"]
    elif drv in ("freerun", "stale", "internal", "cache", "probes", "fuzz"):
        inp["stages"] = [drv]
        inp["fuzzFile"] = rp.get("file", "") if drv == "fuzz" else ""
    else:
        raise vf.MachineryError("replay file %s: unknown driver %r" % (path, drv))
    res = ctx.go_driver("./xhosts", "TestXHosts", inp, name="replay_xhosts", timeout=900, env={"XHOSTS_OBS_OUT": obs_path})
    fold(ctx, res, "[replay HostsFile] ")
    report_observations(ctx, obs_path)
    ctx.cov["rule"] = "replay of %s" % path
    ctx.sample({"replayed": path, "driver": drv})
    ctx._distinct.update(["replay", path])
