"""C04 -- nothing is served past its lifetime; composed answers inherit the shortest part.

API tier: checks/c04_api.py (Lease.tla answer half on the real middleware/cache).  The
full-pipeline tier (edns+cache+resolver against scripted authorities) is merged here
when present (checks/c04_pipeline.py).
"""
import importlib

import c04_api
import x04dp
import x04ds
import x04pf


def alias_neg(ctx, only=None):
    """A negative answer admitted in one piece behind an alias (LeaseNegAlias.tla): every terminal state of the model
    is one (reply shape, age) case asked of the real cache twice, message-born and wire-born."""
    import vf
    neg = ctx.tlc("LeaseNegAlias", "MC_LeaseNegAlias.tla", "MC_LeaseNegAlias_neg.cfg", workers=4, timeout=300, must_pass=False,
                  count=False, tag="negative twin: MINIMUM counted by class only (must violate ServedLive)")
    if neg.violated != "ServedLive":
        raise vf.MachineryError("negative twin MC_LeaseNegAlias_neg.cfg did not violate ServedLive (violated=%s rc=%s)"
                                % (neg.violated, neg.rc))
    r, nodes, edges, inits = ctx.tlc_graph("LeaseNegAlias", "MC_LeaseNegAlias.tla", "MC_LeaseNegAlias.cfg", workers=4, timeout=300)
    cases = []
    for n in nodes.values():
        if n.get("phase") != "done":
            continue
        m = n["msg"]
        cases.append({"rcode": m["rcode"], "ttlC": m["ttlC"], "ttlS": m["ttlS"], "min": m["min"], "hops": m["hops"],
                      "tick": n["age"], "expired": n["out"] == "miss"})
    if only:
        cases = [c for c in cases if all(c[k] == v for k, v in only.items())]
    if len(cases) < 100 and not only:
        raise vf.MachineryError("LeaseNegAlias produced only %d terminal states" % len(cases))
    if not any(c["expired"] for c in cases) or not any(not c["expired"] for c in cases):
        raise vf.MachineryError("LeaseNegAlias cases are one-sided (all expired or all live)")
    res = ctx.go_driver("./c04", "TestAliasNeg", {"cases": cases}, name="aliasneg", timeout=600)
    ctx.take_driver_result(res, "[alias-borne negative] ")
    c = res.get("counters", {})
    if not only and (c.get("aliasneg_live_hits", 0) == 0 or c.get("aliasneg_second_from_downstream", 0) == 0):
        raise vf.MachineryError("alias-borne negative stage is vacuous: %s" % c)
    ctx.log("alias-borne negative answers: %d cases x 2 births; live hits %d, back to the downstream %d" % (
        len(cases), c.get("aliasneg_live_hits", 0), c.get("aliasneg_second_from_downstream", 0)))


def run(ctx, replay):
    ctx.cov["rule"] = ("behaviours = TLC -simulate behaviours of Lease.tla (answer half) replayed call by call on the real "
                       "cache.Cache / Store with a timestamp shifter as the clock; verdicts = C04 predicates on the real "
                       "replies against the driver's own lifetime oracle; distinct = distinct action sequences; recorded "
                       "runs validated by Trace_Lease with the property predicates evaluated on observed values")
    if replay:
        import json
        with open(replay) as f:
            rp = json.load(f)
        obj = rp.get("replay", rp)
        if obj.get("driver") == "aliasneg":
            c = obj["case"]
            res = ctx.go_driver("./c04", "TestAliasNeg", {"cases": [c]}, name="replay_aliasneg", timeout=300)
            ctx.take_driver_result(res, "[replay alias-borne negative] ")
            ctx.cov["states"] = max(ctx.cov["states"], 1)
            ctx.cov["transitions"] = max(ctx.cov["transitions"], 1)
            return
    if replay and c04_api.run_replay(ctx, replay):
        return
    x04dp.ONLY = "C04"
    if replay and x04dp.run_replay(ctx, replay):
        return
    if replay and x04ds.run_replay(ctx, replay):
        return
    c04_api.run_api(ctx)
    alias_neg(ctx)
    # DNS64 in front of the cache: the synthesised reply is composed from the cached AAAA NODATA and the cached A RRset
    # of differing ages (Lease64.tla, the DNS64 dimension of the answer half), same driver
    x04ds.run_tier(ctx)
    # background refresh: claim, queue, worker, completion CAS, Stop (Prefetch.tla), gated on the real cache
    import os
    ctx.overlay_tags.add("x04pf")
    ov = os.path.join(ctx.scratch, "overlay.json")
    if os.path.exists(ov):
        os.remove(ov)
    x04pf.run_tier(ctx)
    # the aggressive denial-proof cache: multi-admission histories of one signer zone on the real pipeline (DenialProof.tla)
    x04dp.run_tier(ctx)
    try:
        pipe = importlib.import_module("c04_pipeline")
    except ImportError:
        pipe = None
    if pipe is not None:
        pipe.run_pipeline(ctx)
