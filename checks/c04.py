"""C04 -- nothing is served past its lifetime; composed answers inherit the shortest part.

API tier: checks/c04_api.py (Lease.tla answer half on the real middleware/cache).  The
full-pipeline tier (edns+cache+resolver against scripted authorities) is merged here
when present (checks/c04_pipeline.py).
"""
import importlib

import c04_api
import x04dp
import x04ds
import x04pf


def run(ctx, replay):
    ctx.cov["rule"] = ("behaviours = TLC -simulate behaviours of Lease.tla (answer half) replayed call by call on the real "
                       "cache.Cache / Store with a timestamp shifter as the clock; verdicts = C04 predicates on the real "
                       "replies against the driver's own lifetime oracle; distinct = distinct action sequences; recorded "
                       "runs validated by Trace_Lease with the property predicates evaluated on observed values")
    if replay and c04_api.run_replay(ctx, replay):
        return
    x04dp.ONLY = "C04"
    if replay and x04dp.run_replay(ctx, replay):
        return
    if replay and x04ds.run_replay(ctx, replay):
        return
    c04_api.run_api(ctx)
    # DNS64 in front of the cache: the synthesised reply is composed from the cached AAAA NODATA and the cached A RRset
    # of differing ages (Lease64.tla, the DNS64 dimension of the answer half), same driver
    x04ds.run_tier(ctx)
    # background refresh: claim, queue, worker, completion CAS, Stop (Prefetch.tla), gated on the real cache
    import os
    ctx.overlay_tags.add("x04pf")
    ov = os.path.join(ctx.scratch, "overlay.json")
    if os.path.exists(ov):
        os.remove(ov)
    x04pf.run_tier(ctx)
    # the aggressive denial-proof cache: multi-admission histories of one signer zone on the real pipeline (DenialProof.tla)
    x04dp.run_tier(ctx)
    try:
        pipe = importlib.import_module("c04_pipeline")
    except ImportError:
        pipe = None
    if pipe is not None:
        pipe.run_pipeline(ctx)
