"""X13LP -- how a delegation's SERVER LIST is assembled inside one request tree and what an empty list publishes
(serves C13; `bin/check X13LP` runs it alone).

tla/ZoneFail/ZoneAsm.tla   the dimension ZoneFail.tla (one fan-out) and ZoneBrk.tla (a history of trees) leave out: a topology
             of glue-less NS-host dependencies over three zones (every non-empty host set over the zones, "glue" = address in the
             referral, "alt" = a glue-less host in an independently reachable zone: 29791 topologies x 3 start zones; look-up order,
             glue-first and the provisional delegation-cache entry as in lookupV4Nss), every server HEALTHY.  processDelegation / lookupV4Nss / checkLoop (a host already
             in flight twice is skipped) / clearResolutionZoneFailure as one deterministic recursive walk with the ghost `ever`
             (published at some moment of the walk).
  - TLC exhaustive: OnlyWhatFailed (a zone a fresh request can reach is never published, not even for a moment), NothingLeft,
    Complete (the two laps of the loop guard lose nothing, so an empty list at the ROOT of a tree does mean "unreachable").
  - as-built switches, each a twin config that must refute OnlyWhatFailed: Neg_AsmLoop (LoopCutPublishes: an empty list caused by the
    loop guard publishes like any other -- resolver.go before hooks/fix-c13-ns-loop-zone-failure.patch) and Neg_AsmCutOnly (only the
    level the guard cut at is held request-local: the level above still publishes); Reach_AsmPublished: an unreachable zone IS
    published (the rule is not vacuous).
  - spec -> code: the counter-examples of the two twins, the witness and directed topologies are realised with scripted authorities
    (one healthy server for all zones of a case) and played on the real full pipeline (harness/x13lp): a cold request, and
    independent clients probing fresh names of every reachable zone while its tree is at work.  Verdict from the clients' replies
    and the server's record only: SERVFAIL + EDE 13 for a reachable zone = a zone failure without a failed server.
"""
import json
import re

import vf

MOD = "ZoneFail"
SPEC = "ZoneAsm.tla"
PKG, TEST = "./x13lp", "TestAssembly"
HOLD_MS = 250

POSITIVE = [("MC_Asm", 4)]
NEGATIVE = [("Neg_AsmLoop", "OnlyWhatFailed"), ("Neg_AsmCutOnly", "OnlyWhatFailed")]
REACH = [("Reach_AsmPublished", "NeverPublished")]
# directed: the audit's topology (b's only NS host lives in d, d lists a glue-less host in b and one with glue), asked for either zone
DIRECTED = [
    {"id": "dir-audit", "topo": {"a": ["glue"], "b": ["d", "alt"], "d": ["b"]}, "start": "d", "ever": ["d"], "src": "directed"},
    {"id": "dir-audit-b", "topo": {"a": ["glue"], "b": ["d", "alt"], "d": ["b"]}, "start": "b", "ever": ["d"], "src": "directed"},
    {"id": "dir-via-a", "topo": {"a": ["b"], "b": ["d", "alt"], "d": ["b"]}, "start": "a", "ever": ["d"], "src": "directed"},
    {"id": "dir-glue", "topo": {"a": ["glue"], "b": ["d"], "d": ["b", "glue"]}, "start": "b", "ever": [], "src": "directed"},
    {"id": "dir-plain", "topo": {"a": ["alt"], "b": ["a"], "d": ["b"]}, "start": "d", "ever": [], "src": "directed"},
]

ASSUMPTIONS = [
    "X13LP: all zones of a case are served by one healthy scripted server; answers for NS-host address questions are held back %d ms "
    "so the cold request's tree stays at work while independent clients probe; a flagged case is re-run alone on a fresh namespace "
    "and only a reproduced predicate failure is reported; duplicate hosts in a model sequence collapse in the NS RRset" % HOLD_MS,
]


def seq(v):
    if isinstance(v, dict):
        return [v[k] for k in sorted(v, key=lambda x: int(x))]
    return list(v)


def counterexample(r):
    parts = re.split(r"\nState (\d+): <(.*?)>\n", r.out)
    out = [vf.parse_tla_state(parts[i + 2].split("\n\n")[0]) for i in range(1, len(parts) - 2, 3)]
    if len(out) < 2:
        raise vf.MachineryError("could not read TLC's error trace of ZoneAsm")
    return out


def case_of(states, cid, src):
    last = states[-1]
    topo = {z: seq(h) for z, h in last["topo"].items()}
    return {"id": cid, "topo": topo, "start": last["start"], "ever": sorted(vf.unset(last["ever"])), "src": src}


def model(ctx):
    cases = []
    for cfg, w in POSITIVE:
        ctx.tlc(MOD, SPEC, cfg + ".cfg", workers=w, timeout=600, heap="4g", deadlock=False)
    for cfg, want in NEGATIVE + REACH:
        r = ctx.tlc(MOD, SPEC, cfg + ".cfg", workers=4, timeout=600, heap="4g", deadlock=False, must_pass=False, count=False)
        if r.ok or r.violated != want:
            raise vf.MachineryError("ZoneAsm %s must refute %s (got ok=%s violated=%s): the invariant is vacuous" % (cfg, want, r.ok, r.violated))
        cases.append(case_of(counterexample(r), cfg, "counter-example of " + cfg))
    return cases


def conclude(ctx, res, cases):
    ctx.take_driver_result(res, "[server-list assembly] ")
    cnt = res.get("counters", {})
    ctx.cov["replay"]["zone_assembly"] = {"cases": [c["id"] for c in cases], "replays": res["cases"], "drift": res["drift"],
                                          "drift_notes": res.get("drift_notes", []), "counters": cnt,
                                          "mutants_refute": dict(NEGATIVE), "witness": dict(REACH)}
    ctx.cov["traces_validated_against_impl"] += res["cases"]
    if res.get("skipped"):
        raise vf.MachineryError("assembly driver: %s" % res["skipped"][:3])
    if res["cases"] < len(cases) or cnt.get("probes", 0) < 2 * len(cases):
        raise vf.MachineryError("assembly replay is vacuous: %d of %d cases, %s" % (res["cases"], len(cases), cnt))
    ctx.log("server-list assembly: %d topologies played (%d twin counter-examples / witnesses, %d directed), probes=%d flagged=%d "
            "not-reproduced=%d drift=%d" % (res["cases"], len(NEGATIVE) + len(REACH), len(DIRECTED), cnt.get("probes", 0),
                                            cnt.get("flagged", 0), cnt.get("not_reproduced", 0), res["drift"]))


def run_tier(ctx):
    ctx.assumptions += ASSUMPTIONS
    cases = model(ctx) + DIRECTED
    for c in cases:
        ctx._distinct.add("zoneasm:" + json.dumps([c["topo"], c["start"]], sort_keys=True))
    ctx.harness_prepare()
    res = ctx.go_driver(PKG, TEST, {"cases": cases, "holdMs": HOLD_MS}, name="zoneasm", timeout=600)
    conclude(ctx, res, cases)


def replay_file(ctx, path):
    with open(path) as f:
        rec = json.load(f)
    rp = rec.get("replay", rec)
    if "cases" not in rp:
        raise vf.MachineryError("replay file %s names no X13LP case" % path)
    ctx.tlc(MOD, SPEC, "MC_Asm.cfg", workers=2, timeout=600, heap="2g", deadlock=False)
    ctx.harness_prepare()
    res = ctx.go_driver(PKG, TEST, {"cases": rp["cases"], "holdMs": rp.get("holdMs", HOLD_MS), "confirm": True}, name="zoneasm_replay", timeout=600)
    ctx.take_driver_result(res, "[replay server-list assembly] ")
    if res.get("skipped"):
        raise vf.MachineryError("assembly replay: %s" % res["skipped"][:3])
    ctx.cov["rule"] = "replay of %s" % path
    ctx._distinct.update(["replay", path])


def run(ctx, replay):
    ctx.cov["rule"] = ("states/transitions = TLC exhaustive run of ZoneAsm.tla (one state per topology x start zone, the walk is a "
                       "recursive operator); evaluations = topologies played on the real full pipeline; distinct = distinct topologies")
    if replay:
        return replay_file(ctx, replay)
    run_tier(ctx)
