"""X03AU -- audience and checking-disabled partition of cached answers at bit level, in forwarder mode
(the tier of C03 that closes seeded/C03-r3-1, -2, -3; checks/c03.py runs it, `bin/check X03AU` runs it alone).

Ecs.tla (tla/Ecs, shared with C19) models one question asked by clients of both address families: what edns forwards
(Policy.Allows / Clamp), the policy ecs.Build compiles (ceilings and floors PER FAMILY, unset = default), under which
scoped or shared key and in which CD partition cache.ResponseWriter.WriteMsg files the answer (ClampScope, the response
header's CD bit as pinned by forwarder.ServeDNS), and what Cache.scopedLookup / the shared key hand to the next client.
Properties: ScopedAudience, CdPartition (action properties over the hidden `last`), EcsLeavesOnlyIfAllowed,
NeverTooSpecific.

  configs (MC_EcsAud.tla)   dimension                                                   mutant (must violate)
  MC_Aud_fam    IPv6 + IPv4 clients, ceilings and floors left UNSET, /24../64 scopes     floor6from4      -> ScopedAudience
  MC_Aud_cd     CD in {0,1} x upstream CD bit echo/clear/set, forwarder dnssec = on      cdUnpinned       -> CdPartition
  MC_Aud_cdoff  the same with dnssec = off (CD=1 goes upstream, the pin is the old code)  -
  MC_Aud_allow  client_networks = 98.51.0.0/16, IPv4 peers reported 4-byte / IPv4-mapped  cacheSeesMapped  -> ScopedAudience
  (Sim_Aud_cdfo: MC_Aud_cd without ECS, replayed with the forwarder's upstream answering SERVFAIL and a fallbackserver
   -- middleware/failover, the other place that pins the response CD bit -- fetching the answer)

spec -> code: Sim_Aud_* behaviours are replayed (harness/x03au) on the real default chain up to failover followed by the
real forwarder, against a scripted loopback upstream that records the subnet it receives, returns the SCOPE and leaves the
CD bit the behaviour chose; queries enter through Server.ServeMsg or wire-born through Server.ServeRaw.  Every reply served
from the cache is judged from the provenance in its rdata (cd-partition, scoped-audience); hit/miss differences are drift.
"""
import ipaddress
import json
import re
from concurrent.futures import ThreadPoolExecutor

import vf

MOD = "EcsAud"
SPEC = "MC_EcsAud.tla"

# client id -> address; must equal AudAddr of tla/Ecs/MC_EcsAud.tla (compared with the table TLC prints)
AUD_ADDRS = {1: "98.51.100.10", 2: "98.51.100.200", 3: "98.51.101.5", 4: "98.77.0.1",
             5: "2001:db8:1:100::10", 6: "2001:db8:1:1ff::20", 7: "2001:db8:1:200::30", 8: "2001:db8:2:100::40",
             9: "2001:e00::50", 10: "32.1.13.184"}

# group -> the policy / mode constants of its cfg files (re-read from the cfg, see cfg_constants) and the mutant twin
GROUPS = {
    "fam": {"mutant": ("MC_Aud_fam_mutant.cfg", "ScopedAudience")},
    "cd": {"mutant": ("MC_Aud_cd_mutant.cfg", "CdPartition")},
    "cdoff": {"mutant": None},
    # harness path dimension only: the forwarder's upstream SERVFAILs and a fallbackserver (middleware/failover, the other
    # place that pins the response CD bit) fetches the answer; failover sends no client subnet, hence SentBits = {0}
    "cdfo": {"mutant": None},
    "allow": {"mutant": ("MC_Aud_allow_mutant.cfg", "ScopedAudience")},
}
DEEP = ("cd", "allow")   # thorough: MC_Aud_<name>_deep.cfg (MaxSteps 5 / 4) + _deep_mutant.cfg
ALLOW_NETS = {"AudAllow": ["98.51.0.0/16"]}
CLIENT_SETS = {"AudFamClients": [5, 6, 7, 8, 9, 10], "AudCdClients": [1, 2, 5], "AudAllowClients": [1, 2, 3, 4, 5]}


def cfg_constants(ctx, cfg):
    """The constants of a cfg file, so that the harness is configured from the very file TLC read."""
    d = ctx.spec_dir(MOD)
    out = {}
    with open("%s/%s" % (d, cfg)) as f:
        for line in f:
            m = re.match(r"\s+(\w+)\s*(=|<-)\s*(.+?)\s*$", line)
            if m:
                out[m.group(1)] = m.group(3)
    return out


def group_input(ctx, name):
    c = cfg_constants(ctx, "Sim_Aud_%s.cfg" % name)
    ints = lambda s: [int(x) for x in re.findall(r"\d+", s)]
    clients = CLIENT_SETS[c["Clients"]]
    mapped = set(ints(c["Mapped"]))
    allow = [] if c["Allow"] == "{}" else ALLOW_NETS[c["Allow"]]
    return {"name": name, "enabled": c["Enabled"] == "TRUE", "fwd4": int(c["FwdMax"]), "floor4": int(c["Floor"]),
            "fwd6": int(c["Fwd6Max"]), "floor6": int(c["Floor6"]), "allow": allow, "dnssec": c["Dnssec"] == "TRUE", "failover": name == "cdfo",
            "clients": {str(i): {"addr": AUD_ADDRS[i], "mapped": i in mapped} for i in clients}}


def check_addr_table(out):
    """AUD_ADDRS == AudAddr (the harness must use the addresses the model reasons about)."""
    m = re.search(r'<<\s*"ECSAUDADDR"', out)
    i = m.start() if m else -1
    if i < 0:
        raise vf.MachineryError("MC_EcsAud did not print its address table")
    v = vf.unset(vf.parse_tla_value(out[i:]))
    tab = v[1]
    items = {str(k + 1): x for k, x in enumerate(tab)} if isinstance(tab, list) else {str(k): x for k, x in tab.items()}
    if len(items) != len(AUD_ADDRS):
        raise vf.MachineryError("AudAddr has %d clients, AUD_ADDRS %d" % (len(items), len(AUD_ADDRS)))
    for cid, a in AUD_ADDRS.items():
        ip = ipaddress.ip_address(a)
        w = 32 if ip.version == 4 else 128
        want = [(int(ip) >> (w - 1 - k)) & 1 for k in range(w)]
        if items.get(str(cid)) != want:
            raise vf.MachineryError("AudAddr[%d] of MC_EcsAud.tla is not %s" % (cid, a))


def behaviours(ctx, name, num, depth=7):
    behs = ctx.tlc_behaviours(MOD, SPEC, "Sim_Aud_%s.cfg" % name, num=num, depth=depth)
    out, seen = [], set()
    for b in behs:
        steps = []
        for lab, st in b[1:]:
            if not lab.startswith("Query("):
                raise vf.MachineryError("unexpected label " + lab)
            la = st["last"]
            steps.append({"c": int(la["c"]), "sent": int(la["sent"]), "scope": int(la["scope"]), "cd": bool(la["cd"]),
                          "up": la["up"], "expHit": la["kind"] == "hit"})
        k = json.dumps(steps)
        if steps and k not in seen:
            seen.add(k)
            out.append({"steps": steps})
            ctx._distinct.add("aud:%s:%s" % (name, k))
    return out


REQUIRED = ["aud_primary_servfail_then_fallback", "aud_hit_scoped", "aud_hit_shared", "aud_ecs_forwarded_v6", "aud_route_msg", "aud_route_raw", "aud_wire_born",
            "aud_upstream_cd_differs_from_client"]


def run_tier(ctx):
    thorough = ctx.tier == "thorough"
    ctx.cov["rule"] = (ctx.cov.get("rule", "") + " | X03AU: behaviours = TLC-simulated runs of Ecs.tla (clients of both families x ECS "
                       "source lengths x authority scopes x CD x upstream CD bit) replayed in forwarder mode against a scripted "
                       "upstream; every cache hit judged from the provenance in its rdata").strip(" |")
    ctx.assumptions += [
        "X03AU: forwarder mode (default chain up to failover + the real forwarder; the resolver, which the real chain skips per "
        "query when forwarders are configured, is not constructed); one scripted UDP upstream on loopback",
        "X03AU: scoped-audience is judged against min(authority scope, forwarded source, configured floor); an unset floor is "
        "the forwarding ceiling of the same family (24 / 56 when unset), as config.ECSConfig and ecs.Policy document",
        "X03AU: 'obtained for a CD=x question' refers to the CLIENT's question (with dnssec off the forwarder asks every "
        "upstream question with CD=1)",
    ]
    n_mc = {"fam": "MC_Aud_fam.cfg", "cd": "MC_Aud_cd.cfg", "cdoff": "MC_Aud_cdoff.cfg", "allow": "MC_Aud_allow.cfg"}
    num = 220 if not thorough else 3000
    ctx.spec_dir(MOD)
    results = {}

    def mc(name):
        r = ctx.tlc(MOD, SPEC, n_mc[name], workers=2, timeout=900, heap="4g")
        if name == "fam":
            check_addr_table(r.out)
        if thorough and name in DEEP:        # longer histories, with their own negative twin
            ctx.tlc(MOD, SPEC, "MC_Aud_%s_deep.cfg" % name, workers=4, timeout=1500, heap="6g")
            neg(name, "MC_Aud_%s_deep_mutant.cfg" % name)

    def neg(name, cfg=None):
        cfg, want = cfg or GROUPS[name]["mutant"][0], GROUPS[name]["mutant"][1]
        r = ctx.tlc(MOD, SPEC, cfg, workers=1, timeout=300, heap="2g", must_pass=False, count=False, tag="must-fail")
        if r.violated != want:
            raise vf.MachineryError("%s: expected %s to fail, got %r" % (cfg, want, r.violated))

    def sim(name):
        results[name] = behaviours(ctx, name, num)

    jobs = [(mc, n) for n in n_mc] + [(neg, n) for n in GROUPS if GROUPS[n]["mutant"]] + [(sim, n) for n in GROUPS]
    with ThreadPoolExecutor(max_workers=6) as ex:
        for f in [ex.submit(fn, n) for fn, n in jobs]:
            f.result()
    groups = []
    for name in GROUPS:
        g = group_input(ctx, name)
        g["behaviours"] = results[name]
        if len(results[name]) < 40:
            raise vf.MachineryError("Sim_Aud_%s produced only %d distinct behaviours" % (name, len(results[name])))
        groups.append(g)
    res = ctx.go_driver("./x03au", "TestAudienceReplay", {"groups": groups}, name="audience", timeout=900)
    ctx.take_driver_result(res, "[audience] ")
    c = res.get("counters", {})
    ctx.cov["replay"]["audience"] = {"behaviours": sum(len(g["behaviours"]) for g in groups), "cases": res["cases"],
                                     "drift": res["drift"], "drift_notes": res.get("drift_notes", [])[:5], "counters": c}
    if res.get("skipped"):
        raise vf.MachineryError("audience replay skipped: %s" % res["skipped"][:3])
    if res.get("violations"):
        return
    missing = [k for k in REQUIRED if not c.get(k)]
    if missing:
        raise vf.MachineryError("vacuous audience replay: never saw %s (%s)" % (missing, c))
    drift = sum(v for k, v in c.items() if k.startswith("aud_drift_"))
    if drift > c.get("aud_behaviours", 0) // 4 or c.get("aud_no_reply", 0) > 5:
        raise vf.MachineryError("audience replay lost the model (%d of %d behaviours diverged, %d unanswered): %s" % (
            drift, c.get("aud_behaviours", 0), c.get("aud_no_reply", 0), res.get("drift_notes", [])[:3]))


def replay_case(ctx, rp):
    """Re-run exactly the recorded behaviour (routes included) of a recorded violation."""
    g = dict(rp["group"])
    g["behaviours"] = [rp["behaviour"]]
    res = ctx.go_driver("./x03au", "TestAudienceReplay", {"groups": [g]}, name="audience_replay", timeout=300)
    ctx.take_driver_result(res, "[audience replay] ")
    ctx.cov["states"] = max(1, ctx.cov["states"])
    ctx.cov["transitions"] = max(1, ctx.cov["transitions"])
    ctx.cov["replay"]["audience_replayed"] = {"cases": res["cases"], "counters": res.get("counters", {})}
    ctx._distinct.update(["audience-replay", "audience-replay:%s" % g.get("name")])


def run(ctx, replay_path):
    if replay_path:
        with open(replay_path) as f:
            rec = json.load(f)
        rp = rec.get("replay", rec)
        if rp.get("driver") != "audience":
            raise vf.MachineryError("replay file %s does not hold an audience case" % replay_path)
        return replay_case(ctx, rp)
    run_tier(ctx)
