"""X06FE -- the DoH and DoQ front ends (an extension module under C06 / C10).

FrontEnd.tla   server/doq (handleConnection / handleStream / ResponseWriter), Server.ServeHTTP, server/doh
               (HandleWireFormat / HandleJSON), the written-once base writer, the part of the chain that decides
               what is written (serveMsgBy's FORMERR, edns' NOTIMP / BADVERS and shaping, recovery's SERVFAIL),
               k concurrent exchanges on shared connections, DoQ's connection-wide DOQ_PROTOCOL_ERROR.
  - TLC exhaustive: every interleaving of the per-exchange steps of 2-3 concurrent exchanges on 1-2 connections,
    liveness under fairness, nine mutant configs that must each violate their invariant, and the pair of configs
    about responses (QR=1): the ServeMsg entry has no gate for them -- MC_QrFinding reproduces that, MC_QrGated holds.
  - spec -> code (harness/x06fe TestReplay): every edge of a small gated state graph + TLC-simulated schedules from
    eleven request menus, replayed on the real server.Server with its DoH (HTTP/1.1, HTTP/2), DoH3 and DoQ listeners
    on loopback: a `start` runs one exchange to its park point (the gated scripted tail) or to its end, a `release`
    opens the gate -- TLC chooses which exchanges overlap and in which order they complete.  After every step the
    projection (parked exchanges, connections closed by the server, what each finished exchange received) is
    compared with the model (drift); every exchange is judged by the predicates on the bytes it received (violation).
  - code -> spec (TestStress): free-running concurrent exchanges; the recorded history is validated by TLC against
    Trace_FrontEnd.tla, whose Obs* invariants are the predicates on what the clients observed.

Verdict classes.  `c06/*`: the reply contract of the C06 statement.  `c10/*`: one reply per exchange, on the exchange
whose query it answers.  `fe/*`: the module's own framing properties (a refused stream / body draws the documented
error and never a DNS reply, Cache-Control within the smallest TTL, the JSON rendering); with X06FE_STATEMENT_ONLY=1
the `fe/*` class is reported as drift.  Observation `qr-answered`: a message with QR=1 sent over DoH / DoQ is answered
like a query.  The C06 statement speaks of "the datagram and stream listeners" there, whose header gate
(server/udp_engine.go acceptHeader) the ServeMsg entry does not pass through; it is counted and reported, and becomes
a violation only with X06FE_QR_STRICT=1.
"""
import glob
import json
import os
import random
import re
import threading

import vf

MOD = "FrontEnd"
SPEC = "MC_FrontEnd.tla"
STATEMENT_ONLY = os.environ.get("X06FE_STATEMENT_ONLY", "") not in ("", "0")
QR_STRICT = os.environ.get("X06FE_QR_STRICT", "") not in ("", "0")
# set by a property check that runs this tier for ITS statement: only verdict classes with these prefixes are
# violations there (("c06/",) under C06, ("c10/",) under C10); the others are logged as drift and left to the
# property they belong to.  None = standalone (every class counts).
ONLY = None
OBS_CLASS = {"ObsAtMostOneReply": "c10/", "ObsReplyIsOwn": "c10/", "ObsIdRule": "c06/", "ObsNegotiated": "c06/",
             "ObsGarbageNeverAnswered": "fe/"}


def counts(key):
    if STATEMENT_ONLY and key.startswith("fe/"):
        return False
    return ONLY is None or any(key.startswith(p) for p in ONLY)

INV = ["TypeOK", "AtMostOneReply", "OneHttpResponse", "ReplyIsOwn", "ExactlyOneWhenServed", "SilentStaysSilent",
       "PanicAheadIsReset", "GarbageNeverAnswered", "DocumentedRejection", "IdRule", "EchoRule", "NegotiatedOnly",
       "NeverTruncated", "LargeArrivesWhole", "NoKeepalive", "FirstReplyStands"]

NEGATIVES = [("MC_NegWrongStream.cfg", "ReplyIsOwn"), ("MC_NegKeepId.cfg", "IdRule"), ("MC_NegSecondWrite.cfg", "AtMostOneReply"),
             ("MC_NegPrefix.cfg", "GarbageNeverAnswered"), ("MC_QrFinding.cfg", "ResponsesNeverAnswered"),
             ("MC_NegSecondWriteDoh.cfg", "FirstReplyStands"), ("MC_NegUdpClamp.cfg", "NeverTruncated"),
             ("MC_NegKeepalive.cfg", "NoKeepalive"), ("MC_NegReflect.cfg", "NegotiatedOnly"), ("MC_NegStale.cfg", "ReplyIsOwn")]

SIMS = ["DoqA", "DoqB", "DoqC", "DoqD", "DohA", "DohB", "DohC", "DohD", "DohE", "MixA", "MixB"]
LAYOUTS = {"TwoDoq": {"1": "doq", "2": "doq"}, "H2H3H1": {"1": "h2", "2": "h3", "3": "h1"},
           "AllFour": {"1": "doq", "2": "h2", "3": "h3", "4": "h1"}, "DoqAndH2": {"1": "doq", "2": "h2"},
           "OneDoq": {"1": "doq"}, "OneH2": {"1": "h2"}, "H2AndH3": {"1": "h2", "2": "h3"}, "H1": {"1": "h1"}}
ENV_ACTIONS = ("StartReq", "TailRun", "Redial")
PLAIN_VARIANTS = ["plain", "plain", "ecs", "cookie", "pad", "nsid", "small"]


# ---------------------------------------------------------------------------------------------------
# TLC output -> driver steps
# ---------------------------------------------------------------------------------------------------
def layout_of(cfg):
    text = open(os.path.join(vf.VERIF, "tla", MOD, cfg)).read()
    return LAYOUTS[re.search(r"TrOf <- (\w+)", text).group(1)]


def label_head(lab):
    """('StartReq', [1, 4]) from 'StartReq(1,4,[form |-> ...])'; the request itself is read from the state."""
    m = re.match(r"\s*(\w+)(?:\((\d+)(?:\s*,\s*(\d+))?)?", lab)
    return m.group(1), [int(x) for x in m.groups()[1:] if x is not None]


def seq(v):
    """A TLA function over 1..n parsed as a list (or a dict keyed by number)."""
    if isinstance(v, dict):
        return [v[k] for k in sorted(v, key=lambda x: int(x))]
    return v


def quiet(st):
    return all(p in ("free", "parked", "done") for p in seq(st["pc"]))


def projection(st):
    pc = seq(st["pc"])
    out = seq(st["out"])
    conn = seq(st["conn"])
    return {"parked": [i + 1 for i, p in enumerate(pc) if p == "parked"],
            "closed": [i + 1 for i, c in enumerate(conn) if not c["open"]],
            "out": {str(i + 1): [dict(it) for it in out[i]] for i, p in enumerate(pc) if p != "free"}}


def xspec_of(r, rng):
    """One byte-level variant of the abstract request."""
    x = {"form": r["form"], "mal": "" if r["mal"] == "none" else r["mal"], "kind": r["kind"], "idnz": bool(r["idnz"]),
         "edns": r["edns"], "ad": bool(r["ad"]), "cd": bool(r["cd"])}
    if x["edns"] == "plain" and r["form"] != "json":
        x["edns"] = rng.choice(PLAIN_VARIANTS)
    x["qtype"] = "TXT" if r["kind"] == "bg" else rng.choice(["A", "TXT"])
    return x


def steps_of(walk, rng):
    """walk = [(label, state)] with walk[0] the initial state; the env actions become driver steps whose `post` is the
    model's state at the next quiet point (Atomic = "gate": nothing else can move in between)."""
    steps, i = [], 1
    while i < len(walk):
        lab, st = walk[i]
        name, a = label_head(lab)
        if name not in ENV_ACTIONS:
            raise vf.MachineryError("gated behaviour: internal step %s while nothing is running" % lab)
        j = i
        while not quiet(walk[j][1]):
            j += 1
            if j >= len(walk):
                return steps  # the walk ends inside a macro step
            n2, _ = label_head(walk[j][0])
            if n2 in ENV_ACTIONS:
                raise vf.MachineryError("gated behaviour: %s interleaves a running exchange" % walk[j][0])
        post = projection(walk[j][1])
        if name == "StartReq":
            e, c = a
            r = seq(walk[i][1]["req"])[e - 1]
            steps.append({"op": "start", "e": e, "c": c, "x": xspec_of(r, rng), "label": "Start(%d,%d,%s/%s/%s/%s)" % (
                e, c, r["form"], r["mal"], r["kind"], r["edns"]), "post": post})
        elif name == "TailRun":
            steps.append({"op": "release", "e": a[0], "label": "Release(%d)" % a[0], "post": post})
        else:
            steps.append({"op": "redial", "c": a[0], "label": "Redial(%d)" % a[0], "post": post})
        i = j + 1
    return steps


STATE_RE = re.compile(r"\\\* <(.*?) line \d+, col \d+ to line \d+, col \d+ of module \w+>\s*\nSTATE_\d+ ==\s*\n(.*?)(?=\n\n|\Z)", re.S)


def simulate(ctx, cfg, num, depth):
    d = ctx.spec_dir(MOD)
    pref = os.path.join(d, "sim_%s_%d" % (cfg.replace(".cfg", ""), threading.get_ident() % 100000))
    r = ctx.tlc(MOD, SPEC, cfg, workers=1, timeout=300, heap="2g",
                args=["-simulate", "file=%s,num=%d" % (pref, num), "-depth", str(depth), "-seed", str(ctx.seed)],
                must_pass=False, tag="simulate", count=False)
    if r.rc != 0:
        raise vf.MachineryError("TLC simulate failed on %s rc=%d\n%s" % (cfg, r.rc, "\n".join(r.out.splitlines()[-30:])))
    walks = []
    for path in sorted(glob.glob(pref + "_*")):
        with open(path) as f:
            text = f.read()
        os.remove(path)
        walks.append([(m.group(1).strip(), vf.parse_tla_state(m.group(2))) for m in STATE_RE.finditer(text)])
    return walks


def graph_walks(ctx, cfg, max_len):
    """Exhaustive run of a gated config with the labelled state graph.  Every env action from a quiet state, followed
    through the (deterministic) internal steps to the next quiet state, is one macro edge; a path set covering every
    macro edge comes back as walks."""
    r, nodes, edges, inits = ctx.tlc_graph(MOD, SPEC, cfg, workers=2, timeout=600, heap="3g", tag="graph")
    outs = {}
    for e in edges:
        outs.setdefault(e[0], []).append(e)
    macro, info = [], {}
    for u in nodes:
        if not quiet(nodes[u]):
            continue
        for (_, v, lab) in outs.get(u, []):
            lab = lab.replace('\\"', '"')
            chain = [(lab, nodes[v])]
            w, hops = v, 0
            while not quiet(nodes[w]):
                nxt = outs.get(w, [])
                if len(nxt) != 1:
                    raise vf.MachineryError("graph %s: a running exchange has %d successors" % (cfg, len(nxt)))
                chain.append((nxt[0][2].replace('\\"', '"'), nodes[nxt[0][1]]))
                w = nxt[0][1]
                hops += 1
                if hops > 30:
                    raise vf.MachineryError("graph %s: an exchange does not come to rest" % cfg)
            k = str(len(macro))
            macro.append((u, w, k))
            info[k] = chain
    paths = vf.cover_paths(nodes, macro, inits, max_len)
    walks = []
    for path in paths:
        walk = [("Init", nodes[path[0][0]])]
        for (_, _, k) in path:
            walk.extend(info[k])
        walks.append(walk)
    return r, walks, len(macro)


def behaviours_from(walks, cfg, name, rng):
    lay = layout_of(cfg)
    out = []
    for k, w in enumerate(walks):
        steps = steps_of(w, rng)
        if steps:
            out.append({"name": "%s-%d" % (name, k), "conns": lay, "steps": steps})
    return out


def dedup(behs):
    seen, out = set(), []
    for b in behs:
        key = b["conns"].get("1", "") + ";".join(s["label"] for s in b["steps"])
        if key in seen:
            continue
        seen.add(key)
        out.append(b)
    return out


def parallel(jobs, width=4):
    results, errs = [None] * len(jobs), []
    sem = threading.Semaphore(width)

    def run(i, f):
        with sem:
            if errs:
                return
            try:
                results[i] = f()
            except BaseException as ex:  # noqa: BLE001
                errs.append(ex)

    ts = [threading.Thread(target=run, args=(i, f)) for i, f in enumerate(jobs)]
    for t in ts:
        t.start()
    for t in ts:
        t.join()
    if errs:
        raise errs[0]
    return results


# ---------------------------------------------------------------------------------------------------
def fold(ctx, res, prefix):
    """take_driver_result with the verdict classes applied."""
    keep = []
    for v in res.get("violations", []):
        if not counts(v.get("key", "")):
            ctx.cov["drift"] += 1
            ctx.log("DRIFT (class %s is not this check's to judge): %s" % (v.get("key", "").split("/")[0], v.get("what")))
        else:
            keep.append(v)
    res["violations"] = keep
    ctx.take_driver_result(res, prefix)
    for n in res.get("drift_notes", [])[:6]:
        ctx.log("DRIFT: " + n)


def tlc_jobs(ctx, thorough, rng):
    quick = [("MC_Doq2Q.cfg", 1), ("MC_Doh2Q.cfg", 1)]
    full = [("MC_Doq3.cfg", 3), ("MC_DoqDns2.cfg", 1), ("MC_DoqTwoConn3.cfg", 4), ("MC_Doh3.cfg", 4), ("MC_DohDns2.cfg", 1),
            ("MC_H1x3.cfg", 1), ("MC_Mixed3.cfg", 2), ("MC_QrGated.cfg", 1)]
    lives = [("MC_Live.cfg", 1)] + ([("MC_LiveDoq3.cfg", 2)] if thorough else [])
    negatives = NEGATIVES if thorough else NEGATIVES[:5]
    graphs = [("MC_GateDoq.cfg", 10), ("MC_Gate.cfg", 10)] if thorough else [("MC_GateQ.cfg", 8)]
    num = 200 if thorough else 9

    def neg(cfg, inv):
        r = ctx.tlc(MOD, SPEC, cfg, workers=1, timeout=300, heap="2g", must_pass=False, tag="negative", count=False)
        if r.violated != inv:
            raise vf.MachineryError("negative config %s did not violate %s (got %s)" % (cfg, inv, r.violated))

    def pos(cfg, w):
        cover = thorough and cfg == "MC_Mixed3.cfg"
        r = ctx.tlc(MOD, SPEC, cfg, workers=w, timeout=900, heap="6g", tag="exhaustive", args=["-coverage", "1"] if cover else [])
        if cover:
            acts = {"StartReq", "Redial", "AcceptStream", "ReadAll", "CheckFrame", "Unpack", "NewDoqWriter", "CloseStream",
                    "ServeHTTP", "DecodeWire", "UnpackWire", "Respond", "ServeMsg", "TailRun"}
            zero = [a for a in r.zero_coverage() if a in acts]
            if zero:
                raise vf.MachineryError("FrontEnd actions never taken in %s: %s" % (cfg, zero))

    def live(cfg, w):
        ctx.tlc(MOD, SPEC, cfg, workers=w, timeout=900, heap="4g", tag="liveness")

    def sim(name):
        cfg = "Sim_%s.cfg" % name
        return behaviours_from(simulate(ctx, cfg, num, 60), cfg, name, rng)

    def graph(cfg, max_len):
        r, walks, nmacro = graph_walks(ctx, cfg, max_len)
        behs = behaviours_from(walks, cfg, cfg[3:-4], rng)
        ctx.cov["replay"]["graph_" + cfg[3:-4]] = {"states": r.distinct, "macro_edges": nmacro, "paths": len(behs)}
        return behs

    jobs = [(lambda c=c, m=m: graph(c, m)) for c, m in graphs]
    jobs += [(lambda s=s: sim(s)) for s in SIMS]
    nbeh = len(jobs)
    jobs += [(lambda c=c, w=w: pos(c, w)) for c, w in (quick + full if thorough else quick)]
    jobs += [(lambda c=c, w=w: live(c, w)) for c, w in lives]
    jobs += [(lambda c=c, i=i: neg(c, i)) for c, i in negatives]
    return jobs, nbeh


NEED = ["doq/a", "doq/st", "doq/dw", "doq/two-msgs", "doq/garbage", "doq/short", "doq/qr", "doq/opcode", "doq/qd0", "doq/badvers",
        "doq/bg", "doq/sg", "doq/op", "doq/pt", "doq/hit", "doq/trailing", "doq/oversize", "doq/len-long",
        "doh/a", "doh/st", "doh/dw", "doh/ph", "doh/pt", "doh/bg", "doh/sg", "doh/op", "doh/hit", "doh/qr", "doh/opcode",
        "doh/qd0", "doh/badvers", "doh/garbage", "doh/ctype", "doh/b64-pad", "doh/method", "doh/two-msgs", "doh/json-badtype",
        "doh/json-post", "doh/short", "doh/oversize", "json/sg/do", "json/sg/nodo", "json/st/nodo", "json/pt/nodo"]


def classes_of(b):
    out = set()
    for s in b["steps"]:
        if s["op"] == "start":
            tr = b["conns"][str(s["c"])]
            x = s["x"]
            out.add(("doq" if tr == "doq" else "doh") + "/" + (x["mal"] or x["kind"]))
            if x["form"] == "json" and not x["mal"]:
                out.add("json/%s/%s" % (x["kind"], "do" if x["edns"] in ("do", "all") else "nodo"))
    return out


def replay_input(groups, thorough, rng, cap):
    behs = dedup([b for g in groups for b in g])
    if len(behs) > cap:
        # the whole edge cover, then schedules that bring a request class not yet present, then a seeded sample
        keep = [b for b in behs if b["name"].startswith("Gate")]
        rest = [b for b in behs if not b["name"].startswith("Gate")]
        rng.shuffle(rest)
        have = set().union(*[classes_of(b) for b in keep]) if keep else set()
        later = []
        for b in rest:
            new = classes_of(b) - have
            if new:
                keep.append(b)
                have |= new
            else:
                later.append(b)
        behs = keep + later[:max(0, cap - len(keep))]
    nex = sum(1 for b in behs for s in b["steps"] if s["op"] == "start")
    nrel = sum(1 for b in behs for s in b["steps"] if s["op"] == "release")
    over = sum(1 for b in behs for s in b["steps"] if s["op"] == "start" and len(s["post"]["parked"]) >= 2)
    kills = sum(1 for b in behs for s in b["steps"] if s["op"] == "start" and s["post"]["closed"] and s["post"]["parked"])
    if len(behs) < 30 or nex < 100 or nrel < 40 or over < 10 or kills < 2:
        raise vf.MachineryError("replay: %d behaviours, %d exchanges, %d releases, %d starts next to two parked exchanges, %d "
                                "connection closes under a parked exchange (vacuous)" % (len(behs), nex, nrel, over, kills))
    want = {}
    for b in behs:
        for k in classes_of(b):
            want[k] = want.get(k, 0) + 1
    miss = [k for k in NEED if not want.get(k)]
    if miss:
        raise vf.MachineryError("replay: no exchange of class %s among the behaviours (vacuous)" % miss)
    return behs, {"behaviours": len(behs), "exchanges": nex, "releases": nrel, "starts_beside_two_parked": over,
                  "closes_under_parked": kills, "behaviours_per_class": want}


def observations(ctx, cnt):
    qr = {k[len("obs_qr-answered_"):]: v for k, v in cnt.items() if k.startswith("obs_qr-answered_")}
    if not qr:
        return
    ctx.cov["replay"]["observation_qr_answered"] = qr
    what = ("a DNS message with QR=1 (a response) sent as a DoH body / on a DoQ stream is answered like a query (%s): "
            "Server.ServeMsg has no header gate; the datagram and stream engines drop such packets in acceptHeader. "
            "Model: MC_QrFinding (QrGate = FALSE, as the code) violates ResponsesNeverAnswered, MC_QrGated holds." % qr)
    if QR_STRICT and counts("fe/qr-answered"):
        ctx.violation("fe/qr-answered", what, {"driver": "replay", "exchange": {"form": "post|frame", "mal": "qr"}, "counts": qr})
    else:
        ctx.log("OBSERVATION: " + what + " Not ruled on by the C06 statement for these transports; reported, not a violation.")


def replay_verdict(ctx, info, res):
    cnt = {k[len("replay_"):]: v for k, v in res.get("counters", {}).items() if k.startswith("replay_")}
    n = info["behaviours"]
    info.update(counters=cnt)
    ctx.cov["replay"]["gated"] = info
    ctx.cov["replay"]["drift_notes"] = res.get("drift_notes", [])
    if res.get("violations"):
        return
    if res.get("skipped"):
        raise vf.MachineryError("replay driver skipped work: %s" % res["skipped"][:3])
    if cnt.get("stalled", 0) > max(2, n // 10):
        raise vf.MachineryError("replay: %d of %d behaviours stalled (machine too loaded for a verdict)" % (cnt.get("stalled", 0), n))
    if cnt.get("behaviours", 0) + cnt.get("stalled", 0) != n:
        raise vf.MachineryError("replay ran %d of %d behaviours" % (cnt.get("behaviours", 0), n))
    if cnt.get("replies", 0) < 50 or not cnt.get("doq") or not cnt.get("h2") or not cnt.get("h3"):
        raise vf.MachineryError("replay: %d replies judged, transports %s (vacuous)" % (cnt.get("replies", 0), cnt))
    if res.get("counters", {}).get("tail_second_refused", 0) < 1:
        raise vf.MachineryError("replay: the second write of the `dw` tail was never attempted (vacuous)")
    if cnt.get("drifted", 0) > n // 3:
        raise vf.MachineryError("replay: %d of %d behaviours drifted from the model -- FrontEnd.tla no longer describes this tree "
                                "(no predicate failed)" % (cnt.get("drifted", 0), n))


def stress(ctx, thorough):
    rounds = 6 if not thorough else 120
    trace = os.path.join(ctx.scratch, "stress.ndjson")
    res = ctx.go_driver("./x06fe", "TestStress", {"rounds": rounds, "perRound": 5, "traceOut": trace}, name="stress", timeout=900)
    cnt = res.get("counters", {})
    info = {k[len("stress_"):]: v for k, v in cnt.items() if k.startswith("stress_")}
    out = {"res": res, "info": info, "trace": trace, "verdict": None}
    if res.get("violations"):
        return out
    if res.get("skipped"):
        raise vf.MachineryError("stress could not run: %s" % res["skipped"][:3])
    if info.get("rounds", 0) < max(3, rounds // 2):
        raise vf.MachineryError("stress: only %d of %d rounds were recorded (machine too loaded)" % (info.get("rounds", 0), rounds))
    if info.get("replies", 0) < 10:
        raise vf.MachineryError("stress: %d replies (vacuous)" % info.get("replies", 0))
    ok, r = ctx.tlc_trace(MOD, "Trace_FrontEnd.tla", "Trace_Free.cfg", trace, timeout=900)
    if ok:
        info["trace_states"] = r.distinct
        out["verdict"] = "accepted"
    elif r.violated and r.violated.startswith("Obs"):
        out["verdict"] = "invariant:" + r.violated
        return out
    else:
        out["verdict"] = "rejected"
        info["matched_lines"] = max(0, r.depth - 1)
        info["trace_rejected_tail"] = r.out.splitlines()[-12:]
        return out
    if not thorough:
        return out
    # binding (re-checked in the thorough tier): a corrupted history must be rejected, a corrupted observation must
    # fail its invariant
    lines = [json.loads(x) for x in open(trace)]
    how = None
    for ln in lines:
        if ln.get("ev") == "recv" and ln["got"] and ln["got"][0].get("t") == "status":
            ln["got"] = [{"t": "fin"}]
            how = "a status reported as an empty stream"
            break
    if how is None:
        raise vf.MachineryError("tamper test: nothing to corrupt in the recorded history")
    bad = os.path.join(ctx.scratch, "stress_tampered.ndjson")
    with open(bad, "w") as f:
        for ln in lines:
            f.write(json.dumps(ln) + "\n")
    okb, rb = ctx.tlc_trace(MOD, "Trace_FrontEnd.tla", "Trace_Free.cfg", bad, timeout=900)
    if okb:
        raise vf.MachineryError("tamper test: Trace_FrontEnd accepted a history with %s (binding lost)" % how)
    lines = [json.loads(x) for x in open(trace)]
    hit = False
    for ln in lines:
        if ln.get("ev") == "recv" and ln["got"] and ln["got"][0].get("t") == "dns" and not hit:
            ln["got"][0]["from"] = ln["got"][0]["from"] % 5 + 1
            hit = True
    bad2 = os.path.join(ctx.scratch, "stress_tampered2.ndjson")
    with open(bad2, "w") as f:
        for ln in lines:
            f.write(json.dumps(ln) + "\n")
    okc, rc = ctx.tlc_trace(MOD, "Trace_FrontEnd.tla", "Trace_Free.cfg", bad2, timeout=900)
    if not hit or okc or rc.violated != "ObsReplyIsOwn":
        raise vf.MachineryError("tamper test: a reply attributed to another exchange did not fail ObsReplyIsOwn (got %s)" % rc.violated)
    info["tamper_rejected"] = [how, "a reply attributed to another exchange fails ObsReplyIsOwn"]
    return out


def stress_verdict(ctx, out):
    res, info = out["res"], out["info"]
    fold(ctx, res, "[concurrent stress] ")
    ctx.cov["replay"]["stress"] = info
    v = out["verdict"]
    if v == "accepted":
        ctx.cov["traces_validated_against_impl"] += info.get("rounds", 0)
    elif v and v.startswith("invariant:") and not counts(OBS_CLASS.get(v[10:], "fe/")):
        ctx.cov["drift"] += 1
        ctx.log("DRIFT (not this check's to judge): invariant %s is false on a recorded concurrent history" % v[10:])
    elif v and v.startswith("invariant:"):
        ctx.violation("stress/trace/" + v[10:],
                      "[concurrent stress] invariant %s is false on a recorded concurrent history of the real front ends" % v[10:],
                      {"driver": "stress", "trace": open(out["trace"]).read().splitlines()[:400]})
    elif v == "rejected":
        ctx.cov["drift"] += 1
        ctx.log("DRIFT: a recorded concurrent history (%d lines, %d matched) is not explained by FrontEnd.tla; no property "
                "predicate failed" % (info.get("trace_lines", 0), info.get("matched_lines", 0)))


def run_tier(ctx):
    thorough = ctx.tier == "thorough"
    rng = random.Random(ctx.seed * 7919 + 11)
    ctx.cov["rule"] = (ctx.cov["rule"] + " | " if ctx.cov.get("rule") else "") + ("X06FE: behaviours = TLC schedules of FrontEnd.tla (edge cover of gated graphs + simulation over eleven "
                       "request menus) replayed on the real DoH / DoH3 / DoQ listeners; distinct = (transport, form, malformed "
                       "kind, answer kind, EDNS class, outcome) classes of judged exchanges")
    ctx.assumptions += [
        "X06FE: the scripted tail stands in the resolver's place; the chain above it (recovery .. cache) is the real one",
        "X06FE: a schedule is forced only at the tail gate (which exchanges overlap, in which order they complete); the steps "
        "between the listener and the tail run freely and are covered by the free-running histories",
        "X06FE: a panic ahead of the recovery middleware is driven over DoH only (the DoQ stream goroutine has no guard: it "
        "would end the test process)",
        "X06FE: client-side cancellation of an exchange is not driven",
    ]
    ctx.harness_prepare()
    ctx.overlay_file()
    jobs, nbeh = tlc_jobs(ctx, thorough, rng)
    results = parallel([lambda: stress(ctx, thorough)] + jobs, width=4)
    sout, results = results[0], results[1:]
    ctx.cov["replay"]["finding_qr_model"] = (
        "MC_QrFinding: with the ServeMsg entry as it is (QrGate = FALSE) ResponsesNeverAnswered fails -- a QR=1 message is "
        "served like a query over DoH and DoQ; MC_QrGated (thorough) passes")
    stress_verdict(ctx, sout)
    observations(ctx, sout["res"].get("counters", {}))
    if ctx.violations:
        return
    behs, info = replay_input(results[:nbeh], thorough, rng, 100000 if thorough else 110)
    res = ctx.go_driver("./x06fe", "TestReplay", {"behaviours": behs}, name="replay", timeout=1500)
    fold(ctx, res, "[gated replay] ")
    replay_verdict(ctx, info, res)
    observations(ctx, res.get("counters", {}))


def run(ctx, replay_file):
    if replay_file:
        with open(replay_file) as f:
            rec = json.load(f)
        rp = rec.get("replay", rec)
        beh = rp.get("behaviour")
        if not beh:
            run_tier(ctx)  # recorded by the free-running driver: the generators are seeded, the tier is re-run
            return
        res = ctx.go_driver("./x06fe", "TestReplay", {"behaviours": [beh]}, name="replay_file", timeout=600)
        fold(ctx, res, "[replay] ")
        ctx.cov["states"] = max(1, ctx.cov["states"])
        ctx.cov["transitions"] = max(1, ctx.cov["transitions"])
        ctx.cov["replay"]["replayed_file"] = replay_file
        return
    run_tier(ctx)
