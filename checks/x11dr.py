"""X11DR -- shutdown and drain barriers, slab cache and TCP job tokens (serves C11: "after load stops the server
returns to quiescence with no stuck goroutines, held slabs or leaked limiter slots", and exactly one reply for what
a clean drain had admitted).

tla/Drain/Drain.tla      server.Run / superviseShutdown / Stopped / Quiesced; udpListener.Serve / Shutdown +
                         udpEngine (take, reader cycle, inline pass, enqueue, overflow, worker, burst, release,
                         stopAndDrain); tcpListener + tcpEngine (startAccepting, accept loop, register, serveConn,
                         acquire / put with the class swap, shutdown with the force phase)
  - TLC exhaustive (MC_*.cfg): the drain barrier is not passed while work is outstanding, Quiesced() is never true
    while a reply is owed, leased / inFlight / token accounting, nobody joins a WaitGroup that is being waited on,
    startAccepting refuses after the shutdown, Stopped() is sound and final; liveness (cancelled ~> Stopped and all
    home) under fairness (MC_live_*); ten negative configs, one guard off each (MC_neg_*).
  - spec -> code: behaviours of the SCHEDULED relation (Sched = TRUE: whatever the driver does not control runs
    first; steered so that the cancel falls mid-work and one party is let go last) are forced on the real
    server.Server on loopback (harness/x11dr/replay_test.go): the verif UDP trace hook is the gate of every ownership
    step, the handler at the end of the real default chain parks chosen queries, the clients / the cancel / the
    drain deadline are the driver's.  After every step the observable projection (leased, inFlight, idle, tokens,
    active, handlers in flight, Quiesced, Stopped, read deadline, sockets, listener) must reach the model's stable
    state (else drift); the predicates are evaluated on what the server did.
  - code -> spec: the events of the gated runs (both tiers) and of a free-running stress with the cancel at a
    random point of a concurrent UDP + TCP load (thorough tier; the quick tier judges those histories with the
    driver's direct predicates only) are validated by TLC against Trace_Drain.tla.
tla/Drain/SlabCache.tla  slab_cache.go (sharded get with the sweep, put, trim) behind the engines' admission counter:
    exhaustive + negatives; TLC call orders replayed on the real cache through the overlay's exported face; a
    concurrent stress with an ownership word per slab.  LiveWithinCap ("live slabs never exceed the admission cap",
    the contract slab_cache.go states) is NOT an invariant of the code as written -- MC_cache_livebound.cfg has the
    schedule, the stress reproduces it on the real cache; it is logged as an observation (no C11 predicate).

Quick tier: ~45 s on a quiet machine (14 short TLC runs + one go test run); thorough: ~8 min.
"""
import json
import os
import random

import vf

PID = "X11DR"
CTL_PREFIX = ("e", "g")


# ---------------------------------------------------------------------------
# model checking
QUICK_MC = [("MC_q_udp.cfg", 4), ("MC_q_inline.cfg", 4), ("MC_q_tcp.cfg", 4)]
THOROUGH_MC = QUICK_MC + [("MC_tcp_swap.cfg", 4), ("MC_udp_kinds.cfg", 4), ("MC_udp_overflow.cfg", 4), ("MC_udp_inline.cfg", 4),
                          ("MC_udp_trim.cfg", 4), ("MC_udp_early.cfg", 4), ("MC_udp_2readers.cfg", 4),
                          ("MC_tcp_two.cfg", 4), ("MC_tcp_cap.cfg", 4), ("MC_tcp_early.cfg", 4)]
LIVE = ["MC_live_udp.cfg", "MC_live_inline.cfg", "MC_live_tcp.cfg"]
NEG = {  # mutant -> invariants one of which must fail
    "noReaderJoin": {"NoPanic", "UdpBarrierSound", "NoLateJoin"},
    "noOverflowWait": {"UdpBarrierSound", "NoReplyAfterClose"},
    "noWorkerWait": {"UdpBarrierSound", "NoReplyAfterClose"},
    "countLate": {"QuiescedSound"},
    "closeFirst": {"NoReplyAfterClose"},
    "noClosingCheck": {"UdpBarrierSound", "StoppedSound"},
    "swapLeak": {"OneClassAtATime", "GoneHoldsNothing", "TokenConservation"},
    "exitLeak": {"GoneHoldsNothing", "TcpBarrierSound"},
    "noAcceptJoin": {"NoLateJoin", "TcpBarrierSound"},
    "noStoppedCheck": {"NoLateJoin"},
}
QUICK_NEG = ["swapLeak", "countLate"]


def model_check(ctx, thorough):
    for cfg, w in (THOROUGH_MC if thorough else QUICK_MC):
        ctx.tlc("Drain", "MC_Drain.tla", cfg, workers=w, timeout=1500, heap="6g", tag="exhaustive")
    for cfg in (LIVE if thorough else []):     # liveness: thorough tier
        ctx.tlc("Drain", "MC_Drain.tla", cfg, workers=2, timeout=900, heap="6g", tag="liveness")
    for m in (sorted(NEG) if thorough else QUICK_NEG):
        r = ctx.tlc("Drain", "MC_Drain.tla", "MC_neg_%s.cfg" % m, workers=2, timeout=600, heap="4g",
                    must_pass=False, tag="negative", count=False)
        if r.violated not in NEG[m]:
            raise vf.MachineryError("negative config %s: expected one of %s to fail, TLC says %r\n%s" % (
                m, sorted(NEG[m]), r.violated, "\n".join(r.out.splitlines()[-25:])))


# ---------------------------------------------------------------------------
# behaviours -> scenarios
def label_parts(lab):
    lab = lab.strip()
    if "(" not in lab:
        return lab, []
    name, rest = lab.split("(", 1)
    args = vf.unset(vf.parse_tla_value("<<" + rest[:rest.rindex(")")] + ">>"))
    return name.strip(), args


def fn(v, key, default=None):
    """A TLA+ function value as TLC prints it: record -> dict, function over 1..N -> list."""
    if isinstance(v, list):
        i = int(key) - 1
        return v[i] if 0 <= i < len(v) else default
    if isinstance(v, dict):
        return v.get(key, v.get(str(key), default))
    return default


def keys(v):
    if isinstance(v, list):
        return list(range(1, len(v) + 1))
    if isinstance(v, dict):
        return sorted(v.keys())
    return []


def sig(ev, frm="", to="", slab=0):
    return {"ev": ev, "from": frm, "to": to, "slab": int(slab or 0)}


def parked(st):
    out = []
    for r in keys(st["rpc"]):
        pc = fn(st["rpc"], r)
        cur = fn(st["rcur"], r)
        if pc == "gateArm":
            out.append(sig("trans", "free", "reading", cur))
        elif pc == "gateInl":
            out.append(sig("trans", "reading", "serving", cur))
        elif pc == "gateHand":
            out.append(sig("trans", "serving", "reading", cur))
        elif pc == "gateRelInl":
            out.append(sig("release", "serving", "free", cur))
        elif pc == "gateQ":
            out.append(sig("queued", slab=cur))
        elif pc == "gateOv":
            out.append(sig("overflow", slab=cur))
        elif pc == "stopping" and fn(st["rheld"], r):
            out.append(sig("release", "reading", "free", 0))
        elif pc == "rfrel":
            out.append(sig("release", "serving", "free", fn(st["rburst"], r)[0]))
    for w in keys(st["wpc"]):
        pc = fn(st["wpc"], w)
        if pc == "gateServe":
            out.append(sig("trans", "queued", "serving", fn(st["wcur"], w)))
        elif pc == "gateRel":
            out.append(sig("release", "serving", "free", fn(st["wcur"], w)))
        elif pc in ("wfrel", "mfrel"):
            out.append(sig("release", "serving", "free", fn(st["wburst"], w)[0]))
    for o in keys(st["opc"]):
        pc = fn(st["opc"], o)
        if pc == "spawned":
            out.append(sig("trans", "queued", "serving", fn(st["ocur"], o)))
        elif pc == "gateRel":
            out.append(sig("release", "serving", "free", fn(st["ocur"], o)))
    return out


def handlers(st):
    n = 0
    for w in keys(st["wpc"]):
        if fn(st["wpc"], w) == "serve" and fn(st["sk"], fn(st["wcur"], w)) == "miss":
            n += 1
    for o in keys(st["opc"]):
        if fn(st["opc"], o) == "serving" and fn(st["sk"], fn(st["ocur"], o)) == "miss":
            n += 1
    for c in keys(st["cpc"]):
        if fn(st["cpc"], c) == "serve":
            n += 1
    return n


def projection(st, consts):
    free = st["free"]
    closed = []
    for c in keys(st["cpc"]):
        pc = fn(st["cpc"], c)
        if pc in ("gone", "refused") or c in st["closed"] or c in st["forced"] or \
                (pc == "backlog" and not st["lnOpen"]):
            closed.append(c)
    return {
        "obs": {"leased": st["leased"], "inFlight": st["inFlight"], "idle": len(st["idle"]),
                "quiesced": st["inFlight"] == 0 and free["small"] == consts["small"] and free["large"] == consts["large"],
                "stopped": st["running"] == 0 and st["sup"] == "done",
                "smallFree": free["small"], "largeFree": free["large"], "active": st["active"],
                "handlers": handlers(st),
                "rdExpired": bool(st["cancelled"] and st["rdExpired"]),
                "sockClosed": bool(st["cancelled"] and not st["sockOpen"]),
                "lnClosed": bool(st["cancelled"] and not st["lnOpen"]),
                "tcpStopped": bool(st["cancelled"] and st["tstopped"])},
        "parked": parked(st), "closed": sorted(closed)}


GATE_OF = {
    "gArm": lambda st, a: sig("trans", "free", "reading", fn(st["rcur"], a)),
    "gInlineBegin": lambda st, a: sig("trans", "reading", "serving", fn(st["rcur"], a)),
    "gHandoff": lambda st, a: sig("trans", "serving", "reading", fn(st["rcur"], a)),
    "gInlineRel": lambda st, a: sig("release", "serving", "free", fn(st["rcur"], a)),
    "gEnqSend": lambda st, a: sig("queued", slab=fn(st["rcur"], a)),
    "gOvSpawn": lambda st, a: sig("overflow", slab=fn(st["rcur"], a)),
    "gStopRel": lambda st, a: sig("release", "reading", "free", 0),
    "gFlushRelR": lambda st, a: sig("release", "serving", "free", fn(st["rburst"], a)[0]),
    "gServeBeginW": lambda st, a: sig("trans", "queued", "serving", fn(st["wcur"], a)),
    "gRelW": lambda st, a: sig("release", "serving", "free", fn(st["wcur"], a)),
    "gFlushRelW": lambda st, a: sig("release", "serving", "free", fn(st["wburst"], a)[0]),
    "gServeBeginO": lambda st, a: sig("trans", "queued", "serving", fn(st["ocur"], a)),
    "gRelO": lambda st, a: sig("release", "serving", "free", fn(st["ocur"], a)),
}


def stop_tags(st):
    """Where in the load the cancel falls (the state it is taken in)."""
    tags = set()
    rp = [fn(st["rpc"], r) for r in keys(st["rpc"])]
    wp = [fn(st["wpc"], w) for w in keys(st["wpc"])]
    op = [fn(st["opc"], o) for o in keys(st["opc"])]
    cp = [fn(st["cpc"], c) for c in keys(st["cpc"])]
    if handlers(st) and ("serve" in wp or "serving" in op):
        tags.add("slowHandler")
    if st["ready"] or "gateServe" in wp:
        tags.add("queued")
    if any(p != "no" for p in op) or "gateOv" in rp:
        tags.add("overflow")
    if any(p in ("wfrel", "mfrel") for p in wp) or "rfrel" in rp or \
            any(fn(st["wburst"], w) for w in keys(st["wpc"])):
        tags.add("midBurst")
    if "gateArm" in rp:
        tags.add("readerTook")
    if "gateQ" in rp:
        tags.add("readerCounted")
    if any(p in ("gateInl", "gateHand", "gateRelInl") for p in rp):
        tags.add("inline")
    if "shed" in rp:
        tags.add("shedding")
    if "blocked" in cp:
        tags.add("tcpSilent")
    if "serve" in cp:
        tags.add("tcpHandler")
    if "waitTok" in cp:
        tags.add("tcpWaitTok")
    if st["inbox"]:
        tags.add("unread")
    if not tags:
        tags.add("idle")
    return tags


def scenario_of(beh, depth, consts, sid):
    """One TLC behaviour [(label, state)] -> the driver's steps (controlled actions with the stable
    state each must lead to), or None when it has none."""
    ctl = [i for i in range(1, len(beh)) if label_parts(beh[i][0])[0].startswith(CTL_PREFIX)
           and label_parts(beh[i][0])[0][1:2].isupper()]
    if not ctl:
        return None
    complete = len(beh) < depth          # ended because nothing was enabled any more
    steps, tags, names = [], set(), []
    for n, i in enumerate(ctl):
        name, args = label_parts(beh[i][0])
        pre = beh[i - 1][1]
        if n + 1 < len(ctl):
            post = beh[ctl[n + 1] - 1][1]
        elif complete:
            post = beh[-1][1]
        else:
            break
        if name == "eGiveUpPass":
            break
        s = {"a": name, "args": [], "slab": 0, "gate": None, "expect": projection(post, consts)}
        if name in GATE_OF:
            s["gate"] = GATE_OF[name](pre, args[0])
            s["slab"] = s["gate"]["slab"]
            if name == "gStopRel":
                s["slab"] = 0
        elif name == "eHandlerW":
            s["slab"] = fn(pre["wcur"], args[0])
        elif name == "eHandlerO":
            s["slab"] = fn(pre["ocur"], args[0])
        elif name == "eSendFrames":
            s["args"] = [args[0]] + list(args[1])
        else:
            s["args"] = [str(a) for a in args]
        if name == "eCancel":
            tags |= stop_tags(pre)
        if name == "eDeadlinePass":
            tags.add("deadline")
        if name == "eTrim":
            tags.add("trim")
        steps.append(s)
        names.append(beh[i][0])
    if not steps:
        return None
    if not any(s["a"] == "eCancel" for s in steps):
        tags.add("noCancel")
    deadline = any(s["a"] == "eDeadlinePass" for s in steps)
    return {"id": sid, "mode": consts["mode"], "cap": consts["cap"], "timeoutMs": 900 if deadline else 6000,
            "tcpSmall": consts["small"], "tcpLarge": consts["large"], "tcpConns": consts["conns"],
            "tags": sorted(tags), "noUDP": consts.get("noUDP", False), "init": projection(beh[ctl[0] - 1][1], consts), "steps": steps,
            "_key": ";".join(names)}


SCHED = [  # cfg, driver mode, constants the projection / rig need
    ("Sched_udp_portable.cfg", {"mode": "portable", "cap": 3, "small": 1, "large": 1, "conns": 2}),
    ("Sched_udp_batch.cfg", {"mode": "batch", "cap": 3, "small": 1, "large": 1, "conns": 2}),
    ("Sched_udp_portable_OverflowLast.cfg", {"mode": "portable", "cap": 3, "small": 1, "large": 1, "conns": 2}),
    ("Sched_udp_batch_OverflowLast.cfg", {"mode": "batch", "cap": 3, "small": 1, "large": 1, "conns": 2}),
    ("Sched_udp_portable_WorkerLast.cfg", {"mode": "portable", "cap": 3, "small": 1, "large": 1, "conns": 2}),
    ("Sched_udp_batch_WorkerLast.cfg", {"mode": "batch", "cap": 3, "small": 1, "large": 1, "conns": 2}),
    ("Sched_udp_portable_ReaderLast.cfg", {"mode": "portable", "cap": 3, "small": 1, "large": 1, "conns": 2}),
    ("Sched_udp_batch_ReaderLast.cfg", {"mode": "batch", "cap": 3, "small": 1, "large": 1, "conns": 2}),
    ("Sched_tcp.cfg", {"mode": "portable", "cap": 3, "small": 1, "large": 1, "conns": 2, "noUDP": True}),
    ("Sched_tcp_cap1.cfg", {"mode": "batch", "cap": 3, "small": 1, "large": 1, "conns": 1, "noUDP": True}),
    ("Sched_both.cfg", {"mode": "batch", "cap": 3, "small": 1, "large": 1, "conns": 2}),
]


def pick(scs, want, max_deadline, rng):
    """Greedy: first the scenarios that bring a stop point not yet seen, then fill up."""
    seen_tags, out, rest, nd = set(), [], [], 0
    for sc in scs:
        new = set(sc["tags"]) - seen_tags
        dl = "deadline" in sc["tags"]
        if new and len(out) < want and (not dl or nd < max_deadline):
            out.append(sc)
            seen_tags |= set(sc["tags"])
            nd += dl
        else:
            rest.append(sc)
    rng.shuffle(rest)
    for sc in rest:
        if len(out) >= want:
            break
        dl = "deadline" in sc["tags"]
        if dl and nd >= max_deadline:
            continue
        out.append(sc)
        nd += dl
    return out


QUICK_SCHED = {"Sched_udp_portable_OverflowLast.cfg", "Sched_udp_batch_WorkerLast.cfg",
               "Sched_udp_portable_ReaderLast.cfg", "Sched_udp_batch.cfg", "Sched_tcp.cfg"}


def prepare_replay(ctx, thorough):
    rng = random.Random(ctx.seed)
    depth = 160
    scenarios, info = [], {}
    for cfg, consts in SCHED:
        if not thorough and cfg not in QUICK_SCHED:
            continue
        num = 50 if not thorough else 160
        behs = ctx.tlc_behaviours("Drain", "MC_Drain.tla", cfg, num=num, depth=depth, timeout=600)
        uniq = {}
        for k, b in enumerate(behs):
            sc = scenario_of(b, depth, consts, "%s-%d" % (cfg[6:-4], k))
            if sc and len(sc["steps"]) >= 2 and sc["_key"] not in uniq:
                uniq[sc["_key"]] = sc
        want = (7 if not thorough else 40)
        sel = pick(list(uniq.values()), want, 1 if not thorough else 12, rng)
        if len(sel) < min(want, 5):
            raise vf.MachineryError("replay %s: only %d distinct scheduled behaviours (vacuous)" % (cfg, len(sel)))
        for sc in sel:
            sc.pop("_key", None)
        scenarios += sel
        info[cfg] = {"tlc_behaviours": len(behs), "distinct": len(uniq), "replayed": len(sel),
                     "stop_points": sorted({t for sc in sel for t in sc["tags"]})}
    all_tags = {t for sc in scenarios for t in sc["tags"]}
    need = {"idle", "slowHandler", "readerTook", "overflow", "tcpSilent", "tcpHandler"}
    if thorough:
        need |= {"midBurst", "queued", "deadline", "inline", "tcpWaitTok", "shedding", "readerCounted"}
    if need - all_tags:
        raise vf.MachineryError("replay: no behaviour stops the server at %s (vacuous)" % sorted(need - all_tags))
    trace = os.path.join(ctx.scratch, "drain_replay.ndjson")
    return {"scenarios": scenarios, "traceOut": trace, "settleMs": 4000}, info, all_tags


def finish_replay(ctx, res, inp, info, all_tags):
    cnt = res.get("counters", {})
    n = len(inp["scenarios"])
    ctx.cov["replay"]["drain_replay"] = {"configs": info, "scenarios": n,
                                         "counters": {k: v for k, v in cnt.items() if not k.startswith("cache_")},
                                         "drift": res.get("drift", 0), "drift_notes": res.get("drift_notes", [])}
    done = cnt.get("completed", 0)
    ctx.log("drain replay: %d scenarios, %d completed, %d drift, %d clock-aborted, %d steps; stop points %s" % (
        n, done, cnt.get("aborted_drift", 0), cnt.get("aborted_clock", 0), cnt.get("steps", 0), sorted(all_tags)))
    for sc in inp["scenarios"]:
        ctx._distinct.add(sc["mode"] + "/" + "+".join(sc["tags"]))
    if not res.get("violations") and done < 0.8 * n:
        raise vf.MachineryError("drain replay: only %d of %d scheduled behaviours could be forced on the code "
                                "(binding lost)\n%s" % (done, n, "\n".join(res.get("drift_notes", [])[:6])))


# ---------------------------------------------------------------------------
# the idle slab cache
CACHE_HINT = {"a": 0, "b": 1, "c": 0}      # MC_SlabCache.tla: H3


def cache_ops(beh):
    ops = []
    for i in range(1, len(beh)):
        name, args = label_parts(beh[i][0])
        pre, post = beh[i - 1][1], beh[i][1]
        shards = [list(fn(post["shard"], k, [])) for k in sorted(keys(post["shard"]))] \
            if isinstance(post["shard"], dict) else [list(x) for x in post["shard"]]
        if name == "GetAtomic":
            p = args[0]
            j = fn(post["held"], p)
            ops.append({"op": "get", "p": p, "hint": CACHE_HINT[p], "slab": j, "fresh": j not in pre["born"],
                        "shards": shards, "n": 0})
        elif name == "Put":
            p = args[0]
            ops.append({"op": "put", "p": p, "hint": CACHE_HINT[p], "slab": fn(pre["held"], p), "fresh": False,
                        "shards": shards, "n": 0})
        elif name == "TrimAtomic":
            pre_sh = pre["shard"]
            n = sum(len(fn(pre_sh, k, [])) for k in keys(pre_sh)) if isinstance(pre_sh, dict) else sum(len(x) for x in pre_sh)
            ops.append({"op": "trim", "p": "", "hint": 0, "slab": 0, "fresh": False, "shards": shards, "n": n})
    return ops


def prepare_cache(ctx, thorough):
    for cfg in (["MC_cache_2.cfg"] if not thorough else ["MC_cache_2.cfg", "MC_cache_3.cfg", "MC_cache_3x.cfg", "MC_cache_atomic.cfg"]):
        ctx.tlc("Drain", "MC_SlabCache.tla", cfg, workers=4, timeout=900, heap="6g", tag="exhaustive")
    neg = {"MC_cache_neg_dupPut.cfg": {"AtMostOneTaker"}, "MC_cache_neg_noSweep.cfg": {"LiveWithinCap"},
           "MC_cache_neg_decFirst.cfg": {"LeaseBound", "LiveWithinCap"},
           # not a mutant: the code as written.  "live slabs never exceed the admission cap" (slab_cache.go) is not an
           # invariant of the sharded sweep; the configuration documents the schedule (observation, not C11)
           "MC_cache_livebound.cfg": {"LiveWithinCap"}}
    for cfg in (sorted(neg) if thorough else ["MC_cache_neg_dupPut.cfg"]):
        r = ctx.tlc("Drain", "MC_SlabCache.tla", cfg, workers=2, timeout=600, heap="4g", must_pass=False,
                    tag="negative", count=False)
        if r.violated not in neg[cfg]:
            raise vf.MachineryError("%s: expected %s to fail, TLC says %r" % (cfg, sorted(neg[cfg]), r.violated))
    behs = ctx.tlc_behaviours("Drain", "MC_SlabCache.tla", "Sim_cache.cfg", num=60 if not thorough else 600, depth=70,
                              timeout=600)
    uniq = {}
    for k, b in enumerate(behs):
        ops = cache_ops(b)
        key = ";".join("%s%s%d" % (o["op"], o["p"], o["slab"]) for o in ops)
        if len(ops) >= 4 and key not in uniq:
            uniq[key] = {"id": "cache-%d" % k, "ops": ops}
    if len(uniq) < 10:
        raise vf.MachineryError("cache replay: only %d distinct call orders (vacuous)" % len(uniq))
    kinds = {}
    for b in uniq.values():
        for o in b["ops"]:
            kk = o["op"] + (":fresh" if o["fresh"] else "")
            kinds[kk] = kinds.get(kk, 0) + 1
    miss = [k for k in ("get", "get:fresh", "put", "trim") if not kinds.get(k)]
    if miss:
        raise vf.MachineryError("cache replay: no call of kind %s among the behaviours (vacuous)" % miss)
    info = {"tlc_behaviours": len(behs), "distinct_call_orders": len(uniq), "calls": kinds}
    stress_inp = {"takers": 8, "cap": 3, "iters": 60000 if not thorough else 600000, "rounds": 4 if not thorough else 12}
    return {"behaviours": list(uniq.values())}, stress_inp, info


def finish_cache(ctx, res, rep_inp, stress_inp, info):
    c = res.get("counters", {})
    n = len(rep_inp["behaviours"])
    cache_drift = [d for d in res.get("drift_notes", []) if d.startswith("[cache replay")]
    info.update(replayed=c.get("cache_behaviours", 0), calls_made=c.get("cache_calls", 0), drift_notes=cache_drift)
    ctx.cov["replay"]["cache_replay"] = info
    if not res.get("violations") and c.get("cache_behaviours", 0) != n:
        raise vf.MachineryError("cache replay ran %d of %d call orders" % (c.get("cache_behaviours", 0), n))
    if len(cache_drift) >= 5:
        raise vf.MachineryError("cache replay: call orders drift from SlabCache.tla (binding lost)\n%s" % "\n".join(cache_drift[:4]))
    ctx.cov["replay"]["cache_stress"] = {"counters": {k: v for k, v in c.items() if k.startswith("cache_")},
                                         "observations": [d for d in res.get("drift_notes", []) if d.startswith("[cache stress")]}
    if not res.get("violations") and c.get("cache_takes", 0) < stress_inp["iters"]:
        raise vf.MachineryError("cache stress took only %d slabs (vacuous)" % c.get("cache_takes", 0))
    if c.get("cache_rounds_over_cap"):
        ctx.log("OBSERVATION (not a C11 predicate): up to %d slabs live under an admission cap of %d on the real cache "
                "(get's sweep misses a slab parked behind it)" % (c.get("cache_max_live", 0), stress_inp["cap"]))


def split_trace(path, out_prefix):
    """Recorded runs are validated per reader kind and connection cap (constants of the trace cfg)."""
    groups, cur = {}, None
    if not os.path.exists(path):
        return groups
    with open(path) as f:
        for ln in f:
            if not ln.strip():
                continue
            d = json.loads(ln)
            if d.get("ev") == "reset":
                # a run the driver could not keep on the model's schedule is already counted as drift there
                cur = None if d.get("aborted") else (d["mode"], int(d.get("conns", 2)))
            if cur is not None:
                groups.setdefault(cur, []).append(ln)
    files = {}
    for (mode, conns), lines in groups.items():
        fn = "%s.%s.%d.ndjson" % (out_prefix, mode, conns)
        with open(fn, "a") as f:
            f.writelines(lines)
        files[(mode, conns)] = fn
    return files


def validate_traces(ctx, files, what):
    """code -> spec.  Accepted: every recorded run is a behaviour of Drain.tla.  Stuck on an oq / os line with
    the search exhausted: Quiesced() / Stopped() was true where no explanation of the run allows it."""
    accepted = 0
    for (mode, conns), fn in sorted(files.items()):
        cfg = "Trace_%s%s.cfg" % (mode, "" if conns == 2 else "_cap1")
        runs = sum(1 for ln in open(fn) if '"ev":"reset"' in ln)
        nlines = sum(1 for _ in open(fn))
        ok, r = ctx.tlc_trace("Drain", "Trace_Drain.tla", cfg, fn, timeout=900)
        info = {"lines": nlines, "runs": runs, "accepted": bool(ok), "states": r.distinct}
        ctx.cov["replay"]["trace_%s_%s_%d" % (what, mode, conns)] = info
        if ok:
            accepted += runs
            continue
        if r.violated and r.violated != "TraceAccepted":
            # the listed invariants hold of every state of Drain.tla (model checked above); failing here means
            # the trace spec itself is broken
            raise vf.MachineryError("trace validation %s: invariant %s failed inside Trace_Drain" % (fn, r.violated))
        hw, exhaustive, stuck = None, False, ""
        for ln in r.out.splitlines():
            if "high-water" in ln:
                try:
                    hw = int(ln.split(",")[1])
                except Exception:
                    pass
                exhaustive = "TRUE" in ln
        if hw is not None:
            with open(fn) as f:
                lines = f.readlines()
            if 1 <= hw <= len(lines):
                stuck = lines[hw - 1].strip()
        info["stuck_at"] = stuck[:300]
        ev = ""
        try:
            ev = json.loads(stuck).get("ev", "")
        except Exception:
            pass
        if ev in ("oq", "os") and exhaustive:
            ctx.violation("trace/" + ev,
                          "[%s %s] %s was observed true at a point of a recorded run where no interleaving of the "
                          "unobserved steps of Drain.tla has the server %s (line %d: %s)" % (
                              what, mode, "Quiesced()" if ev == "oq" else "Stopped()",
                              "without an owed reply" if ev == "oq" else "stopped", hw, stuck[:200]),
                          {"driver": "drain-trace", "file_head": lines[max(0, hw - 80):hw]})
        else:
            ctx.cov["drift"] += 1
            ctx.log("DRIFT: recorded %s run (%s) is not explained by Drain.tla past line %s (%s)%s; no property "
                    "predicate failed" % (what, mode, hw, stuck[:160], "" if exhaustive else " [search budget hit]"))
    ctx.cov["traces_validated_against_impl"] += accepted
    return accepted


def finish_stress(ctx, res, inp):
    cnt = res.get("counters", {})
    rounds, pref = inp["rounds"], inp["traceOut"]
    ctx.cov["replay"]["drain_stress"] = {"counters": {k: cnt.get(k, 0) for k in (
        "rounds", "rounds_portable", "rounds_batch", "udp_sent", "udp_admitted", "quiesced_true_samples", "clean_drains", "traces")}}
    if not res.get("violations") and cnt.get("rounds", 0) != rounds:
        raise vf.MachineryError("drain stress ran %d of %d rounds" % (cnt.get("rounds", 0), rounds))
    if not res.get("violations") and cnt.get("udp_admitted", 0) < rounds:
        raise vf.MachineryError("drain stress: the engines admitted only %d queries in %d rounds (vacuous)" % (
            cnt.get("udp_admitted", 0), rounds))
    return {(m, 2): "%s.%s.ndjson" % (pref, m) for m in ("portable", "batch")
            if os.path.exists("%s.%s.ndjson" % (pref, m))}


def run_tier(ctx):
    thorough = ctx.tier == "thorough"
    if "c10" not in ctx.overlay_tags:
        ctx.overlay_tags.add("c10")
        ov = os.path.join(ctx.scratch, "overlay.json")
        if os.path.exists(ov):
            os.remove(ov)
    hook = os.path.join(vf.REPO, "server", "verif_trace_on.go")
    if not os.path.exists(hook):
        raise vf.MachineryError("the UDP engine trace hook (server/verif_trace_on.go) is not in the tree under test")
    ctx.cov["rule"] = ("X11DR: behaviours = TLC-simulated runs of Drain.tla under SchedNext forced on the real server "
                       "(distinct = distinct stop points x modes); traces = recorded gate/handler/client/cancel events "
                       "validated against Trace_Drain.tla")
    only = set(filter(None, os.environ.get("X11DR_ONLY", "").split(",")))   # development knob
    if not only or "mc" in only:
        model_check(ctx, thorough)
    inp = {}
    if not only or "cache" in only:
        inp["cacheReplay"], inp["cacheStress"], cache_info = prepare_cache(ctx, thorough)
    if not only or "replay" in only:
        inp["replay"], replay_info, all_tags = prepare_replay(ctx, thorough)
    if not only or "stress" in only:
        inp["stress"] = {"rounds": 4 if not thorough else 16, "packets": 12, "timeoutMs": 2500,
                         "traceOut": os.path.join(ctx.scratch, "drain_stress")}
    if inp:
        res = ctx.go_driver("./x11dr", "TestDrainAll", inp, name="drain_all", timeout=2400)
        ctx.take_driver_result(res, "[drain] ")
        if res.get("skipped"):
            raise vf.MachineryError("drain drivers skipped: %s" % res["skipped"][:3])
        files = {}
        if "cacheReplay" in inp:
            finish_cache(ctx, res, inp["cacheReplay"], inp["cacheStress"], cache_info)
        if "replay" in inp:
            finish_replay(ctx, res, inp["replay"], replay_info, all_tags)
            files = split_trace(inp["replay"]["traceOut"], os.path.join(ctx.scratch, "drain_all"))
        stress_files = finish_stress(ctx, res, inp["stress"]) if "stress" in inp else {}
        if files and not ctx.violations:
            if validate_traces(ctx, files, "gated") == 0:
                raise vf.MachineryError("no recorded gated run was accepted by Trace_Drain (binding lost)")
        # the free-running histories: every unobserved step is searched for, which is minutes of TLC -- thorough
        # tier only (the quick tier judges them with the driver's direct predicates), in groups of a few rounds so
        # that one history the model cannot explain (drift) does not hide the ones behind it
        if thorough and stress_files and not ctx.violations:
            groups, acc = {}, 0
            for (mode, conns), fn_ in stress_files.items():
                cur, k = [], 0
                for ln in open(fn_):
                    if '"ev":"reset"' in ln and len([x for x in cur if '"ev":"reset"' in x]) >= 4:
                        groups[(mode, conns, k)] = cur
                        cur, k = [], k + 1
                    cur.append(ln)
                if cur:
                    groups[(mode, conns, k)] = cur
            for (mode, conns, k), lines in sorted(groups.items()):
                gfn = os.path.join(ctx.scratch, "drain_stress_g%d.%s.ndjson" % (k, mode))
                with open(gfn, "w") as f:
                    f.writelines(lines)
                acc += validate_traces(ctx, {(mode, conns): gfn}, "stress%d" % k)
            if acc == 0:
                raise vf.MachineryError("no free-running history was accepted by Trace_Drain (binding lost)")
    if only:
        ctx.cov["states"] = max(1, ctx.cov["states"])
        ctx.cov["transitions"] = max(1, ctx.cov["transitions"])


def run(ctx, replay_path):
    run_tier(ctx)
