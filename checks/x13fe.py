"""X13FE -- the RFC 9520 failure cache seen by concurrent clients of several ECS audiences (serves C13).

tla/FailEcs/FailEcs.tla   failure entries per (question, audience), the dedup group of Cache.ServeDNS (leader, followers,
             JoinGeneration / Regroup / previous.next, the regroup limit), clients that send no ECS, ECS /0 (the RFC 7871
             opt-out, which IS the shared audience) or one of two scoped audiences, a clock.  Arrive / LeaderEnds(answer |
             fail | local) / FollowerWakes / Tick / DropAnswer.  Properties: NoUpstreamInBackoff, ServedInBackoff, NoLeak,
             SingleProbe, ShedOnlyProbe, LocalNeverShared, Faithful (the code's table = what really failed).
  - TLC exhaustive: gated (the schedules a driver can force) and ungated (every interleaving of wake-ups with arrivals and
    endings) configs hold all of them; every switch that stands for a guard of the code has a negative twin that must
    refute a named property (RetryKey not normalising -> SingleProbe; follower re-check under the global scope ->
    NoUpstreamInBackoff and NoLeak; request-local ending recorded -> NoLeak / LocalNeverShared; Lookup or Record not
    normalising -> NoUpstreamInBackoff / ServedInBackoff / Faithful); reachability twins show shed, regroup leaders, solo
    followers, hits of /0 and scoped clients are not vacuous.
  - spec -> code: simulated behaviours of larger gated configs and the counter-examples of the negative twins are forced on
    the real cache.Cache (harness/x13fe: ECS-aware caching on, virtual failure-cache clock, a scripted upstream tail that
    parks every resolution at a gate, "parked behind a leader" read from the goroutine dump).  After each step the observed
    roles / replies / projected failure cache are compared with TLC's successor state (drift).
  - code -> spec: both that replay and a free-running concurrent stage (bursts racing for leadership, several endings at a
    time, late arrivals) record a history (arrivals, upstream starts, endings with the projected table before / after,
    replies, settle points) judged by the property monitor Monitor_FailEcs.tla; its invariants are the only verdict.
"""
import json
import os
import re
from concurrent.futures import ThreadPoolExecutor

import vf

MOD = "FailEcs"
MC = "MC_FailEcs.tla"
PAR = 6
MIN, MAX = 1, 2

# (config, workers): the code as built must satisfy everything
POSITIVE_QUICK = [("MC_F3", 4), ("MC_G3", 2), ("MC_G3a", 2), ("MC_G3z", 2)]
POSITIVE_THOROUGH = [("MC_G4", 8), ("MC_G4g", 6), ("MC_F3a", 4), ("MC_F3z", 4), ("MC_F2q2", 6)]
# model mutants: (config, property that must be refuted, replay its counter-example on the code?)
NEGATIVE = [
    ("Neg_RetryNorm", "SingleProbe", True),
    ("Neg_WakeGlobalUp", "NoUpstreamInBackoff", True),
    ("Neg_WakeGlobalLeak", "NoLeak", True),
    ("Neg_RecordLocal", "NoLeak", True),
    ("Neg_LookupNorm", "NoUpstreamInBackoff", True),
    ("Neg_RecordLocalProp", "LocalNeverShared", False),
    ("Neg_LookupNormServed", "ServedInBackoff", True),
    ("Neg_RecordNorm", "Faithful", False),
    ("Neg_RecordNormUp", "NoUpstreamInBackoff", True),
]
NEGATIVE_QUICK = 5
REACH = ["Reach_NeverShed", "Reach_NeverRegroupLeader", "Reach_NeverSolo", "Reach_NeverHitScoped", "Reach_NeverHitZero",
         "Reach_NeverTwoUpOneKey"]
MONITOR_PROPS = ["NoUpstreamInBackoff", "ServedInBackoff", "NoLeak", "SingleProbe", "LocalNeverShared", "OnlyOwnKey",
                 "SuccessResets"]
STORM_CLIENTS = {"1": "plain", "2": "plain", "3": "zero", "4": "zero", "5": "A", "6": "A", "7": "B", "8": "zero", "9": "A"}

ASSUMPTIONS = [
    "X13FE: virtual time through the overlay clock of the failure cache (one model second = 7 s); the clock moves only "
    "when every request is idle, at the upstream gate or parked; the 15 s generation timeout of the dedup group never fires",
    "X13FE: 'parked behind a leader' = the runtime's goroutine dump shows the request's goroutine in the select of "
    "Cache.ServeDNS; which released follower wins a re-election is the scheduler's choice and is followed, not forced",
    "X13FE: the monitor concludes only from what the scripted upstream was told to do: a failure is surely active for Min "
    "after its write-back returned and surely expired after Min*2^(consecutive-1) capped at Max; in between nothing is judged; "
    "the endings of upstream resolutions are serialised by the tail (their order in the history is their real order)",
    "X13FE: zone-kind failures, client cancellation while parked, hash collisions and capacity eviction are outside "
    "FailEcs.tla (FailureCache.tla / ZoneFail.tla / Flight.tla); a scoped answer is tailored (SCOPE = SOURCE)",
]


def norm(raw):
    return "G" if raw in ("plain", "zero") else raw


def raws():
    """Raw3 == (1 :> "plain" @@ ...) definitions of MC_FailEcs.tla."""
    out = {}
    with open(os.path.join(vf.VERIF, "tla", MOD, MC)) as f:
        for m in re.finditer(r"^(Raw\w+)\s*==\s*\((.*?)\)\s*$", f.read(), re.M):
            out[m.group(1)] = {k: v for k, v in re.findall(r'(\d+) :> "(\w+)"', m.group(2))}
    return out


def cfg_raw(cfg):
    with open(os.path.join(vf.VERIF, "tla", MOD, cfg + ".cfg")) as f:
        m = re.search(r"Raw <- (\w+)", f.read())
    return raws()[m.group(1)]


def parallel(jobs):
    with ThreadPoolExecutor(max_workers=PAR) as ex:
        futs = [ex.submit(j) for j in jobs]
        return [f.result() for f in futs]


def ensure_overlay(ctx):
    ctx.overlay_tags.add("x13fe")
    ov = os.path.join(ctx.scratch, "overlay.json")
    if os.path.exists(ov):
        with open(ov) as f:
            if "verif_x13fe_shim.go" not in f.read():
                os.remove(ov)


# --------------------------------------------------------------------------- TLC states -> driver steps
LABEL_RE = re.compile(r"^(\w+)(?:\((.*)\))?$")
SEQ_STR = re.compile(r'"([^"]*)"')
FC_RE = re.compile(r'<<"(\w+)", "(\w+)">> :> \[st \|-> (\d+), rel \|-> (-?\d+)\]')
DEC_RE = re.compile(r'\[k \|-> "([^"]*)", ph \|-> "([^"]*)"\]')


def var_text(text, name):
    m = re.search(r"/\\ %s = (.*?)(?=\n/\\ |\Z)" % name, text, re.S)
    if not m:
        raise vf.MachineryError("cannot read %s in a TLC state" % name)
    return m.group(1)


def fast_state(text):
    fc = [("%s|%s" % (q, a), "%s|%s" % (st, rel)) for q, a, st, rel in FC_RE.findall(var_text(text, "fc")) if st != "0"]
    return {"fc": sorted([list(x) for x in fc]), "pc": SEQ_STR.findall(var_text(text, "pc")),
            "cq": SEQ_STR.findall(var_text(text, "cq")), "dec": DEC_RE.findall(var_text(text, "dec"))}


def parse_label(label):
    m = LABEL_RE.match(label.strip())
    if not m:
        raise vf.MachineryError("bad action label %r" % label)
    args = [a.strip().strip('"') for a in m.group(2).split(",")] if m.group(2) else []
    return m.group(1), args


def expect_of(block, raw):
    """What FailEcs.tla says after a forced step and the wake-ups it triggers."""
    last = block[-1]
    if "woken" in last["pc"]:
        return None
    cls, dec = {}, {}
    for i, pc in enumerate(last["pc"]):
        if pc in ("up", "wait"):
            k = "%s|%s" % (last["cq"][i], norm(raw[str(i + 1)]))
            cls.setdefault(k, {}).setdefault(pc, 0)
            cls[k][pc] += 1
    for st in block:
        for i, (kind, _) in enumerate(st["dec"]):
            if kind in ("hit", "answer", "shed"):
                k = "%s|%s" % (st["cq"][i], norm(raw[str(i + 1)]))
                dec.setdefault(k, {}).setdefault(kind, 0)
                dec[k][kind] += 1
    return {"fc": last["fc"], "cls": cls, "dec": dec}


def steps_of(behaviour, raw):
    """[(label, state_text)] -> driver steps (FollowerWakes folded into the step that released them)."""
    steps, blocks = [], []
    prev = None
    for label, text in behaviour:
        if label.startswith("Init"):
            prev = fast_state(text)
            continue
        op, a = parse_label(label)
        st = fast_state(text)
        if op == "FollowerWakes":
            if blocks:
                blocks[-1].append(st)
            prev = st
            continue
        if op == "Arrive":
            s = {"op": "arrive", "c": int(a[0]), "q": a[1]}
        elif op == "LeaderEnds":
            s = {"op": "end", "c": int(a[0]), "o": a[1], "q": prev["cq"][int(a[0]) - 1] if prev else "q1"}
        elif op == "Tick":
            s = {"op": "tick"}
        elif op == "DropAnswer":
            s = {"op": "drop", "q": a[0], "a": a[1]}
        else:
            raise vf.MachineryError("unknown action %r" % op)
        steps.append(s)
        blocks.append([st])
        prev = st
    for s, b in zip(steps, blocks):
        e = expect_of(b, raw)
        if e is not None:
            s["exp"] = e
    return steps


STATE_RE = re.compile(r"\\\* <(.*?) line \d+, col \d+ to line \d+, col \d+ of module \w+>\s*\nSTATE_\d+ ==\s*\n(.*?)(?=\n\n|\Z)", re.S)


def sim_runs(ctx, cfg, num, depth, workers=2):
    import glob
    d = ctx.spec_dir(MOD)
    pref = os.path.join(d, "sim_%s_%d" % (cfg, len(ctx.cov["tlc_runs"])))
    r = ctx.tlc(MOD, MC, cfg + ".cfg", workers=workers, timeout=600, heap="2g",
                args=["-simulate", "file=%s,num=%d" % (pref, max(1, num // workers)), "-depth", str(depth), "-seed", str(ctx.seed)],
                must_pass=False, tag="simulate", count=False)
    if r.rc != 0:
        raise vf.MachineryError("TLC simulate failed rc=%d on %s\n%s" % (r.rc, cfg, "\n".join(r.out.splitlines()[-30:])))
    raw = cfg_raw(cfg)
    runs, seen = [], set()
    for fn in sorted(glob.glob(pref + "_*")):
        with open(fn) as f:
            text = f.read()
        os.remove(fn)
        beh = [(m.group(1).strip(), m.group(2)) for m in STATE_RE.finditer(text)]
        steps = steps_of(beh, raw)
        key = json.dumps([{k: v for k, v in s.items() if k != "exp"} for s in steps])
        if steps and key not in seen:
            seen.add(key)
            runs.append({"id": "%s#%d" % (cfg, len(runs)), "raw": raw, "steps": steps, "shape": len(runs)})
    return runs


def counterexample(r):
    parts = re.split(r"\nState (\d+): <(.*?) line \d+, col \d+ to line \d+, col \d+ of module \w+>\n", r.out)
    return [(parts[i + 1].strip(), parts[i + 2].split("\n\n")[0]) for i in range(1, len(parts) - 2, 3)]


def negative(ctx, cfg, want, replay):
    """A model mutant must refute `want`; its counter-example becomes a schedule for the real code."""
    r = ctx.tlc(MOD, MC, cfg + ".cfg", workers=1, timeout=300, heap="2g", must_pass=False, count=False, tag="mutant-must-fail")
    if r.violated != want:
        raise vf.MachineryError("%s: the model mutant must refute %s, TLC says %r (vacuous property?)" % (cfg, want, r.violated))
    if not replay:
        return None
    raw = cfg_raw(cfg)
    # the forced part of the counter-example; then one more round of arrivals and a useful ending, so that whatever the
    # code did with the clients the mutant would have misrouted is seen through
    steps = [s for s in steps_of(counterexample(r), raw)]
    for s in steps:
        s.pop("exp", None)      # the expectations are the mutant's, not the code's
    if not steps:
        raise vf.MachineryError("could not read the counter-example of %s" % cfg)
    return {"id": cfg + "#cex", "raw": raw, "steps": steps, "shape": 0}


def reach(ctx, cfg):
    r = ctx.tlc(MOD, MC, cfg + ".cfg", workers=1, timeout=300, heap="2g", must_pass=False, count=False, tag="reach-must-fail")
    want = cfg[len("Reach_"):]
    if r.violated != want:
        raise vf.MachineryError("%s: FailEcs.tla never reaches the situation (%s holds): vacuous" % (cfg, want))
    # the witness is a behaviour of the model as built: a directed schedule for the real code
    raw = cfg_raw(cfg)
    steps = steps_of(counterexample(r), raw)
    if not steps:
        raise vf.MachineryError("could not read the witness of %s" % cfg)
    return {"id": cfg + "#witness", "raw": raw, "steps": steps, "shape": 1}


# --------------------------------------------------------------------------- monitor
def tamper_log(path):
    """Hand-written histories, one per monitor predicate, each of which must be flagged."""
    L = []

    def ln(ev, **kw):
        d = {"ev": ev, "c": 0, "q": "-", "a": "-", "raw": "-", "o": "-", "k": "-", "up": False, "n": 0, "clk": 0,
             "parked": [], "fc": [], "run": "-"}
        d.update(kw)
        L.append(d)

    def reset(name):
        ln("reset", n=1, clk=2, run=name)

    def fail_once(c, a="G", clk=0):
        ln("arr", c=c, q="q1", a=a, clk=clk)
        ln("up", c=c, q="q1", a=a, clk=clk)
        ln("endB", c=c, q="q1", a=a, o="fail", clk=clk)
        ln("endE", c=c, q="q1", a=a, o="fail", clk=clk, fc=[["q1|" + a, "1|1"]])
        ln("rep", c=c, q="q1", a=a, k="servfail", up=True, clk=clk)

    reset("NoUpstreamInBackoff")        # arrives after the failure was written, goes upstream
    fail_once(1)
    ln("arr", c=2, q="q1", a="G")
    ln("up", c=2, q="q1", a="G")
    reset("NoUpstreamInBackoff/follower")   # parked behind the leader that failed, goes upstream
    ln("arr", c=1, q="q1", a="A")
    ln("up", c=1, q="q1", a="A")
    ln("arr", c=2, q="q1", a="A")
    ln("settle", parked=[2])
    ln("endB", c=1, q="q1", a="A", o="fail")
    ln("endE", c=1, q="q1", a="A", o="fail", fc=[["q1|A", "1|1"]])
    ln("rep", c=1, q="q1", a="A", k="servfail", up=True)
    ln("up", c=2, q="q1", a="A")
    reset("ServedInBackoff")
    fail_once(1)
    ln("arr", c=2, q="q1", a="G")
    ln("rep", c=2, q="q1", a="G", k="servfail")
    reset("NoLeak")                     # G failed, an A client is served the cached failure
    fail_once(1)
    ln("arr", c=2, q="q1", a="A")
    ln("rep", c=2, q="q1", a="A", k="hit")
    reset("SingleProbe")
    fail_once(1)
    ln("tick", n=1, clk=1)
    ln("arr", c=1, q="q1", a="G", clk=1)
    ln("up", c=1, q="q1", a="G", clk=1)
    ln("arr", c=2, q="q1", a="G", clk=1)
    ln("up", c=2, q="q1", a="G", clk=1)
    reset("LocalNeverShared")
    ln("arr", c=1, q="q1", a="G")
    ln("up", c=1, q="q1", a="G")
    ln("endB", c=1, q="q1", a="G", o="local")
    ln("endE", c=1, q="q1", a="G", o="local", fc=[["q1|G", "1|1"]])
    ln("rep", c=1, q="q1", a="G", k="servfail", up=True)
    reset("OnlyOwnKey")                 # a /0 client's failure filed under a real /0 scope
    ln("arr", c=1, q="q1", a="G")
    ln("up", c=1, q="q1", a="G")
    ln("endB", c=1, q="q1", a="G", o="fail")
    ln("endE", c=1, q="q1", a="G", o="fail", fc=[["q1|Z", "1|1"]])
    ln("rep", c=1, q="q1", a="G", k="servfail", up=True)
    reset("SuccessResets")
    fail_once(1)
    ln("tick", n=1, clk=1)
    ln("arr", c=1, q="q1", a="G", clk=1)
    ln("up", c=1, q="q1", a="G", clk=1)
    ln("endB", c=1, q="q1", a="G", o="answer", clk=1, fc=[["q1|G", "1|0"]])
    ln("endE", c=1, q="q1", a="G", o="answer", clk=1, fc=[["q1|G", "1|0"]])
    ln("rep", c=1, q="q1", a="G", k="answer", up=True, clk=1)
    with open(path, "w") as f:
        for d in L:
            f.write(json.dumps(d) + "\n")


def monitor_selftest(ctx):
    path = os.path.join(ctx.scratch, "x13fe_tamper.ndjson")
    tamper_log(path)
    ok, r = ctx.tlc_trace(MOD, "Monitor_FailEcs.tla", "MonitorTamper.cfg", path, timeout=300, deque=False)
    if r.violated != "NotAllFlagged":
        raise vf.MachineryError("monitor self-test: Monitor_FailEcs.tla did not flag every tampered history (%s)\n%s"
                                % (r.violated, "\n".join(r.out.splitlines()[-25:])))


def run_of_line(lines, upto):
    run = "-"
    for ln in lines[:upto]:
        if '"ev":"reset"' in ln:
            run = json.loads(ln)["run"]
    return run


def judge(ctx, stage, trace, replay_of):
    """The recorded history under the property monitor."""
    with open(trace) as f:
        lines = f.read().splitlines()
    if not lines:
        raise vf.MachineryError("%s recorded no history" % stage)
    ok, r = ctx.tlc_trace(MOD, "Monitor_FailEcs.tla", "Monitor.cfg", trace, timeout=1200, deque=False)
    info = {"lines": len(lines), "judged": max(0, r.depth - 1)}
    if r.violated in MONITOR_PROPS:
        at = max(1, r.depth - 1)
        run = run_of_line(lines, at)
        start = max(i for i, ln in enumerate(lines[:at]) if '"ev":"reset"' in ln)
        ctx.violation("x13fe/%s/%s" % (stage, r.violated),
                      "[FailEcs %s, run %s] %s is false on a recorded execution of cache.Cache (history line %d: %s)"
                      % (stage, run, r.violated, at, lines[at - 1][:300]),
                      dict(replay_of(run), predicate=r.violated, history=lines[start:at][-60:]))
        info["violated"] = r.violated
    elif r.violated == "WellFormed":
        raise vf.MachineryError("%s: the recorded history is not well formed (line %d)\n%s"
                                % (stage, r.depth - 1, "\n".join(lines[max(0, r.depth - 6):r.depth])))
    elif not ok:
        raise vf.MachineryError("Monitor_FailEcs did not consume the %s history\n%s" % (stage, "\n".join(r.out.splitlines()[-20:])))
    else:
        ctx.cov["traces_validated_against_impl"] += sum(1 for ln in lines if '"ev":"reset"' in ln)
    return info


# --------------------------------------------------------------------------- the tier
def drive(ctx, runs, storm, name):
    trace = os.path.join(ctx.scratch, "x13fe_%s.ndjson" % name)
    inp = {"min": MIN, "max": MAX, "traceOut": trace, "runs": runs, "storm": storm}
    res = ctx.go_driver("./x13fe", "TestReplay" if runs else "TestStorm", inp, name="x13fe_" + name, timeout=1500)
    ctx.take_driver_result(res, "[FailEcs %s] " % name)
    if res.get("skipped"):
        raise vf.MachineryError("X13FE %s stalled: %s" % (name, res["skipped"][:3]))
    return res, trace


def run_tier(ctx):
    thorough = ctx.tier == "thorough"
    ensure_overlay(ctx)
    ctx.assumptions += ASSUMPTIONS
    ctx.spec_dir(MOD)
    n = 1 if not thorough else 8
    # ---- TLC: the model alone, its mutants, the schedules
    pos = POSITIVE_QUICK + (POSITIVE_THOROUGH if thorough else [])
    neg = NEGATIVE if thorough else NEGATIVE[:NEGATIVE_QUICK]
    reaches = REACH if thorough else REACH[:3]
    # the exhaustive runs of the model as built do not depend on the tree under test: they go on beside the drivers
    bg = ThreadPoolExecutor(max_workers=2)
    posf = [bg.submit(lambda c=c, w=w: ctx.tlc(MOD, MC, c + ".cfg", workers=w, timeout=1500, heap="6g")) for c, w in pos]
    jobs = [lambda a=a: negative(ctx, *a) for a in neg]
    jobs += [lambda c=c: reach(ctx, c) for c in reaches]
    sims = [("Sim_5", 24 * n, 45), ("Sim_6", 16 * n, 50), ("Sim_q2", 12 * n, 45)]
    jobs += [lambda s=s: sim_runs(ctx, *s) for s in sims]
    jobs.append(lambda: monitor_selftest(ctx))
    try:
        out = parallel(jobs)
    except BaseException:
        bg.shutdown(wait=True, cancel_futures=True)
        raise
    cex = [x for x in out[:len(neg)] if x]
    witnesses = out[len(neg):len(neg) + len(reaches)]
    simruns = [r for rs in out[len(neg) + len(reaches):-1] for r in rs]
    ctx.cov["replay"]["failecs_model"] = {"mutants_refute": {c: w for c, w, _ in neg}, "reached": [w["id"] for w in witnesses]}
    try:
        runs = cex + witnesses + simruns
        for r in runs:
            ctx._distinct.add("failecs-run:" + json.dumps([{k: v for k, v in s.items() if k != "exp"} for s in r["steps"]]))
        by_id = {r["id"]: r for r in runs}
        # ---- spec -> code
        res, trace = drive(ctx, runs, {}, "replay")
        c = res.get("counters", {})
        info = {"runs": len(runs), "counter_examples_of_model_mutants": len(cex), "steps": c.get("steps", 0),
                "steps_not_enabled": c.get("steps_not_enabled", 0), "steps_agreeing_with_model": c.get("steps_agreeing_with_model", 0),
                "client_swaps": c.get("client_swaps", 0), "followers_parked": c.get("followers_parked", 0),
                "followers_parked_zero": c.get("followers_parked_zero", 0), "followers_parked_scoped": c.get("followers_parked_scoped", 0),
                "followers_to_upstream": c.get("followers_to_upstream", 0), "two_upstream_one_key": c.get("two_upstream_one_key", 0),
                "replies": {k[len("reply_"):]: v for k, v in c.items() if k.startswith("reply_")},
                "follower_replies": {k[len("follower_reply_"):]: v for k, v in c.items() if k.startswith("follower_reply_")},
                "hits_by_client_kind": {k[len("hit_"):]: v for k, v in c.items() if k.startswith("hit_")},
                "endings": {k[len("ends_"):]: v for k, v in c.items() if k.startswith("ends_")},
                "local_variants": {k: v for k, v in c.items() if k.startswith("local_")},
                "requests": {k[len("requests_"):]: v for k, v in c.items() if k.startswith("requests_")},
                "drift": res["drift"], "drift_notes": res.get("drift_notes", [])}
        ctx.cov["replay"]["failecs_replay"] = info
        if res["drift"]:
            ctx.log("DRIFT: %d replayed run(s) differ from FailEcs.tla (no predicate failed): %s" % (res["drift"], res.get("drift_notes", [])[:2]))
        # ---- free-running concurrent stage
        storm = {"rounds": 10 if not thorough else 240, "clients": STORM_CLIENTS, "bursts": 5, "seed": ctx.seed}
        sres, strace = drive(ctx, [], storm, "storm")
        sc = sres.get("counters", {})
        ctx.cov["replay"]["failecs_storm"] = {"rounds": sres["cases"], "arrivals": sc.get("burst_arrivals", 0) + sc.get("late_arrivals", 0),
                                             "settle_points": sc.get("settles", 0), "max_parked_at_once": sc.get("max_parked", 0),
                                             "endings": {k[len("ends_"):]: v for k, v in sc.items() if k.startswith("ends_")},
                                             "drift": sres["drift"], "drift_notes": sres.get("drift_notes", [])}
        for k in range(1, sres["cases"] + 1):
            ctx._distinct.add("failecs-storm:%d:%d" % (ctx.seed, k))
        # ---- code -> spec: the histories under the monitor
        def replay_run(run):
            return {"driver": "TestReplay", "run": by_id.get(run, {"id": run})}

        def replay_storm(run):
            return {"driver": "TestStorm", "storm": dict(storm, only=int(run.split("#")[1]) if "#" in run else 0)}

        j = parallel([lambda: judge(ctx, "replay", trace, replay_run), lambda: judge(ctx, "storm", strace, replay_storm)])
        info["monitor"], ctx.cov["replay"]["failecs_storm"]["monitor"] = j
        ctx.cov["evaluations"] += j[0]["judged"] + j[1]["judged"]
        ctx.cov["replay"]["failecs_model"]["as_built"] = {c: {"distinct": f.result().distinct, "generated": f.result().generated}
                                                          for (c, _), f in zip(pos, posf)}
        # ---- vacuity (only meaningful when nothing was found: a broken guard changes what can be reached)
        if ctx.violations or ctx.known_hits:
            return
        need = ["followers_parked", "followers_parked_zero", "followers_parked_scoped", "followers_to_upstream", "reply_hit", "reply_shed",
                "follower_reply_hit", "hit_zero", "hit_plain", "hit_A", "ends_fail", "ends_local", "ends_answer", "requests_wire",
                "requests_msg", "local_shed", "local_deadline", "steps_agreeing_with_model"]
        missing = [k for k in need if not c.get(k)]
        if missing:
            raise vf.MachineryError("X13FE replay is vacuous: never saw %s (%s)" % (missing, c))
        if sc.get("max_parked", 0) < 2 or not sc.get("ends_fail") or not sc.get("ends_local") or not sc.get("late_arrivals"):
            raise vf.MachineryError("X13FE storm is vacuous: %s" % sc)

    finally:
        bg.shutdown(wait=True, cancel_futures=True)

def run(ctx, replay):
    if replay:
        return replay_file(ctx, replay)
    ctx.cov["rule"] = ("states/transitions = TLC exhaustive runs of FailEcs.tla (gated and fully interleaved); evaluations = history "
                       "lines of the real cache.Cache judged by Monitor_FailEcs.tla; distinct = distinct forced schedules "
                       "(simulated behaviours + counter-examples of the model mutants) and free-running rounds")
    run_tier(ctx)


def replay_file(ctx, path):
    """bin/check X13FE --replay <file>: re-run exactly the recorded run / round and judge the new history."""
    with open(path) as f:
        rec = json.load(f)
    rp = rec.get("replay", rec)
    ensure_overlay(ctx)
    ctx.seed = int(rec.get("seed", ctx.seed))
    ctx.tlc(MOD, MC, "MC_G3.cfg", workers=2, timeout=600, heap="4g")
    if rp.get("driver") == "TestReplay" and rp.get("run", {}).get("steps"):
        res, trace = drive(ctx, [rp["run"]], {}, "replay")
        judge(ctx, "replay", trace, lambda run: {"driver": "TestReplay", "run": rp["run"]})
    elif rp.get("driver") == "TestStorm":
        res, trace = drive(ctx, [], rp["storm"], "storm")
        judge(ctx, "storm", trace, lambda run: {"driver": "TestStorm", "storm": rp["storm"]})
    else:
        raise vf.MachineryError("replay file %s names no X13FE driver" % path)
    ctx.cov["rule"] = "replay of %s" % path
    ctx.sample({"replayed": path, "driver": rp.get("driver")})
    ctx._distinct.update(["replay", path])
