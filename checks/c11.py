"""C11 -- exactly one reply per admitted query, in time, whatever upstreams do.

Thin entry point: the state-machine core lives in c11_core.run_core(ctx); the lead merges the
engine/socket-level and scripted-authority-level drivers here.
"""
import c11_core


def run(ctx, replay):
    if replay:
        c11_core.replay_core(ctx, replay)
        return
    c11_core.run_core(ctx)
