"""C11 -- exactly one reply per admitted query, in time, whatever upstreams do.

Core tier  : checks/c11_core.py (Dedup.tla on the real WaitGroup and the real Cache.ServeDNS under gated schedules).
Engine tier: checks/c11_engine.py (UpFault.tla fault scripts played by scripted authorities against the real full
             pipeline on real UDP+TCP sockets).
"""
import c11_core
import c11_engine


def run(ctx, replay):
    if replay:
        c11_core.replay_core(ctx, replay)
        return
    c11_core.run_core(ctx)
    c11_engine.run_engine(ctx)
