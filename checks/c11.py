"""C11 -- exactly one reply per admitted query, in time, whatever upstreams do.

Core tier  : checks/c11_core.py (Dedup.tla on the real WaitGroup and the real Cache.ServeDNS under gated schedules).
Engine tier: checks/c11_engine.py (UpFault.tla fault scripts played by scripted authorities against the real full
             pipeline on real UDP+TCP sockets).
Deadline   : checks/x11dl.py (LazyDeadline.tla / InterruptGroup.tla: forced schedules, concurrent histories, fan-out).
"""
import c11_core
import c11_engine
import x11dl


def _fresh_overlay(ctx):
    """the overlay file list is cached per run: drop it when a tier brings its own shims"""
    import os
    ov = os.path.join(ctx.scratch, "overlay.json")
    if os.path.exists(ov):
        os.remove(ov)


def run(ctx, replay):
    if replay:
        c11_core.replay_core(ctx, replay)
        return
    c11_core.run_core(ctx)
    c11_engine.run_engine(ctx)
    # the request deadline and the straggler interruption behind "in time": LazyDeadline.tla / InterruptGroup.tla
    ctx.overlay_tags.add("x11dl")
    _fresh_overlay(ctx)
    x11dl.run_tier(ctx)
