"""C11 -- exactly one reply per admitted query, in time, whatever upstreams do.

Core tier  : checks/c11_core.py (Dedup.tla on the real WaitGroup and the real Cache.ServeDNS under gated schedules).
Engine tier: checks/c11_engine.py (UpFault.tla fault scripts played by scripted authorities against the real full
             pipeline on real UDP+TCP sockets).
Deadline   : checks/x11dl.py (LazyDeadline.tla / InterruptGroup.tla: forced schedules, concurrent histories, fan-out).
"""
import c10
import c11_core
import c11_engine
import x11dl
import x11dr
import x11fl
import x11fw
import x13zb


def _fresh_overlay(ctx):
    """the overlay file list is cached per run: drop it when a tier brings its own shims"""
    import os
    ov = os.path.join(ctx.scratch, "overlay.json")
    if os.path.exists(ov):
        os.remove(ov)


def run(ctx, replay):
    if replay:
        if x13zb.is_replay(replay):      # a recorded history of the zone / breaker tier: that tier's own replay entry
            x13zb.replay_file(ctx, replay)
            return
        c11_core.replay_core(ctx, replay)
        return
    c11_core.run_core(ctx)
    c11_engine.run_engine(ctx)
    # "exactly one reply, never two" at the engine: the UDP job walk under load with packets that stage a reply AND
    # ask for a handoff, panic, or stay silent; the recorded walk is judged by Trace_UdpJob.tla (AtMostOneSend,
    # ReleaseOnce) -- one engine shape here, all of them in C10
    c10.require_hook()
    ctx.overlay_tags.add("c10")
    _fresh_overlay(ctx)
    ctx.tlc("UdpJob", "MC_UdpJob.tla", "MC_batch.cfg", workers=4, timeout=900, heap="6g")
    # "no held slabs": datagrams larger than the slab's RX buffer (packet kind "trunc") are dropped by their reader and the
    # slab goes back -- NoHeldSlabs; the twin whose batch reader returns without the release must break it on the model.
    # The engine walk below sends such datagrams in its load and judges: after the load no more slabs out than the readers
    # can arm (Go predicate and AllHome on the recorded walk), probes answered, lease count zero after the stop.
    ctx.tlc("UdpJob", "MC_UdpJob.tla", "MC_trunc.cfg", workers=4, timeout=900, heap="6g")
    neg = ctx.tlc("UdpJob", "MC_UdpJob.tla", "MC_regress_truncleak.cfg", workers=4, timeout=900, heap="6g", must_pass=False,
                  tag="regression", count=False)
    if neg.violated != "NoHeldSlabs":
        import vf
        raise vf.MachineryError("MC_regress_truncleak.cfg: expected NoHeldSlabs to fail on the mutant model, got %r" % neg.violated)
    c10.engines(ctx, "[C11, engine walk] ", only=["batch-w1"], secure=False)
    # the request deadline and the straggler interruption behind "in time": LazyDeadline.tla / InterruptGroup.tla
    ctx.overlay_tags.add("x11dl")
    _fresh_overlay(ctx)
    x11dl.run_tier(ctx)
    # forwarder / failover mode: one reply, own id and question, in time, whatever the configured upstreams do (Forward.tla)
    # shutdown and drain barriers, slab cache, TCP job tokens: "after load stops the server returns to quiescence with no
    # stuck goroutines, held slabs or leaked limiter slots" (Drain.tla / SlabCache.tla, gated on the real server.Server)
    ctx.overlay_tags.add("x11dr")
    _fresh_overlay(ctx)
    x11dr.run_tier(ctx)
    # identical and related queries in flight: the coalesced lookup, its regroup on a cancelled leader, the resolution /
    # zone / server slots and the probe pools (Flight.tla, Pool.tla) -- "it neither wedges nor fails other clients waiting
    # on the same name ... no leaked limiter slots"; the private-copy / own-id classes belong to C10 (drift here)
    x11fl.ONLY = "C11"
    ctx.overlay_tags.add("x11fl")
    _fresh_overlay(ctx)
    x11fl.run_tier(ctx)
    # "expired, cancelled ... resolution surfaces as SERVFAIL to that client only; it neither wedges nor fails other clients":
    # what earlier clients' own deadlines, hang-ups and faster peers leave behind in the state request trees share -- the
    # per-server circuit breaker and the RFC 9520 zone failure (ZoneBrk.tla: histories of request trees against one zone,
    # "only upstream failures count"; counter-examples of the model mutants played on the real full pipeline)
    _fresh_overlay(ctx)
    x13zb.run_tier(ctx)
    if ctx.tier == "thorough":
        # (quick: the same driver runs in C12 and C19 for their families; the c11 family is judged in the thorough tier)
        ctx.overlay_tags.add("x11fw")
        _fresh_overlay(ctx)
        x11fw.run_tier(ctx, families=("c11",))
