"""X08AL -- delegation leases across alias chases served from cache: derived entries (serves C08 and C04).

AliasLease.tla   root -> stable. (alias.stable. CNAME t.ghost. / d.stable. DNAME ghost.) and root -> ghost. (leased
                 2 s / 7 s: below / above the 5 s cache floor); the target is a positive A, a NODATA or an NXDOMAIN; the
                 parent re-points ghost. to new servers with other data or removes the delegation; clients ask the
                 target, the alias and the reverse alias back.ghost. CNAME h<v>.stable. (a record of the leased zone
                 whose chase ends in the stable one), decoded and wire-born, in any order, while the clock advances.
  - TLC exhaustive: FollowsParent (nothing learned through the old delegation -- directly or as a derived alias entry --
    is served after the lease the parent granted ended), LeaseWithinGrant, EntryWithinPieces (a derived entry lives no
    longer than min(lease of every delegation it rests on, its pieces' lifetimes)), ServedLive, ShownTTL.  Negative
    twins: the request tree bound to the LATER of TTL and lease on a hit (= seeded change C08-r2-1), the 5 s floor applied
    after the lease fold, the lease folded for positive pieces only, the alias entry bounded by its own zone's cut only,
    the request-tree bound taking the LAST fold instead of the earliest;
    two reachability configs (a stale-but-leased derived reply; an alias asked after the lease ended while its own TTL
    would still run).
  - spec->code: TLC-simulated histories become scripts for harness/x08al: the real default chain (edns+cache+resolver)
    against authkit authorities under a virtual clock (overlay shifters on the answer cache and the delegation cache).
    Every reply is judged by an oracle built from the authorities' logs only (which version's data, fetched when, under
    which referral); the model's predicted reply and its projected cache state (target entry in both CD partitions,
    alias entry: alive? how long?) are compared step by step -> drift.
Verdict classes:  ghost (C08 and C04)   overlife, ttl (C04).  A property check that runs the tier sets ONLY.
"""
import json
import os
import random
from concurrent.futures import ThreadPoolExecutor

import vf

MOD = "AliasLease"
SPEC = "MC_AL.tla"
ONLY = None          # None | "C08" | "C04"
CLASS_OF = {"ghost": ("C08", "C04"), "overlife": ("C04",), "ttl": ("C04",)}

NEG = [("MC_AL_neg_last.cfg", "FollowsParent"), ("MC_AL_neg_later.cfg", "FollowsParent"), ("MC_AL_neg_later_life.cfg", "EntryWithinPieces"),
       ("MC_AL_neg_floor.cfg", "FollowsParent"), ("MC_AL_neg_floor_ttl.cfg", "ShownTTL"),
       ("MC_AL_neg_posonly.cfg", "FollowsParent"), ("MC_AL_neg_owncut.cfg", "FollowsParent"),
       ("MC_AL_reach_stale.cfg", "NeverStaleDerived"), ("MC_AL_reach_tension.cfg", "NeverFloorTension")]


def counts(key):
    return ONLY is None or ONLY in CLASS_OF.get(key.split("/")[0], ())


def filter_result(ctx, res):
    keep = []
    for v in res.get("violations", []):
        if counts(v.get("key", "")):
            keep.append(v)
        else:
            ctx.cov["drift"] += 1
            ctx.log("DRIFT (class %s is not %s's to judge): %s" % (v.get("key"), ONLY, v.get("what")))
    res["violations"] = keep


# ---- behaviours -> scenarios ---------------------------------------------------------------------------------------
def _hard(e):
    return min(e["st"] + e["ttl"], e["cut"])


def _ent(e, now):
    live = e["kind"] != "none" and now < _hard(e)
    return {"live": live, "rem": _hard(e) - now if live else 0}


def _proj(st):
    now = st["now"]
    et = st["eT"]
    et = et if isinstance(et, list) else [et[k] for k in sorted(et)]
    return {"t": _ent(et[0], now), "t2": _ent(et[1], now), "a": _ent(st["eA"], now), "b": _ent(st["eB"], now)}


def _label(lab):
    lab = lab.strip()
    if "(" not in lab:
        return lab, []
    name, rest = lab.split("(", 1)
    return name, [a.strip().strip('"') for a in rest.rstrip(")").split(",")]


def scenario(sid, beh):
    cfg = beh[0][1]["cfg"]
    steps, feats = [], set()
    ops = []
    for k in range(1, len(beh)):
        name, a = _label(beh[k][0])
        pre, post = beh[k - 1][1], beh[k][1]
        if name == "Ask":
            rp = post["reply"]
            data = rp["data"]
            vers = sorted({d["ver"] for d in data})
            steps.append({"op": "ask", "name": a[0], "wire": a[1] == "wire", "exp": {"kind": rp["kind"], "vers": vers}, "cache": _proj(post)})
            ea, now = pre["eA"], pre["now"]
            alive = ea["kind"] != "none" and now < _hard(ea)
            if a[0] == "a":
                if not alive and any(d["cache"] for d in data):
                    feats.add("derived")           # the alias is (re-)assembled from a cached piece
                if not alive and not any(d["cache"] for d in data):
                    feats.add("upstream")          # the chase is resolved upstream
                if alive:
                    feats.add("aliashit")
                if (not alive and ea["kind"] in ("nx", "nodata") and ea["cut"] <= now < ea["st"] + ea["ttl"] and ea["cut"] < 9999
                        and ea["ver"] != pre["gver"] and ops):
                    feats.add("tension")           # dead by the lease alone, the parent has changed
            if a[0] == "b":
                eb = pre["eB"]
                feats.add("back")
                if (eb["kind"] == "a" and eb["cut"] <= now < eb["st"] + eb["ttl"] and eb["ver"] != pre["gver"]):
                    feats.add("tension")           # the reverse alias: dead by the ghost lease alone
                    feats.add("backtension")
            if any(d["ver"] not in (0, post["gver"]) for d in data):
                feats.add("leased")                # stale but justified
        elif name == "Tick":
            steps.append({"op": "tick", "d": int(a[0]), "cache": _proj(post)})
        elif name in ("Repoint", "Remove"):
            steps.append({"op": name.lower(), "cache": _proj(post)})
            ops.append(name.lower())
        else:
            raise vf.MachineryError("unknown AliasLease action %r" % beh[k][0])
    # trailing clock advances / parent actions observe nothing
    while steps and steps[-1]["op"] != "ask":
        steps.pop()
    sc = {"id": sid, "alias": cfg["alias"], "kind1": cfg["kind1"], "kind2": cfg["kind2"], "lease": cfg["lease"], "sLease": cfg["slease"],
          "ownTTL": cfg["rt"], "negTTL": cfg["rt"], "steps": steps}
    return sc, feats, ops


def pick(ctx, behs, want):
    rnd = random.Random(ctx.seed)
    strata, seen = {}, set()
    for bi, b in enumerate(behs):
        if len(b) < 4:
            continue
        sc, feats, ops = scenario("s%05d" % bi, b)
        nask = sum(1 for s in sc["steps"] if s["op"] == "ask")
        if nask < 2 or not ops:
            continue
        key = json.dumps({k: v for k, v in sc.items() if k != "id"}, sort_keys=True)
        if key in seen:
            continue
        seen.add(key)
        rank = 0 if "tension" in feats else 1 if ("derived" in feats and "leased" in feats) else 2 if "derived" in feats else 3
        stratum = "%d%s|%s|%s|L%d|%s|r%d" % (rank, "B" if "backtension" in feats else "", sc["alias"], sc["kind1"], sc["lease"], ops[0], sc["ownTTL"])
        sc["feats"] = sorted(feats)
        strata.setdefault(stratum, []).append(sc)
    order = sorted(strata)
    for s in strata.values():
        rnd.shuffle(s)
    # classes: the histories that put the lease fold under tension (alias in stable. / alias in ghost.), the ones that
    # assemble an alias from a cached piece, and plain ones -- each gets its share, every stratum of a class in turn
    classes = {}
    for s in order:
        classes.setdefault(s.split("|")[0], []).append(s)
    share = {"0": 0.3, "0B": 0.2, "1": 0.2, "2": 0.15, "3": 0.15}
    picked = []
    for cl, names in sorted(classes.items()):
        quota = int(round(want * share.get(cl, 0.1)))
        got = 0
        while got < quota and any(strata[n] for n in names):
            for n in names:
                if strata[n] and got < quota:
                    picked.append(strata[n].pop())
                    got += 1
    while len(picked) < want and any(strata.values()):
        for s in order:
            if strata[s] and len(picked) < want:
                picked.append(strata[s].pop())
    return picked, len(order)


# ---- tier ------------------------------------------------------------------------------------------------------------
def model_jobs(ctx, thorough):
    jobs = [lambda: ctx.tlc(MOD, SPEC, "MC_AL_quick2.cfg", workers=4, timeout=900, heap="4g", tag="exhaustive"),
            lambda: ctx.tlc(MOD, SPEC, "MC_AL_quick7.cfg", workers=4, timeout=900, heap="4g", tag="exhaustive"),
            lambda: ctx.tlc(MOD, SPEC, "MC_AL_quickB.cfg", workers=2, timeout=900, heap="4g", tag="exhaustive")]
    if thorough:
        jobs.append(lambda: ctx.tlc(MOD, SPEC, "MC_AL_full.cfg", workers=8, timeout=1800, heap="12g", tag="exhaustive"))
        jobs.append(lambda: ctx.tlc(MOD, SPEC, "MC_AL_fullB.cfg", workers=4, timeout=1800, heap="8g", tag="exhaustive"))

    def neg(cfg, inv):
        def run():
            r = ctx.tlc(MOD, SPEC, cfg, workers=2, timeout=300, heap="2g", must_pass=False, count=False, tag="negative")
            if r.violated != inv:
                raise vf.MachineryError("AliasLease %s no longer violates %s (got %s): vacuous model?" % (cfg, inv, r.violated))
            return r
        return run
    jobs += [neg(c, i) for c, i in NEG]
    return jobs


def run_scenarios(ctx, picked, name="x08al"):
    res = ctx.go_driver("./x08al", "TestAliasLease", {"scenarios": picked, "workers": 8}, name=name, timeout=1500)
    filter_result(ctx, res)
    ctx.take_driver_result(res, "[X08AL] ")
    return res


def run_tier(ctx):
    thorough = ctx.tier == "thorough"
    if "x08al" not in ctx.overlay_tags:
        ctx.overlay_tags.add("x08al")
        ov = os.path.join(ctx.scratch, "overlay.json")
        if os.path.exists(ov):
            os.remove(ov)
    ctx.cov["rule"] = (ctx.cov.get("rule", "") + " | X08AL: scenarios = TLC-simulated histories of AliasLease.tla (target / alias questions, "
                       "decoded and wire-born, clock advances, re-point / removal of the leased delegation) run on the real default chain "
                       "against scripted authorities under a virtual clock; distinct = scenario/reply-class signature").strip(" |")
    ctx.assumptions += [
        "X08AL: virtual clock = the answer cache's and the delegation cache's stored timestamps moved into the past between two "
        "client questions (overlay shifters); the RFC 9520 failure cache and the resolver's un-timed glue cache are not shifted",
        "X08AL: unsigned zones, DNSSEC off (the handler then resolves with CD=1: the resolver's DNAME leg uses the CD=1 partition "
        "of the answer cache -- modelled); prefetch off; the ghost authorities clamp the SOA TTL of a denial to the SOA minimum (RFC 2308)",
        "X08AL: an authority's answer / referral is taken to have been observed at the END of the client question it was served in",
        "X08AL: TTLs shown on replies that were fetched during the very question (miss path) are not judged: they are the authority's",
    ]
    ctx.spec_dir(MOD)
    num, depth, want = (3000, 14, 80) if not thorough else (12000, 16, 400)

    def sim():
        return ctx.tlc_behaviours(MOD, SPEC, "Sim_AL.cfg", num=num, depth=depth, timeout=900)
    with ThreadPoolExecutor(max_workers=6) as ex:
        fsim = ex.submit(sim)
        futs = [ex.submit(j) for j in model_jobs(ctx, thorough)]
        behs = fsim.result()
        for f in futs:
            f.result()
    picked, nstrata = pick(ctx, behs, want)
    if len(picked) < min(want, 24):
        raise vf.MachineryError("AliasLease simulation produced only %d usable scenarios" % len(picked))
    fc = {}
    for sc in picked:
        for f in sc["feats"]:
            fc[f] = fc.get(f, 0) + 1
    ctx.log("X08AL: %d behaviours simulated, %d strata, %d scenarios picked, features %s" % (len(behs), nstrata, len(picked), fc))
    for need in ("tension", "derived", "leased", "upstream", "aliashit", "back", "backtension"):
        if fc.get(need, 0) < 3:
            raise vf.MachineryError("AliasLease scenarios: only %d with feature %r (vacuous)" % (fc.get(need, 0), need))
    res = run_scenarios(ctx, picked)
    c = res.get("counters", {})
    info = {"scenarios": len(picked), "ran": res["cases"], "features": fc, "drift": res["drift"], "drift_notes": (res.get("drift_notes") or [])[:10],
            "skipped": (res.get("skipped") or [])[:8], "counters": c}
    ctx.cov["replay"]["x08al"] = info
    if res.get("violations"):
        return
    if res["cases"] < len(picked) - max(2, len(picked) // 10):
        raise vf.MachineryError("X08AL ran %d of %d scenarios (skipped: %s)" % (res["cases"], len(picked), (res.get("skipped") or [])[:3]))
    if (c.get("alias_served_from_cache", 0) < 10 or c.get("alias_resolved_upstream", 0) < 10 or c.get("datum_leased", 0) < 3
            or c.get("asks_wire", 0) < 10 or c.get("cache_states_compared", 0) < 100 or c.get("referrals_logged", 0) < len(picked)):
        raise vf.MachineryError("X08AL replay is vacuous: %s" % c)
    if c.get("ask_failed", 0) > max(3, c.get("asks", 0) // 20):
        raise vf.MachineryError("X08AL: %d of %d questions got no usable reply" % (c.get("ask_failed", 0), c.get("asks", 0)))
    if c.get("scenarios_drifted", 0) > len(picked) // 3:
        raise vf.MachineryError("X08AL: %d of %d scenarios drifted from the model (binding lost): %s" % (
            c.get("scenarios_drifted", 0), len(picked), (res.get("drift_notes") or [])[:3]))


def run_replay(ctx, path):
    """Focused replay of one recorded violation: the recorded script, three times."""
    with open(path) as f:
        rec = json.load(f)
    rp = rec.get("replay", rec)
    sc = rp.get("scenario")
    if rp.get("driver") != "x08al" or not isinstance(sc, dict):
        return False
    ctx.overlay_tags.add("x08al")
    ov = os.path.join(ctx.scratch, "overlay.json")
    if os.path.exists(ov):
        os.remove(ov)
    ctx.tlc(MOD, SPEC, "MC_AL_quick2.cfg", workers=4, timeout=900, heap="4g", tag="exhaustive")   # the statement the replay is judged by
    scs = []
    for k in range(3):
        c = dict(sc)
        c["id"] = "%s-r%d" % (sc.get("id"), k)
        scs.append(c)
    res = ctx.go_driver("./x08al", "TestAliasLease", {"scenarios": scs, "workers": 3}, name="x08al_replay", timeout=600)
    filter_result(ctx, res)
    ctx.take_driver_result(res, "[X08AL, replay] ")
    ctx.note_case("replay:" + str(sc.get("id")))
    ctx.cov["replay"]["x08al_replay"] = {"scenario": sc.get("id"), "ran": res["cases"], "counters": res.get("counters", {})}
    return True


def run(ctx, replay):
    if replay:
        if not run_replay(ctx, replay):
            raise vf.MachineryError("replay file %s is not an X08AL record" % replay)
        return
    run_tier(ctx)
