"""C11E -- the engine tier of C11 on its own (`bin/check C11E`); the lead merges run_engine into C11."""
import c11_engine


def run(ctx, replay):
    ctx.cov["rule"] = ("states/transitions = TLC exhaustive run of UpFault.tla over all 10^4 two-server fault scripts; "
                       "evaluations = client queries observed under played scripts; distinct = distinct scripts played")
    c11_engine.run_engine(ctx)
